"""C06 - statement CATALOG and same-block sequences.

The random script generator (c06_gen.gen_script) draws each statement independently, so two statements whose emitted C++
declares the same helper local in ONE C++ block (the same device call twice, two calls that share a helper) meet only by
chance.  Here every statement shape the transpiler translates is listed once (every device method with all-literal and with
run-time arguments, with and without its optional arguments; every language statement that makes the parser or the emitter
invent a C++ name), and `context_script` puts a whole sequence of them into ONE Python block of each kind of block there is.
A sequence that contains the catalog twice puts every unordered pair of shapes, and every shape with itself, into one C++
scope.  `ddmin` reduces a failing sequence to a minimal one (usually two statements).
"""
from __future__ import annotations

HEAD = """from Reduino import target
target("COM3")
from Reduino.Actuators import Led, RGBLed, Buzzer, Servo, DCMotor
from Reduino.Displays import LCD
from Reduino.Sensors import Button, Potentiometer, Ultrasonic
from Reduino.Communication import SerialMonitor
from Reduino.Utils import sleep
from Reduino.Core import pin_mode, digital_write, digital_read, analog_read, analog_write, OUTPUT, INPUT, INPUT_PULLUP, HIGH, LOW
"""

DEVICES = """led = Led(13)
led2 = Led(7)
rgb = RGBLed(9, 10, 11)
bz = Buzzer(8)
arm = Servo(6)
motor = DCMotor(4, 5, 3)
motor2 = DCMotor(22, 23, 2)
lcd = LCD(rs=24, en=25, d4=26, d5=27, d6=28, d7=29, backlight_pin=44)
lcd2 = LCD(i2c_addr=0x27, cols=20, rows=4)
mon = SerialMonitor(9600)
pot = Potentiometer("A0")
btn = Button(30)
sonar = Ultrasonic(31, 32)
v = analog_read(1)
f = v / 4.0
flag = v > 3
s = "txt"
nums = [1, 2, 3]
def add2(a: int, b: int):
    return a + b
"""

# contexts: where the sequence stands.  (name, in a function?, in the main loop?)
CONTEXTS = ["setup", "loop", "fn", "if", "elif", "else", "for", "while", "try", "except", "fn-if", "for-in-if", "hoisted-loop"]


def catalog(n: int, in_fn: bool, at_top: bool):
    """-> [(label, [lines])]; n makes the Python names introduced by this copy fresh.
    in_fn: the statements stand in a user function (no measure_distance(): F-C06-fn-uses-ultrasonic; .animate() is
    generated there too since the repair recorded as F-C06-lcd-animate-in-function)."""
    E = []
    A = lambda label, *lines: E.append((label, list(lines)))
    # ---------------- Led
    A("Led.on", "led.on()")
    A("Led.off", "led.off()")
    A("Led.toggle", "led2.toggle()")
    A("Led.set_brightness lit", "led.set_brightness(128)")
    A("Led.set_brightness rt", "led.set_brightness(v)")
    A("Led.blink lit", "led.blink(200)")
    A("Led.blink lit times", "led.blink(200, 3)")
    A("Led.blink rt", "led2.blink(v, times=v)")
    A("Led.fade_in default", "led.fade_in()")
    A("Led.fade_in rt", "led.fade_in(step=5, delay_ms=v)")
    A("Led.fade_out default", "led.fade_out()")
    A("Led.fade_out rt", "led2.fade_out(v, 10)")
    A("Led.flash_pattern lit", "led.flash_pattern([1, 0, 1])")
    A("Led.flash_pattern rt delay", "led.flash_pattern([1, 0, 255, 0], delay_ms=v)")
    A("Led.flash_pattern empty", "led.flash_pattern([])")
    # ---------------- RGBLed
    A("RGBLed.set_color lit", "rgb.set_color(1, 2, 3)")
    A("RGBLed.set_color rt", "rgb.set_color(v, v + 1, v - 1)")
    A("RGBLed.on default", "rgb.on()")
    A("RGBLed.on args", "rgb.on(255, 0, v)")
    A("RGBLed.off", "rgb.off()")
    A("RGBLed.fade lit", "rgb.fade(1, 2, 3)")
    A("RGBLed.fade lit all", "rgb.fade(1, 2, 3, 500, 10)")
    A("RGBLed.fade rt", "rgb.fade(v, v, v, duration_ms=v, steps=v)")
    A("RGBLed.blink lit", "rgb.blink(1, 2, 3)")
    A("RGBLed.blink rt", "rgb.blink(v, v, v, times=v, delay_ms=v)")
    # ---------------- Buzzer
    A("Buzzer.play_tone lit", "bz.play_tone(440)")
    A("Buzzer.play_tone float rt", "bz.play_tone(f)")
    A("Buzzer.play_tone lit duration", "bz.play_tone(440, 200)")
    A("Buzzer.play_tone rt duration", "bz.play_tone(v, duration_ms=v)")
    A("Buzzer.stop", "bz.stop()")
    A("Buzzer.beep default", "bz.beep()")
    A("Buzzer.beep lit", "bz.beep(frequency=880, on_ms=100, off_ms=50, times=2)")
    A("Buzzer.beep rt", "bz.beep(frequency=v, on_ms=v, off_ms=v, times=v)")
    A("Buzzer.beep rt on_ms", "bz.beep(on_ms=v)")
    A("Buzzer.sweep lit", "bz.sweep(200, 800, 500)")
    A("Buzzer.sweep rt", "bz.sweep(v, v + 100, v, steps=v)")
    A("Buzzer.sweep rt duration", "bz.sweep(200, 800, v)")
    A("Buzzer.melody", 'bz.melody("success")')
    A("Buzzer.melody tempo lit", 'bz.melody("alarm", tempo=120)')
    A("Buzzer.melody tempo rt", 'bz.melody("siren", tempo=f)')
    # ---------------- Servo
    A("Servo.write lit", "arm.write(90)")
    A("Servo.write float rt", "arm.write(f)")
    A("Servo.write int rt", "arm.write(v)")
    A("Servo.write_us lit", "arm.write_us(1500)")
    A("Servo.write_us rt", "arm.write_us(v)")
    # ---------------- DCMotor
    A("DCMotor.set_speed lit", "motor.set_speed(0.5)")
    A("DCMotor.set_speed rt", "motor.set_speed(f)")
    A("DCMotor.backward default", "motor.backward()")
    A("DCMotor.backward lit", "motor.backward(0.3)")
    A("DCMotor.backward rt", "motor2.backward(speed=f)")
    A("DCMotor.stop", "motor.stop()")
    A("DCMotor.coast", "motor.coast()")
    A("DCMotor.invert", "motor.invert()")
    A("DCMotor.invert other motor", "motor2.invert()")
    A("DCMotor.ramp lit", "motor.ramp(0.8, 500)")
    A("DCMotor.ramp rt", "motor.ramp(f, v)")
    A("DCMotor.run_for lit", "motor.run_for(500, 0.5)")
    A("DCMotor.run_for rt", "motor2.run_for(v, f)")
    # ---------------- LCD (lcd: parallel with backlight pin, lcd2: I2C)
    A("LCD.write lit", 'lcd.write(0, 0, "a")')
    A("LCD.write rt", 'lcd2.write(v, 1, s, clear_row=True, align="center")')
    A("LCD.line lit", 'lcd.line(0, "x")')
    A("LCD.line rt", 'lcd2.line(1, s, align="right")')
    A("LCD.message two", 'lcd.message("a", "b")')
    A("LCD.message bottom kw", "lcd2.message(s, bottom=s)")
    A("LCD.message bottom None", "lcd.message(top=s, bottom=None)")
    A("LCD.message one", 'lcd.message("only")')
    A("LCD.clear", "lcd.clear()")
    A("LCD.display True", "lcd.display(True)")
    A("LCD.display False i2c", "lcd2.display(False)")
    A("LCD.display rt", "lcd.display(flag)")
    A("LCD.display rt i2c", "lcd2.display(flag)")
    A("LCD.backlight lit", "lcd.backlight(True)")
    A("LCD.backlight lit i2c", "lcd2.backlight(False)")
    A("LCD.backlight rt", "lcd.backlight(flag)")
    A("LCD.backlight rt i2c", "lcd2.backlight(flag)")
    A("LCD.brightness lit", "lcd.brightness(128)")
    A("LCD.brightness rt", "lcd.brightness(v)")
    A("LCD.glyph", "lcd.glyph(0, [0, 10, 31, 31, 14, 4, 0, 0])")
    A("LCD.glyph i2c", "lcd2.glyph(1, [4, 14, 31, 4, 4, 4, 4, 0])")
    A("LCD.progress lit", "lcd.progress(0, 50)")
    A("LCD.progress rt", 'lcd2.progress(1, v, max_value=1023, width=10, label="L", style="hash")')
    A("LCD.animate scroll", 'lcd.animate("scroll", 0, "hello")')
    A("LCD.animate blink rt", 'lcd2.animate("blink", 1, s, speed_ms=v, loop=False)')
    A("LCD.animate typewriter", 'lcd.animate("typewriter", 1, "abc", speed_ms=100)')
    A("LCD.animate bounce", 'lcd2.animate("bounce", 0, s, loop=True)')
    # ---------------- serial, core, sensors
    A("mon.write str", 'mon.write("x")')
    A("mon.write int", "mon.write(v)")
    A("mon.write fstring", 'mon.write(f"{v} and {s}")')
    A("sleep lit", "sleep(100)")
    A("sleep rt", "sleep(v)")
    A("pin_mode", "pin_mode(33, OUTPUT)")
    A("digital_write", "digital_write(33, HIGH)")
    A("analog_write rt", "analog_write(3, v)")
    A("digital_read", f"dr{n} = digital_read(34)")
    A("analog_read", f"ar{n} = analog_read(2)")
    A("pot.read", f"pr{n} = pot.read()")
    A("btn.is_pressed", f"bp{n} = btn.is_pressed()")
    if not in_fn:
        A("sonar.measure_distance", f"md{n} = sonar.measure_distance()")
    # ---------------- language statements that invent C++ names
    A("assign new int", f"a{n} = v + 1")
    A("assign new float", f"af{n} = f * 2.0")
    A("assign new str", f'as{n} = s + "!"')
    A("assign new fstring", f'aw{n} = f"{{v}}:{{s}}"')
    A("tuple all-new", f"ta{n}, tb{n} = v, f")
    A("tuple swap", f"sa{n} = v", f"sb{n} = v + 1", f"sa{n}, sb{n} = sb{n}, sa{n}")
    A("tuple rotate", f"ra{n} = 1", f"rb{n} = 2", f"rc{n} = 3", f"ra{n}, rb{n}, rc{n} = rb{n}, rc{n}, ra{n}")
    A("list literal", f"ll{n} = [v, 2, 3]")
    A("list comprehension", f"lc{n} = [e * 2 for e in range(v)]")
    A("list append", "nums.append(v)")
    A("list remove", "nums.remove(1)")
    A("len(list)", f"ln{n} = len(nums)")
    A("list index", f"li{n} = nums[0]")
    # ("list setitem", "nums[0] = v") left the catalog: a subscript assignment never reached the firmware (it was dropped
    # silently - finding F-C07-drop-subscript-attr-assign) and is REJECTED since "fix: reject statements the transpiler
    # cannot translate instead of dropping them"; one rejected statement would hide the rest of a sequence
    A("call assign", f"ca{n} = add2(v, 2)")
    A("for range", "for i in range(3):", "    led.toggle()")
    A("for range promote", "for j in range(2):", f"    fp{n} = j + v", f"mon.write(fp{n})")
    A("for range rt bound decl", "for k in range(v):", f"    fd{n} = k * 2", f"    mon.write(fd{n})")
    A("while", f"wc{n} = 0", f"while wc{n} < 2:", f"    wc{n} += 1")
    A("while promote", f"wq{n} = 0", f"while wq{n} < 2:", f"    wq{n} += 1", f"    wp{n} = wq{n} * 2", f"mon.write(wp{n})")
    A("if promote", "if v > 3:", f"    ip{n} = 1", "else:", f"    ip{n} = 2", f"mon.write(ip{n})")
    A("if elif promote str", "if v > 3:", f'    ie{n} = "hi"', "elif v > 1:", f'    ie{n} = "mid"', "else:", f'    ie{n} = "lo"', f"mon.write(ie{n})")
    A("if device calls", "if flag:", "    motor.invert()", "    arm.write(10)", "else:", "    motor.invert()", "    arm.write(20)")
    A("try", "try:", f"    tr{n} = v + 1", "    led.on()", "except:", "    led.off()")
    A("try promote", "try:", f"    tp{n} = v + 1", "except:", f"    tp{n} = 0", f"mon.write(tp{n})")
    A("augassign", f"ag{n} = 1", f"ag{n} += v", f"ag{n} *= 2")
    if in_fn:                                  # the function's own parameter (seq_fn(c: int)): re-assigned, never re-declared
        A("param reassign", "c = c + 1")
        A("param augassign", "c += v")
        A("param in tuple", f"pt{n} = 0", f"c, pt{n} = pt{n}, c")
    A("str augassign", f'sg{n} = "a"', f'sg{n} += "b"')
    return E


def wrap(context: str, stmts):
    """stmts: list of line lists -> full script with all of them in ONE block of the given kind"""
    flat = [l for st in stmts for l in st] or ["pass"]
    ind = lambda ls, k=1: ["    " * k + l for l in ls]
    pre, loop = [], ["sleep(50)"]
    if context == "setup":
        pre = flat
    elif context == "loop":
        loop = flat
    elif context == "hoisted-loop":           # devices of the hoistable kinds declared at the top of the loop body, then driven there
        loop = ["hled = Led(35)", "hmotor = DCMotor(36, 37, 38)", "hservo = Servo(39)", "hrgb = RGBLed(40, 41, 42)"] + \
               [l.replace("motor2.", "hmotor.").replace("led2.", "hled.").replace("arm.", "hservo.").replace("rgb.", "hrgb.") for l in flat]
    elif context == "fn":
        pre = ["def seq_fn(c: int):"] + ind(flat)
        loop = ["seq_fn(v)", "sleep(50)"]
    elif context == "fn-if":
        pre = ["def seq_fn(c: int):", "    if c > 2:"] + ind(flat, 2)
        loop = ["seq_fn(v)", "sleep(50)"]
    elif context == "if":
        loop = ["if v > 5:"] + ind(flat)
    elif context == "elif":
        loop = ["if v > 5:", "    sleep(1)", "elif v > 2:"] + ind(flat)
    elif context == "else":
        loop = ["if v > 5:", "    sleep(1)", "else:"] + ind(flat)
    elif context == "for":
        loop = ["for n in range(2):"] + ind(flat)
    elif context == "for-in-if":
        loop = ["if flag:", "    for n in range(2):"] + ind(flat, 2)
    elif context == "while":
        pre = ["wn = 0", "while wn < 2:", "    wn += 1"] + ind(flat)
    elif context == "try":
        loop = ["try:"] + ind(flat) + ["except:", "    sleep(1)"]
    elif context == "except":
        loop = ["try:", "    sleep(1)", "except:"] + ind(flat)
    else:
        raise ValueError(context)
    return HEAD + DEVICES + "\n".join(pre) + ("\n" if pre else "") + "while True:\n" + "\n".join(ind(loop)) + "\n"


def sequence(rng, context: str, copies: int = 2, labels=None):
    """-> [(label, lines)]: `copies` shuffled copies of the catalog with fresh Python names per copy"""
    in_fn = context.startswith("fn")
    seq = []
    for c in range(copies):
        cat = catalog(c, in_fn, context == "setup")
        if labels is not None:
            cat = [e for e in cat if e[0] in labels]
        if c > 0:
            rng.shuffle(cat)
        seq += cat
    return seq


def ddmin(items, fails, max_rounds=40):
    """classic ddmin over a list; fails(list_of_candidate_lists) -> [bool] evaluates many candidates at once"""
    n = 2
    rounds = 0
    while len(items) >= 2 and rounds < max_rounds:
        rounds += 1
        size = max(1, len(items) // n)
        chunks = [items[i:i + size] for i in range(0, len(items), size)]
        cands = chunks + [[x for j, ch in enumerate(chunks) for x in ch if j != k] for k in range(len(chunks))] if len(chunks) > 2 else chunks
        res = fails(cands)
        hit = next((c for c, r in zip(cands, res) if r and len(c) < len(items)), None)
        if hit is not None:
            items = hit
            n = max(2, min(n - 1, len(items))) if len(hit) > size else 2
            continue
        if n >= len(items):
            break
        n = min(len(items), n * 2)
    return items
