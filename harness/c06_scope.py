"""C06 - reads the block structure of one emitted C++ function (setup, loop, a user function, an ultrasonic helper) back
into the token sequence of coq/Lang/EmitScope.v:   ("open", [names the block header declares]) | ("close",) | ("decl", name)

Pure text processing on code whose literals and comments are already blanked (c06_sections.strip_code); trusted glue of the
correspondence, cross-checked against g++ on every sketch (model verdict "redeclaration" <-> g++ error "redeclaration").

  * `{` that follows `=` starts a brace initialiser (uint8_t g[8] = {...}; const int p[] = {...};), not a scope; a `{` inside
    parentheses is the body of a lambda in an expression (list comprehension): skipped as a whole;
  * any other `{` opens a scope; the text since the last `;` `{` `}` is its header: `for (T v = ...; ...)` declares v,
    `catch (T &e)` declares e, anything else (if / else / while / try / bare block) declares nothing;
  * a statement that ends in `;` at parenthesis depth 0 is a declaration when it reads
    [static|const|...]* TYPE [<...>] [&*]* NAME ( = | [ | end ), TYPE not a statement keyword.
"""
from __future__ import annotations

import re

KEYWORDS = {"return", "delete", "goto", "else", "new", "throw", "case", "break", "continue", "typedef", "using", "do", "if",
            "while", "for", "switch", "try", "catch", "sizeof", "static_cast", "default"}
QUAL = r"(?:(?:static|const|volatile|constexpr|register)\s+)*"
BUILTIN = r"(?:(?:unsigned|signed|long|short)(?:\s+(?:unsigned|signed|long|short|int|char))*)"
TYPE = r"(?:" + BUILTIN + r"|[A-Za-z_][\w:]*(?:\s*<[^;=(){}]*>)?)"
DECL = re.compile(r"^\s*" + QUAL + r"(" + TYPE + r")(?:\s*[&*]+\s*|\s+)([A-Za-z_]\w*)\s*(\[[^\]]*\]\s*)*(=|$)", re.S)
FOR_HDR = re.compile(r"^\s*for\s*\(\s*" + QUAL + r"(" + TYPE + r")(?:\s*[&*]+\s*|\s+)([A-Za-z_]\w*)\s*(=|;|:)", re.S)
CATCH_HDR = re.compile(r"^\s*catch\s*\(\s*" + QUAL + TYPE + r"\s*[&*]*\s*([A-Za-z_]\w*)?\s*\)\s*$", re.S)


class ScopeReadError(Exception):
    pass


def decl_name(stmt: str):
    m = DECL.match(stmt)
    if not m:
        return None
    first = re.match(r"\s*" + QUAL + r"([A-Za-z_]\w*)", stmt)
    if first and first.group(1) in KEYWORDS:
        return None
    if m.group(2) in KEYWORDS:
        return None
    return m.group(2)


def header_names(hdr: str):
    m = FOR_HDR.match(hdr)
    if m and m.group(1).split()[0] not in KEYWORDS:
        return [m.group(2)]
    m = CATCH_HDR.match(hdr)
    if m:
        return [m.group(1)] if m.group(1) else []
    return []


def split_params(head: str):
    """names of the parameters in `ret name(params)`"""
    k = head.find("(")
    j = head.rfind(")")
    if k < 0 or j < k:
        raise ScopeReadError("no parameter list: " + head[:60])
    inner = head[k + 1:j]
    parts, depth, cur = [], 0, ""
    for ch in inner:
        if ch in "<(":
            depth += 1
        elif ch in ">)":
            depth -= 1
        if ch == "," and depth == 0:
            parts.append(cur)
            cur = ""
        else:
            cur += ch
    parts.append(cur)
    out = []
    for p in parts:
        ids = re.findall(r"[A-Za-z_]\w*", re.sub(r"<[^<>]*>", " ", p))
        if ids and not (len(ids) == 1 and ids[0] == "void"):
            out.append(ids[-1])
    return out


def read_function(ctext: str):
    """ctext: blanked code of one function definition -> (parameter names, tokens of the body; the outermost braces are the
    function body itself and are NOT emitted as open/close)"""
    b0 = ctext.find("{")
    if b0 < 0:
        raise ScopeReadError("no body")
    params = split_params(ctext[:b0])
    toks = []
    depth = 0            # scope depth inside the body
    paren = 0
    start = b0 + 1
    i = b0 + 1
    n = len(ctext)
    closed = False
    while i < n:
        ch = ctext[i]
        if ch == "(":
            paren += 1
        elif ch == ")":
            paren -= 1
        elif ch == "{":
            k = i - 1
            while k >= start and ctext[k].isspace():
                k -= 1
            if (k >= start and ctext[k] == "=") or paren > 0:
                # brace initialiser, or the body of a lambda inside an expression (list comprehension): skip to its end,
                # the statement goes on
                lvl = 0
                while i < n:
                    if ctext[i] == "{":
                        lvl += 1
                    elif ctext[i] == "}":
                        lvl -= 1
                        if lvl == 0:
                            break
                    i += 1
            elif paren == 0:
                toks.append(("open", header_names(ctext[start:i])))
                depth += 1
                start = i + 1
        elif ch == "}":
            if paren != 0:
                raise ScopeReadError("closing brace inside parentheses")
            if depth == 0:
                closed = True
                if ctext[i + 1:].strip():
                    raise ScopeReadError("text after the function body")
                break
            toks.append(("close",))
            depth -= 1
            start = i + 1
        elif ch == ";" and paren == 0:
            nm = decl_name(ctext[start:i])
            if nm:
                toks.append(("decl", nm))
            start = i + 1
        i += 1
    if not closed:
        raise ScopeReadError("function body not closed")
    return params, toks


def prune(toks):
    """drop every block that contains no declaration at all (neither in its header nor anywhere inside)"""
    out = []
    stack = []           # (index in out where the block starts, has_decl)
    for t in toks:
        if t[0] == "open":
            stack.append([len(out), bool(t[1])])
            out.append(t)
        elif t[0] == "close":
            if not stack:
                out.append(t)
                continue
            at, has = stack.pop()
            if has:
                out.append(t)
                if stack:
                    stack[-1][1] = True
            else:
                del out[at:]
        else:
            out.append(t)
            if stack:
                stack[-1][1] = True
    return out


def wire(toks):
    return [[0, list(t[1])] if t[0] == "open" else [1] if t[0] == "close" else [2, t[1]] for t in toks]


def unwire(w, wstr):
    out = []
    for t in w:
        if t[0] == 0:
            out.append(("open", [wstr(x) for x in t[1]]))
        elif t[0] == 1:
            out.append(("close",))
        else:
            out.append(("decl", wstr(t[1])))
    return out
