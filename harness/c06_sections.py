"""Reads an emitted sketch back into the abstract shape of coq/Lang/Sections.v:
top-level items (kind, file-scope names defined, file-scope names used), in text order.

Pure text processing (trusted glue of the C06 correspondence check):
  * string/char literals and comments are blanked first (strip_code);
  * the three helper snippets are located verbatim (the emitter's own constants) and each is ONE item;
  * everything else is split at depth-0 `;` / the closing brace of a function body / preprocessor lines.
"""
from __future__ import annotations

import re

# helper snippets of the emitter, in stitch order (FLOORDIV / MOD: the templates for Python's // and %, absent from older emitters)
SNIPPET_KEYS = ("LCD", "LIST", "LEN", "FLOORDIV", "MOD")

RANK = {"include": 0, "helper": 1, "global": 2, "proto": 3, "function": 4, "ultra": 5, "setup": 6, "loop": 7}

IDENT = re.compile(r"[A-Za-z_]\w*")

# tokens that stand for "needs this header": library classes, and a sample of the Arduino core API
CLASS_HEADER = {"Servo": "Servo.h", "LiquidCrystal": "LiquidCrystal.h", "LiquidCrystal_I2C": "LiquidCrystal_I2C.h", "Wire": "Wire.h"}
CORE_TOKENS = {"String", "Serial", "pinMode", "digitalWrite", "digitalRead", "analogWrite", "analogRead", "delay",
               "delayMicroseconds", "millis", "pulseIn", "tone", "noTone", "HIGH", "LOW", "INPUT", "OUTPUT", "INPUT_PULLUP"}


class SplitError(Exception):
    pass


def strip_code(t: str) -> str:
    """blank out string literals, char literals and comments (same length, newlines kept)"""
    out = []
    i, n = 0, len(t)

    def blank(seg):
        return "".join("\n" if ch == "\n" else " " for ch in seg)

    while i < n:
        c = t[i]
        if c == '"' or c == "'":
            j = i + 1
            while j < n and t[j] != c and t[j] != "\n":
                if t[j] == "\\" and j + 1 < n:
                    j += 1
                j += 1
            if j < n and t[j] == c:
                out.append(c + blank(t[i + 1:j]) + c)
                i = j + 1
            else:  # unterminated on this line: leave the rest of the line blank
                out.append(c + blank(t[i + 1:j]))
                i = j
        elif t.startswith("//", i):
            j = t.find("\n", i)
            j = n if j < 0 else j
            out.append(blank(t[i:j]))
            i = j
        elif t.startswith("/*", i):
            j = t.find("*/", i + 2)
            j = n if j < 0 else j + 2
            out.append(blank(t[i:j]))
            i = j
        else:
            out.append(c)
            i += 1
    return "".join(out)


def _split_region(code: str, lo: int, hi: int):
    """items of code[lo:hi] as (start, end, is_function, is_preproc)"""
    items = []
    i = lo
    while i < hi:
        while i < hi and code[i].isspace():
            i += 1
        if i >= hi:
            break
        start = i
        if code[i] == "#":
            j = code.find("\n", i, hi)
            j = hi if j < 0 else j
            items.append((start, j, False, True))
            i = j
            continue
        brace = paren = 0
        is_fn = False
        end = None
        while i < hi:
            ch = code[i]
            if ch == "(":
                paren += 1
            elif ch == ")":
                paren -= 1
            elif ch == "{":
                if brace == 0 and paren == 0:
                    k = i - 1
                    while k >= start and code[k].isspace():
                        k -= 1
                    if k >= start and code[k] == ")":
                        is_fn = True
                brace += 1
            elif ch == "}":
                brace -= 1
                if brace < 0:
                    raise SplitError("unbalanced closing brace at top level")
                if brace == 0 and (is_fn or re.match(r"namespace\b", code[start:i])):
                    # a function body, or `namespace a { struct B {}; }` (the class of `except a.B:`; no `;` follows)
                    end = i + 1
                    is_fn = False if not is_fn else is_fn
                    break
            elif ch == ";" and brace == 0 and paren == 0:
                end = i + 1
                break
            i += 1
        if end is None:
            raise SplitError("unterminated top-level item: " + code[start:start + 60].strip())
        items.append((start, end, is_fn, False))
        i = end
    return items


def _head_name(code_item: str, stops: str):
    depth_angle = 0
    for k, ch in enumerate(code_item):
        if ch in stops:
            head = code_item[:k]
            break
    else:
        head = code_item
    names = IDENT.findall(re.sub(r"<[^<>]*>", " ", head))
    return names[-1] if names else None


def read_sketch(cpp: str, consts: dict, fn_names):
    """-> list of items {"kind", "name", "defs": [...], "uses": [...], "text"} in text order"""
    if not cpp.startswith(consts["HEADER"]):
        raise SplitError("sketch does not start with the header")
    code = strip_code(cpp)
    if len(code) != len(cpp):
        raise SplitError("internal: strip_code changed the length")
    regions = []
    for key in SNIPPET_KEYS:
        if key not in consts:
            continue
        sn = consts[key]
        k = cpp.find(sn)
        if k >= 0:
            if cpp.find(sn, k + 1) >= 0:
                raise SplitError(f"helper snippet {key} present twice")
            regions.append((k, k + len(sn), key))
    regions.sort()
    raw = []
    pos = 0
    for lo, hi, key in regions:
        if lo < pos:
            raise SplitError("helper snippets overlap")
        raw += [(a, b, f, p, None) for a, b, f, p in _split_region(code, pos, lo)]
        raw.append((lo, hi, False, False, key))
        pos = hi
    raw += [(a, b, f, p, None) for a, b, f, p in _split_region(code, pos, len(code))]

    items = []
    fn_names = set(fn_names)
    for a, b, is_fn, is_pre, snippet in raw:
        text = cpp[a:b]
        ctext = code[a:b]
        if snippet:
            defs = sorted(set(re.findall(r"__redu_\w+", ctext)))
            items.append({"kind": "helper", "name": snippet, "defs": defs, "ctext": ctext, "text": text, "fixed_uses": ["Arduino.h"]})
        elif is_pre:
            m = re.match(r'#\s*include\s*[<"]([^>"]+)[>"]', text)
            if not m:
                raise SplitError("unexpected preprocessor line: " + text[:60])
            items.append({"kind": "include", "name": m.group(1), "defs": [m.group(1)], "ctext": "", "text": text,
                          "fixed_uses": [] if m.group(1) == "Arduino.h" else ["Arduino.h"]})
        elif is_fn:
            name = _head_name(ctext, "(")
            if name == "setup":
                kind = "setup"
            elif name == "loop":
                kind = "loop"
            elif name and name.startswith("__redu_ultrasonic_measure_"):
                kind = "ultra"
            elif name in fn_names:
                kind = "function"
            else:
                raise SplitError(f"unexpected top-level function {name!r}")
            items.append({"kind": kind, "name": name, "defs": [] if kind in ("setup", "loop") else [name], "ctext": ctext, "text": text, "fixed_uses": []})
        else:
            name = _head_name(ctext, "=;([{")
            if not name:
                raise SplitError("top-level declaration without a name: " + text[:60])
            # a forward declaration: <type> <name>(<parameters>); of a user function or an ultrasonic helper - no initialiser,
            # the parenthesis follows the name directly (an object definition with constructor arguments has another name)
            is_proto = (name in fn_names or name.startswith("__redu_ultrasonic_measure_")) and "=" not in ctext \
                and re.search(r"\b" + re.escape(name) + r"\s*\([^()]*\)\s*;\s*$", ctext) is not None
            items.append({"kind": "proto" if is_proto else "global", "name": name, "defs": [name], "ctext": ctext, "text": text, "fixed_uses": []})

    universe = set()
    for it in items:
        universe.update(it["defs"])
    for it in items:
        uses = list(it["fixed_uses"])
        if it["kind"] not in ("helper", "include"):
            toks = set(IDENT.findall(it["ctext"]))
            for t in sorted(toks):
                if t in universe:
                    uses.append(t)
                if t in CLASS_HEADER:
                    uses.append(CLASS_HEADER[t])
                if t in CORE_TOKENS:
                    uses.append("Arduino.h")
        it["uses"] = sorted(set(uses))
        del it["fixed_uses"]
    return items


def encode_case(items, op=3):
    """-> (wire case for coq/Wire/C06W.v op 3/4, name->id table).  Sections keep the text order
    of their members; the model's stitch puts the sections into the emitter's order.  The prototypes
    found in the text are NOT sent: the model generates them from the functions and the ultrasonic
    helpers, and the caller compares (kinds in order, names declared by each prototype)."""
    ids = {}

    def idof(n):
        if n not in ids:
            ids[n] = len(ids) + 1
        return ids[n]

    def body(it):
        return [[idof(d) for d in it["defs"]], [idof(u) for u in it["uses"]]]

    sec = {k: [] for k in ("include", "helper", "global", "function", "ultra", "setup", "loop")}
    for it in items:
        if it["kind"] == "proto":
            idof(it["name"])
            continue
        sec[it["kind"]].append(body(it))
    if len(sec["setup"]) != 1 or len(sec["loop"]) != 1:
        return None, ids
    return [op, sec["include"], sec["helper"], sec["global"], sec["function"], sec["ultra"], sec["setup"][0], sec["loop"][0]], ids
