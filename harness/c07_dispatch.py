"""C07 line-accounting probes, shared by the translator plug-in (harness/gen/dispatch.py, which
observes the real parser and writes coq/Gen/Dispatch.v) and by harness/props/c07.py (which
re-observes the rows through the implementation runner and produces the concrete replay).

A probe = (kind, context) -> two scripts: `with` (sentinels A/B around the probe line(s)) and
`without` (the same script with the probe line(s) removed / replaced by their plain body).
Observation is black-box:  exception => Rejected;  emitted text identical => Ignored;  else Translated.
No dependency on harness.common or on /repo (pure data + string building)."""
from __future__ import annotations

CONTEXTS = ["Top", "Nested", "Func", "MainLoop", "AfterLoop"]

HEADER = [
    "from Reduino.Communication import SerialMonitor",
    "from Reduino.Actuators import Led",
    "from Reduino.Utils import sleep",
    "mon = SerialMonitor(9600)",
    "led = Led(13)",
    "x = 1",
    "arr = [1, 2, 3]",
]

# kind id -> (probe lines, replacement lines when the probe is removed)
# lines are relative to the context's indentation; nested lines carry their own extra indentation.
KINDS = [
    ("assign",            ["y = x + 1"], []),
    ("augassign",         ["x += 1"], []),
    ("assign_ret_prefix", ["retval = x + 1"], []),                       # a name that merely starts like `return`
    ("annassign",         ["z: int = 5"], []),
    ("tuple_assign",      ["p, q = 1, 2"], []),
    ("chained_assign",    ["p = q = 7"], []),
    ("subscript_assign",  ["arr[0] = 9"], []),
    ("attr_assign",       ["led.level = 3"], []),
    ("lambda_assign",     ["fn = lambda v: v + 1"], []),
    ("walrus_expr",       ["(w := 5)"], []),
    ("dev_known_method",  ["led.on()"], []),
    ("dev_unknown_method", ["led.explode()"], []),
    ("dev_unknown_method_args", ["led.dim(3, fast=True)"], []),
    ("serial_unknown_method", ["mon.flush()"], []),
    ("undeclared_method_call", ["foo.bar(1)"], []),
    ("undeclared_func_call", ["frobnicate(1)"], []),
    ("sleep_call",        ["sleep(10)"], []),
    ("print_call",        ["print(\"hi\")"], []),
    ("pass_stmt",         ["pass"], []),
    ("global_decl",       ["global x"], []),
    ("nonlocal_decl",     ["nonlocal x"], []),
    ("import_plain",      ["import os"], []),
    ("import_as",         ["import os as o"], []),
    ("from_import",       ["from math import sin"], []),
    ("from_import_star",  ["from os import *"], []),
    ("from_import_reduino", ["from Reduino.Actuators import Servo"], []),
    ("from_import_core",  ["from Reduino.Core import pin_mode"], []),
    ("target_call",       ["target(\"COM3\")"], []),
    ("del_stmt",          ["del x"], []),
    ("assert_stmt",       ["assert x > 0"], []),
    ("raise_stmt",        ["raise ValueError(\"no\")"], []),
    ("return_value",      ["return 5"], []),
    ("return_bare",       ["return"], []),
    ("yield_stmt",        ["yield x"], []),
    ("await_stmt",        ["await x"], []),
    ("bare_expr",         ["x + 1"], []),
    ("docstring",         ["\"\"\"doc\"\"\""], []),
    ("string_expr",       ["'note'"], []),
    ("comment_line",      ["# just a comment"], []),
    ("semicolon_join",    ["y = 5; mon.write(\"C\")"], ["y = 5"]),          # the part after ';'
    ("semicolon_calls",   ["mon.write(\"C\"); mon.write(\"D\")"], ["mon.write(\"C\")"]),
    ("backslash_continuation", ["y = 1 + \\", "    2"], []),
    ("bracket_continuation", ["mon.write(", "    \"C\")"], []),
    ("if_inline_body",    ["if x > 0: mon.write(\"C\")"], []),
    ("while_inline_body", ["while x < 0: x += 1"], []),
    ("ternary_stmt",      ["mon.write(\"C\") if x > 0 else mon.write(\"D\")"], []),
    ("with_stmt",         ["with open(\"f\") as fh:", "    mon.write(\"C\")"], ["mon.write(\"C\")"]),
    ("match_stmt",        ["match x:", "    case 1:", "        mon.write(\"C\")"], ["mon.write(\"C\")"]),
    ("class_def",         ["class K:", "    kk = 1"], ["kk = 1"]),
    ("nested_def",        ["def inner():", "    mon.write(\"C\")"], ["mon.write(\"C\")"]),
    ("async_def",         ["async def co():", "    mon.write(\"C\")"], ["mon.write(\"C\")"]),
    ("decorator",         ["@trace", "def deco():", "    mon.write(\"C\")"], ["def deco():", "    mon.write(\"C\")"]),
    ("continue_in_while", ["while x < 3:", "    x += 1", "    continue"], ["while x < 3:", "    x += 1"]),
    ("continue_in_for",   ["for i in range(3):", "    mon.write(\"C\")", "    continue"], ["for i in range(3):", "    mon.write(\"C\")"]),
    ("continue_outside_loop", ["continue"], []),
    ("break_in_while",    ["while x < 3:", "    x += 1", "    break"], ["while x < 3:", "    x += 1"]),
    ("break_in_for",      ["for i in range(3):", "    mon.write(\"C\")", "    break"], ["for i in range(3):", "    mon.write(\"C\")"]),
    ("break_outside_loop", ["break"], []),
    ("while_else",        ["while x < 3:", "    x += 1", "else:", "    mon.write(\"C\")"], ["while x < 3:", "    x += 1", "mon.write(\"C\")"]),
    ("for_else",          ["for i in range(3):", "    x += 1", "else:", "    mon.write(\"C\")"], ["for i in range(3):", "    x += 1", "mon.write(\"C\")"]),
    ("for_over_list",     ["for v in [1, 2, 3]:", "    mon.write(\"C\")"], ["mon.write(\"C\")"]),
    ("for_over_name",     ["for v in arr:", "    mon.write(\"C\")"], ["mon.write(\"C\")"]),
    ("for_range_1arg",    ["for i in range(3):", "    mon.write(\"C\")"], ["mon.write(\"C\")"]),
    ("for_range_2args",   ["for i in range(1, 4):", "    mon.write(\"C\")"], ["mon.write(\"C\")"]),
    ("for_range_3args",   ["for i in range(0, 10, 2):", "    mon.write(\"C\")"], ["mon.write(\"C\")"]),
    ("try_finally",       ["try:", "    mon.write(\"C\")", "finally:", "    mon.write(\"D\")"], ["try:", "    mon.write(\"C\")", "mon.write(\"D\")"]),
    ("try_except_else",   ["try:", "    mon.write(\"C\")", "except Exception:", "    mon.write(\"D\")", "else:", "    mon.write(\"E\")"],
                          ["try:", "    mon.write(\"C\")", "except Exception:", "    mon.write(\"D\")", "mon.write(\"E\")"]),
    ("if_stmt",           ["if x > 0:", "    mon.write(\"C\")"], ["mon.write(\"C\")"]),
    ("while_stmt",        ["while x < 3:", "    x += 1"], ["x += 1"]),
    # documented host-side methods of SerialMonitor (README: connect(port), close()): still skipped silently
    ("serial_host_call",  ["mon.close()"], []),
    # a `while True:` wherever it stands (column 0 before the end: the main loop, then sentinel B is unreachable; nested: an
    # endless inner loop; AFTER the main loop: a second main loop Python never reaches), a plain try/except, a blank line
    ("while_true_stmt",   ["while True:", "    mon.write(\"C\")"], ["mon.write(\"C\")"]),
    ("try_except",        ["try:", "    mon.write(\"C\")", "except Exception:", "    mon.write(\"D\")"], ["mon.write(\"C\")"]),
    ("blank_line",        ["", "   "], []),
]

# reference lines that differ by context: since the repair "fix: reject statements the transpiler cannot translate
# instead of dropping them" a `def` that is not at column 0 is rejected, so the reference of the decorator probe
# can keep the `def` only at the top level
REPL_BY_CONTEXT = {("decorator", c): ["mon.write(\"C\")"] for c in ("Nested", "Func", "MainLoop")}

KIND_IDS = [k[0] for k in KINDS]


def _ind(lines, n):
    return [(" " * n + l) if l else l for l in lines]


def build(kind, context, with_probe=True):
    """-> source text of the script for (kind, context); with_probe=False gives the reference script."""
    kid, probe, repl = next(k for k in KINDS if k[0] == kind)
    mid = probe if with_probe else REPL_BY_CONTEXT.get((kind, context), repl)
    core = ["mon.write(\"A\")"] + list(mid) + ["mon.write(\"B\")"]
    if context == "Top":
        body = core
    elif context == "Nested":
        body = ["if x > 0:"] + _ind(core, 4)
    elif context == "Func":
        body = ["def work():"] + _ind(core, 4) + ["work()"]
    elif context == "MainLoop":
        body = ["while True:"] + _ind(core, 4)
    elif context == "AfterLoop":
        # at column 0 AFTER the block of the main loop (Python never reaches it); the reference script ends with the
        # main loop - with the probe removed nothing at all follows it
        body = ["mon.write(\"A\")", "while True:", "    mon.write(\"B\")"] + (list(probe) if with_probe else [])
    else:
        raise ValueError(context)
    return "\n".join(HEADER + body) + "\n"


def classify(run_with, run_without):
    """run_* = {"ok":bool,"cpp":...}|{"ok":False,"exc":...} -> 'Rejected' | 'Ignored' | 'Translated' | 'BaselineRejected'"""
    if not run_without.get("ok"):
        return "BaselineRejected"
    if not run_with.get("ok"):
        return "Rejected"
    if run_with["cpp"] == run_without["cpp"]:
        return "Ignored"
    return "Translated"


def all_rows():
    return [(k, c) for k in KIND_IDS for c in CONTEXTS]
