"""C07, firmware side: how a reader of C++ groups the emitted lines into compound statements (the
Python twin of `c_read` of coq/Lang/EmitBlocks.v, cross-checked against the extracted one on every
firmware), the conditions each statement runs under - computed once from the script skeleton and
once from the firmware -, and generators of IR control skeletons for the emitter correspondence."""
from __future__ import annotations

import re

from harness import c07_gen as G

# ------------------------------------------------------------------ the C++ reader (SPEC twin)
# str.isspace() of CPython 3.12 = is_space of coq/Lang/Lex.v
SPACE = {chr(c) for c in list(range(9, 14)) + list(range(28, 33)) + [133, 160, 5760] + list(range(8192, 8203))
         + [8232, 8233, 8239, 8287, 12288]}


def lstrip(s):
    i = 0
    while i < len(s) and s[i] in SPACE:
        i += 1
    return s[i:]


def c_class(line):
    s = lstrip(line)
    if not s:
        return ("skip",)
    if s == "}":
        return ("close",)
    if s.startswith("//"):
        return ("skip",)
    if s[-1] == "{":
        h = s[:-1]
        if h.endswith(" "):
            h = h[:-1]
        return ("open", h)
    return ("plain", s)


def c_read(lines):
    """-> list of trees [0, text] | [1, header, children], or None (a `}` without an open block or a
    block still open at the end)"""
    frames = [("", [])]
    for l in lines:
        c = c_class(l)
        if c[0] == "skip":
            continue
        if c[0] == "plain":
            frames[-1][1].append([0, c[1]])
        elif c[0] == "open":
            frames.append((c[1], []))
        else:
            if len(frames) < 2:
                return None
            h, items = frames.pop()
            frames[-1][1].append([1, h, items])
    if len(frames) != 1:
        return None
    return frames[0][1]


def dec_ctrees(w, wstr):
    """wire form of `enc_ctrees` -> the same nested lists as c_read"""
    if not w:
        return None

    def d(t):
        return [0, wstr(t[1])] if t[0] == 0 else [1, wstr(t[1]), [d(x) for x in t[2]]]
    return [d(t) for t in w[0]]


SECTION = re.compile(r"^[A-Za-z_][\w ]*?\b(\w+)\((.*)\) \{$")


def sections(cpp):
    """the user-function / setup / loop sections of a sketch: [(name, header line, body lines)].
    Only lines between a column-0 function header and the next column-0 `}` are taken (helper
    snippets, globals and includes belong to no user block)."""
    out = []
    lines = cpp.splitlines()
    i = 0
    while i < len(lines):
        m = SECTION.match(lines[i])
        if m and not lines[i].startswith((" ", "\t")):
            j = i + 1
            while j < len(lines) and lines[j] != "}":
                j += 1
            out.append((m.group(1), lines[i], lines[i + 1: j]))
            i = j + 1
        else:
            i += 1
    return out


# ------------------------------------------------------------------ conditions a statement runs under
def norm(s):
    return re.sub(r"[\s()]", "", s)


# the C++ lines a numbered statement of the generators becomes (mon.write / x = / sleep)
MARK_LINE = re.compile(r"^(Serial\.print(ln)?\(.*\);|(\w+ )?x = .*;|delay\(.*\);)$")
RE_C_IF = re.compile(r"^if \((.*)\)$")
RE_C_ELIF = re.compile(r"^else if \((.*)\)$")
RE_C_WHILE = re.compile(r"^while \((.*)\)$")
RE_C_FOR = re.compile(r"^for \(int (\w+) = 0; (\w+) < (.*); \+\+(\w+)\)$")
RE_C_CATCH = re.compile(r"^catch \((.*)\)$")


RE_C_ASSIGN = re.compile(r"^(?:([A-Za-z_][\w<>:]*) )?([A-Za-z_]\w*) = (.*);$")
C_DEFAULTS = {"0", "0.0", "false", '""'}


def norm_val(s):
    return re.sub(r"[\s()]", "", s)


_SPEC = {"vocab": set(), "vars": set()}


def variant_views(cpp):
    """a sketch may hold SEVERAL sections of one name (one per argument-type signature of a function): -> list of section
    lists, the j-th keeps of every function its j-th variant (modulo their number) - every variant is in some view"""
    secs = sections(cpp)
    count = {}
    for name, _, _ in secs:
        count[name] = count.get(name, 0) + 1
    views = []
    for j in range(max(count.values()) if count else 1):
        seen = {}
        view = []
        for sec in secs:
            k = seen.get(sec[0], 0)
            seen[sec[0]] = k + 1
            if k == j % count[sec[0]]:
                view.append(sec)
        views.append(view)
    return views


def fw_items(cpp, marks, spec=None, secs=None):
    """-> (items, problem): items = sorted list of (path, item) for every control header and every
    line carrying one of the numbers `marks`, `continue;`, `break;`, `return;`; path = tuple of steps
    ("sec", name) / ("chain", negated conditions, own condition | None) / ("blk", what).
    spec (third round): {"vocab": set of C++ lines - every occurrence is an item ("line", text);
                         "vars": names - every line `[T ]name = E;` is an item ("asg", name, norm E, T | None)}"""
    items = []
    global _SPEC
    _SPEC = spec or {"vocab": set(), "vars": set()}
    for name, hdr, body in (sections(cpp) if secs is None else secs):
        tree = c_read(body)
        if tree is None:
            return None, f"the braces of {hdr!r} do not balance"
        if name not in ("setup", "loop"):
            items.append(((("sec", name),), ("hdr", "def")))
        _walk_c(tree, (("sec", name),), items, marks)
    if _SPEC["vars"]:
        # a first assignment at the top level of the script becomes a file-scope definition `T name = E;` (initialised
        # before setup() runs): it stands for the statement at the top level of setup()
        for l in cpp.splitlines():
            ma = RE_C_ASSIGN.match(l) if l[:1] not in (" ", "\t", "") else None
            if ma and ma.group(1) and ma.group(2) in _SPEC["vars"]:
                items.append(((("sec", "setup"),), ("asg", ma.group(2), norm_val(ma.group(3)), ma.group(1))))
    return sorted(items, key=repr), None


def _walk_c(trees, pre, items, marks):
    chain = ()
    for t in trees:
        if t[0] == 0:
            chain = ()
            s = t[1]
            ma = RE_C_ASSIGN.match(s) if _SPEC["vars"] else None
            if s in _SPEC["vocab"]:
                items.append((pre, ("line", s)))
            elif ma and ma.group(2) in _SPEC["vars"]:
                items.append((pre, ("asg", ma.group(2), norm_val(ma.group(3)), ma.group(1))))
            elif s in ("continue;", "break;", "return;") or s.startswith("return "):
                items.append((pre, ("jump", s)))
            elif MARK_LINE.match(s):
                for tok in re.findall(r"(?<![\w.])\d+(?![\w.])", s):
                    if int(tok) in marks:
                        items.append((pre, ("stmt", int(tok))))
            continue
        h, body = t[1], t[2]
        m = RE_C_ELIF.match(h)
        if m:
            c = norm(m.group(1))
            step = ("chain", chain, c)
            chain = chain + (c,)
            items.append((pre + (step,), ("hdr", "elif")))
        elif RE_C_IF.match(h):
            c = norm(RE_C_IF.match(h).group(1))
            step = ("chain", (), c)
            chain = (c,)
            items.append((pre + (step,), ("hdr", "if")))
        elif h == "else":
            step = ("chain", chain, None)
            chain = ()
            if body:
                items.append((pre + (step,), ("hdr", "else")))
        else:
            chain = ()
            mw, mf, mc = RE_C_WHILE.match(h), RE_C_FOR.match(h), RE_C_CATCH.match(h)
            if mw:
                step = ("blk", "while:" + norm(mw.group(1)))
            elif mf and mf.group(1) == mf.group(2) == mf.group(4):
                step = ("blk", "for:" + mf.group(1) + ":" + norm(mf.group(3)))
            elif h == "try":
                step = ("blk", "try")
            elif mc:
                step = ("blk", "catch:" + norm(mc.group(1)))
            else:
                step = ("blk", "other")          # a block some simple statement opens itself
                _walk_c(body, pre + (step,), items, marks)
                continue
            items.append((pre + (step,), ("hdr", step[1].split(":")[0])))
        _walk_c(body, pre + (step,), items, marks)


_REPLINES = {}
RE_PY_EXCEPT = re.compile(r"^except(?:\s+([\w.]+))?(?:\s+as\s+(\w+))?\s*:$")
RE_PY_FOR = re.compile(r"^for\s+(\w+)\s+in\s+range\(\s*(.*?)\s*\)\s*:$")
RE_PY_DEF = re.compile(r"^def\s+(\w+)\s*\(")


def yields_node(n):
    if n[0] == "leaf":
        return n[2][0] != "allowed"
    return n[1] in ("if", "try", "while", "for")


def py_items(tops, replines=None):
    """the same items computed from the script skeleton (c07_gen trees): what Python means.
    replines: canonical statement text -> the C++ lines the statement alone is translated to (reference run)"""
    items = []
    global _REPLINES
    _REPLINES = replines or {}
    for t in tops:
        if t[0] == "chain":
            _walk_py(t[1], (("sec", "setup"),), items)
        elif t[0] == "main":
            _walk_py(t[2], (("sec", "loop"),), items)
        elif t[0] == "def":
            name = RE_PY_DEF.match(G.canon_spacing(t[1])).group(1)
            items.append(((("sec", name),), ("hdr", "def")))
            _walk_py(t[2], (("sec", name),), items)
    return sorted(items, key=repr)


def _walk_py(nodes, pre, items):
    chain = ()
    for n in nodes:
        if n[0] == "leaf":
            chain = ()
            meta = n[2]
            if meta[0] == "mark":
                items.append((pre, ("stmt", meta[1])))
            elif meta[0] == "rep":
                for cl in _REPLINES.get(meta[1], []):
                    items.append((pre, ("line", cl)))
            elif meta[0] == "asg":
                items.append((pre, ("asg", meta[1], meta[2], None)))
            elif meta[0] == "continue":
                items.append((pre, ("jump", "continue;" if meta[1] == "loop" else "return;")))
            elif meta[0] == "jump":
                items.append((pre, ("jump", meta[1])))
            continue
        _, k, h, body = n
        h = G.canon_spacing(h)
        if k in ("if", "elif"):
            c = norm(h[len(k):].rstrip()[:-1])
            step = ("chain", chain if k == "elif" else (), c)
            chain = (chain if k == "elif" else ()) + (c,)
            items.append((pre + (step,), ("hdr", k)))
        elif k == "else":
            step = ("chain", chain, None)
            chain = ()
            if any(yields_node(m) for m in body):
                items.append((pre + (step,), ("hdr", "else")))
        else:
            chain = ()
            if k == "while":
                step = ("blk", "while:" + norm(h[len("while"):].rstrip()[:-1]))
            elif k == "for":
                m = RE_PY_FOR.match(h)
                step = ("blk", "for:" + m.group(1) + ":" + norm(m.group(2)))
            elif k == "try":
                step = ("blk", "try")
            else:
                m = RE_PY_EXCEPT.match(h)
                exc, tgt = m.group(1), m.group(2)
                step = ("blk", "catch:" + (norm(exc.replace(".", "::") + " &" + (tgt or "")) if exc else "..."))
            items.append((pre + (step,), ("hdr", step[1].split(":")[0])))
        _walk_py(body, pre + (step,), items)


def marks_of(tops):
    return {meta[1] for _, meta, _ in G.leaves(tops) if meta[0] == "mark"}


def show(items):
    return [[" / ".join(_show_step(s) for s in p), list(i)] for p, i in items]


def _show_step(s):
    if s[0] == "sec":
        return s[1] + "()"
    if s[0] == "blk":
        return s[1]
    neg = " and ".join("not " + c for c in s[1])
    own = s[2] if s[2] is not None else "else"
    return "[" + (neg + " and " if neg and s[2] is not None else neg + (" -> " if neg else "")) + own + "]"


# ------------------------------------------------------------------ IR control skeletons for the emitter correspondence
LEAF_SPECS = [
    ["SerialWrite", "mon", "7"], ["SerialWrite", "mon", "\"s\"", False], ["Sleep", 25], ["VarAssign", "x", "(x + 1)"],
    ["ExprStmt", "fn0()"], ["BreakStmt"], ["ContinueStmt"], ["LedToggle", "led"], ["LedSetBrightness", "led", 44],
    ["LedOn", "led"], ["ButtonDecl", "btn", 2],        # the last one emits no line at all
]
CONDS = ["(x > 1)", "true", "((x < 2) && (y == 3))", "!flag", "(mode == 2)"]
CATCHES = [(None, None), ("Exception", None), ("ValueError", "err"), ("a.b.Err", None), ("", None)]
INDENTS = ["", "  ", "    ", "\t", "      "]


def gen_ir(rng, depth, hollow, specs=None):
    specs = specs or LEAF_SPECS
    def body(d, allow_empty=True):
        if allow_empty and rng.random() < hollow:
            return []
        return [node(d) for _ in range(rng.randint(1, 3))]

    def node(d):
        if d >= depth or rng.random() < 0.4:
            return ["leaf", rng.choice(specs)]
        r = rng.random()
        if r < 0.45:
            brs = [[rng.choice(CONDS), body(d + 1)] for _ in range(rng.choice([1, 1, 2, 3, 4]))]
            els = body(d + 1) if rng.random() < 0.6 else []
            return ["if", brs, els]
        if r < 0.6:
            return ["while", rng.choice(CONDS), body(d + 1)]
        if r < 0.8:
            return ["for", f"i{d}", rng.choice([3, "n", "(n + 1)"]), body(d + 1)]
        hs = [[e, g, body(d + 1)] for e, g in (rng.choice(CATCHES) for _ in range(rng.choice([0, 1, 1, 2])))]
        return ["try", body(d + 1), hs]
    return [node(0) for _ in range(rng.randint(1, 3))]


def enc_ir(t, leaf_lines):
    """wire form for dec_ir; leaf_lines: spec (as tuple key) -> the C++ lines the real emitter writes for it"""
    k = t[0]
    if k == "leaf":
        return [0, leaf_lines[repr(t[1])]]
    if k == "if":
        return [1, [[c, [enc_ir(x, leaf_lines) for x in b]] for c, b in t[1]], [enc_ir(x, leaf_lines) for x in t[2]]]
    if k == "while":
        return [2, t[1], [enc_ir(x, leaf_lines) for x in t[2]]]
    if k == "for":
        return [3, t[1], str(t[2]), [enc_ir(x, leaf_lines) for x in t[3]]]
    return [4, [enc_ir(x, leaf_lines) for x in t[1]], [[catch_text(e, g), [enc_ir(x, leaf_lines) for x in b]] for e, g, b in t[2]]]


def catch_text(exc, tgt):
    """what stands between `catch (` and `)` - the only part of the handler header the model takes as given"""
    if exc:
        return exc.replace(".", "::") + " &" + (tgt or "")
    return "..."


def ir_stats(trees, acc):
    for t in trees:
        acc[t[0]] = acc.get(t[0], 0) + 1
        if t[0] == "if":
            for c, b in t[1]:
                acc["empty_branch"] = acc.get("empty_branch", 0) + (0 if b else 1)
                ir_stats(b, acc)
            acc["empty_else" if not t[2] else "else"] = acc.get("empty_else" if not t[2] else "else", 0) + 1
            ir_stats(t[2], acc)
        elif t[0] == "while":
            acc["empty_loop"] = acc.get("empty_loop", 0) + (0 if t[2] else 1)
            ir_stats(t[2], acc)
        elif t[0] == "for":
            acc["empty_loop"] = acc.get("empty_loop", 0) + (0 if t[3] else 1)
            ir_stats(t[3], acc)
        elif t[0] == "try":
            ir_stats(t[1], acc)
            for e, g, b in t[2]:
                acc["empty_handler"] = acc.get("empty_handler", 0) + (0 if b else 1)
                ir_stats(b, acc)
    return acc


def items_diff(want, got):
    """-> (missing, extra): multiset difference with the rules of the assignment items: a script assignment
    ("asg", name, value | None, None) is matched by a firmware line ("asg", name, value', T | None) under the same path when
    value is None (any right-hand side) or value == value' - a declaration `T name = E;` counts like `name = E;`; a firmware
    assignment left over is tolerated iff its right-hand side is the default of a C++ type (a promotion placeholder:
    `T name = <default>;` in front of the block, or the assignment it becomes when the name is promoted once more)"""
    pool = {}
    for x in got:
        it = x[1]
        k = (x[0], it[:3]) if it[0] == "asg" else (x[0], it)
        pool.setdefault(repr(k), []).append(x)
    missing = []
    wild = []
    for x in want:
        it = x[1]
        if it[0] == "asg" and it[2] is None:
            wild.append(x)
            continue
        k = (x[0], it[:3]) if it[0] == "asg" else (x[0], it)
        lst = pool.get(repr(k))
        if lst:
            lst.pop()
        else:
            missing.append(x)
    rest = [x for lst in pool.values() for x in lst]
    for x in wild:                                   # any right-hand side: prefer a non-default one
        cands = [y for y in rest if y[0] == x[0] and y[1][0] == "asg" and y[1][1] == x[1][1]]
        cands.sort(key=lambda y: y[1][2] in C_DEFAULTS)
        if cands:
            rest.remove(cands[0])
        else:
            missing.append(x)
    extra = [y for y in rest if not (y[1][0] == "asg" and (y[1][2] in C_DEFAULTS or y[1][2].endswith(">")))]
    return missing, extra
