"""C07 generators: program skeletons (block trees of statements whose effect is observable:
`mon.write(k)` with distinct k), layouts of them (the re-layout relation of coq/Lang/Layout.v),
a Python renderer (cross-checked against the extracted Coq `render_top`), wire encoders, and
out-of-guard perturbations used only for the model-vs-code correspondence."""
from __future__ import annotations

KCODE = {"if": 0, "elif": 1, "else": 2, "try": 3, "except": 4, "while": 5, "for": 6}
KNAME = {v: k for k, v in KCODE.items()}
CONT = ("elif", "else", "except")

PRELUDE = [
    "from Reduino.Communication import SerialMonitor",
    "from Reduino.Actuators import Led",
    "from Reduino.Utils import sleep",
    "mon = SerialMonitor(9600)",
    "led = Led(13)",
    "x = 0",
]


class Counter:
    def __init__(self):
        self.k = 100

    def next(self):
        self.k += 1
        return self.k


# ------------------------------------------------------------------ skeletons
def gen_leaf(rng, cnt, fnames=(), in_func=False):
    r = rng.random()
    k = cnt.next()
    if r < 0.55:
        return ("leaf", f"mon.write({k})")
    if r < 0.65:
        return ("leaf", f"mon.write(\"s#{k}\")")            # '#' inside a string literal
    if r < 0.70:
        return ("leaf", f"mon.write('q\\'#{k}')")            # escaped quote, then '#', inside a literal
    if r < 0.78:
        return ("leaf", f"x = {k}")
    if r < 0.84:
        return ("leaf", f"x += {k % 7}")
    if r < 0.90:
        return ("leaf", f"sleep({k})")
    if r < 0.95 or not fnames:
        return ("leaf", rng.choice(["led.on()", "led.off()", "led.toggle()"]))
    return ("leaf", f"{rng.choice(list(fnames))}()")


def gen_body(rng, cnt, depth, maxdepth, fnames=(), n=None):
    out = []
    n = n if n is not None else rng.randint(1, 3)
    for _ in range(n):
        out += gen_stmt(rng, cnt, depth, maxdepth, fnames)
    return out


def gen_stmt(rng, cnt, depth, maxdepth, fnames=()):
    """-> list of sibling nodes (a chain yields several)"""
    if depth >= maxdepth or rng.random() < 0.45:
        return [gen_leaf(rng, cnt, fnames)]
    r = rng.random()
    k = cnt.next()
    if r < 0.45:
        nodes = [("block", "if", f"if x > {k}:", gen_body(rng, cnt, depth + 1, maxdepth, fnames))]
        for _ in range(rng.choice([0, 0, 1, 1, 2])):
            nodes.append(("block", "elif", f"elif x > {cnt.next()}:", gen_body(rng, cnt, depth + 1, maxdepth, fnames)))
        if rng.random() < 0.6:
            nodes.append(("block", "else", "else:", gen_body(rng, cnt, depth + 1, maxdepth, fnames)))
        return nodes
    if r < 0.65:
        return [("block", "while", f"while x < {k}:", gen_body(rng, cnt, depth + 1, maxdepth, fnames) + [("leaf", "x += 1")])]
    if r < 0.88:
        return [("block", "for", f"for i{depth} in range({k % 5 + 1}):", gen_body(rng, cnt, depth + 1, maxdepth, fnames))]
    nodes = [("block", "try", "try:", gen_body(rng, cnt, depth + 1, maxdepth, fnames))]
    for i in range(rng.choice([1, 1, 2])):
        h = rng.choice(["except Exception:", "except ValueError:", "except Exception as err:", "except:"]) if i == 0 else "except:"
        nodes.append(("block", "except", h, gen_body(rng, cnt, depth + 1, maxdepth, fnames)))
    return nodes


def gen_program(rng, maxdepth=3, main_loop=None):
    """-> list of top items: ("chain",[nodes]) | ("main",h,body) | ("def",h,body)"""
    cnt = Counter()
    tops = [("chain", [("leaf", s)]) for s in PRELUDE]
    fnames = []
    for i in range(rng.choice([0, 0, 1, 2])):
        name = f"fn{i}"
        tops.append(("def", f"def {name}():", gen_body(rng, cnt, 1, maxdepth)))
        fnames.append(name)
    for _ in range(rng.randint(1, 4)):
        nodes = gen_stmt(rng, cnt, 0, maxdepth, fnames)
        tops.append(("chain", nodes))
    if main_loop if main_loop is not None else rng.random() < 0.75:
        tops.append(("main", "while True:", gen_body(rng, cnt, 1, maxdepth, fnames, n=rng.randint(1, 4))))
    return tops


def skeleton_size(tops):
    def sz(ns):
        return sum(1 + (sz(n[3]) if n[0] == "block" else 0) for n in ns)
    return sum(sz(t[1]) if t[0] == "chain" else 1 + sz(t[2]) for t in tops)


def skeleton_depth(tops):
    def dp(ns):
        return max([0] + [1 + dp(n[3]) for n in ns if n[0] == "block"])
    return max([0] + [dp(t[1]) if t[0] == "chain" else 1 + dp(t[2]) for t in tops])


# ------------------------------------------------------------------ layouts
UNITS = [" " * n for n in range(1, 9)] + ["\t", "\t\t"]
COMMENT_TEXTS = ["# note", "#", "#x", "# it's \"quoted\"", "# else:", "# while True:", "#  if x > 1:", "# a # b"]
BLANKS = ["", "", " ", "    ", "\t", "  \t "]
TRAIL_WS = ["", "", "", " ", "   ", "\t", " \t"]


def indent_width(s):
    """Reduino's _indent_of of a white-space string"""
    return sum(1 if c == " " else 4 for c in s)


def junk_lines(rng, u, min_indent_exclusive, density):
    """junk lines allowed by the guard: blank / white-space-only / comment-only lines whose
    indentation (in Reduino's measure) is greater than min_indent_exclusive (None = any)"""
    out = []
    while rng.random() < density:
        if rng.random() < 0.5:
            out.append(rng.choice(BLANKS))
        else:
            lo = 0 if min_indent_exclusive is None else min_indent_exclusive + 1
            if u[0] == "\t":
                ntabs = (lo + 3) // 4 + rng.choice([0, 0, 1, 2])
                ws = "\t" * ntabs
            else:
                ws = " " * (lo + rng.choice([0, 0, 0, 1, 2, len(u), 2 * len(u)]))
            out.append(ws + rng.choice(COMMENT_TEXTS))
    return out


def trail(rng, allow_comment, density):
    if rng.random() >= density:
        return ""
    if allow_comment and rng.random() < 0.6:
        return rng.choice(["  ", " ", "", "\t"]) + rng.choice(COMMENT_TEXTS)
    return rng.choice(TRAIL_WS)


def lay_node(rng, n, u, depth, top, density):
    iw = indent_width(u)
    if n[0] == "leaf":
        bound = None if depth == 0 else (depth - 1) * iw
        return ("leaf", junk_lines(rng, u, bound, density), n[1], trail(rng, True, density))
    _, k, h, body = n
    bound = depth * iw if k in CONT else (None if depth == 0 else (depth - 1) * iw)
    allow = (k not in CONT) and not top
    return ("block", junk_lines(rng, u, bound, density), k, h, trail(rng, allow, density),
            [lay_node(rng, m, u, depth + 1, False, density) for m in body])


def lay_program(rng, tops, u, density=0.35):
    """a random layout INSIDE the guard of the skeleton `tops` for indentation unit u"""
    out = []
    for t in tops:
        if t[0] == "chain":
            out.append(("chain", [lay_node(rng, n, u, 0, True, density) for n in t[1]]))
        else:
            out.append((t[0], junk_lines(rng, u, None, density), t[1], trail(rng, False, density),
                        [lay_node(rng, m, u, 1, False, density) for m in t[2]]))
    return out, junk_lines(rng, u, None, density)


def canonical(tops):
    def c(n):
        return ("leaf", [], n[1], "") if n[0] == "leaf" else ("block", [], n[1], n[2], "", [c(m) for m in n[3]])
    return [("chain", [c(n) for n in t[1]]) if t[0] == "chain" else (t[0], [], t[1], "", [c(m) for m in t[2]]) for t in tops], []


def render_node(n, u, d):
    if n[0] == "leaf":
        return list(n[1]) + [u * d + n[2] + n[3]]
    out = list(n[1]) + [u * d + n[3] + n[4]]
    for m in n[5]:
        out += render_node(m, u, d + 1)
    return out


def render(ltops, final_junk, u):
    out = []
    for t in ltops:
        if t[0] == "chain":
            for n in t[1]:
                out += render_node(n, u, 0)
        else:
            out += list(t[1]) + [t[2] + t[3]]
            for m in t[4]:
                out += render_node(m, u, 1)
    return out + list(final_junk)


def enc_node(n):
    if n[0] == "leaf":
        return [0, list(n[1]), n[2], n[3]]
    return [1, list(n[1]), KCODE[n[2]], n[3], n[4], [enc_node(m) for m in n[5]]]


def enc_top(t):
    if t[0] == "chain":
        return [0, [enc_node(n) for n in t[1]]]
    return [1 if t[0] == "main" else 2, list(t[1]), t[2], t[3], [enc_node(m) for m in t[4]]]


def enc_skeleton_node(n):
    """the wire form of lerase (what Coq's enc_stree prints), as nested python lists of ints"""
    if n[0] == "leaf":
        return [0, [ord(c) for c in n[1]]]
    return [1, KCODE[n[1]], [ord(c) for c in n[2]], [enc_skeleton_node(m) for m in n[3]]]


def enc_skeleton(tops):
    out = []
    for t in tops:
        if t[0] == "chain":
            out.append([0, [enc_skeleton_node(n) for n in t[1]]])
        elif t[0] == "main":
            out.append([1, [enc_skeleton_node(n) for n in t[2]]])
        else:
            out.append([2, [ord(c) for c in t[1]], [enc_skeleton_node(n) for n in t[2]]])
    return out


# ------------------------------------------------------------------ out-of-guard perturbations (correspondence only)
def perturb(rng, lines, strength=0.2):
    """random damage: comment lines at arbitrary columns, trailing comments on any line, tabs mixed
    into the indentation, stray headers - inputs on which model and code must still agree"""
    out = []
    for l in lines:
        if rng.random() < strength:
            col = rng.choice([0, 0, 1, 2, 3, 4, 5, 8, 9])
            out.append(rng.choice([" " * col, "\t" * (col % 3), " " * (col % 4) + "\t"]) + rng.choice(COMMENT_TEXTS))
        if rng.random() < strength and l.strip():
            l = l.rstrip() + rng.choice(["  # c", " #", "  # else:", "\t# x:"])
        if rng.random() < strength / 2 and l.startswith(" "):
            n = len(l) - len(l.lstrip(" "))
            l = rng.choice(["\t" * (n // 4) + " " * (n % 4), " " * (n % 4) + "\t" * (n // 4), "\t", " " * (n + 1),
                            " " * (n - 1)]) + l[n:]
        if rng.random() < strength / 3:
            out.append(rng.choice(["else:", "    else:", "elif x > 1:", "        except:", "  try:", "if x > 0:", "    while x < 2:", "def late():"]))
        out.append(l)
    return out
