"""C07 generators: program skeletons (block trees of statements whose effect is observable:
`mon.write(k)` with distinct k), layouts of them (the re-layout relation of coq/Lang/Layout.v),
a Python renderer (cross-checked against the extracted Coq `render_top`), wire encoders, and
out-of-guard perturbations used only for the model-vs-code correspondence."""
from __future__ import annotations

KCODE = {"if": 0, "elif": 1, "else": 2, "try": 3, "except": 4, "while": 5, "for": 6}
KNAME = {v: k for k, v in KCODE.items()}
CONT = ("elif", "else", "except")

PRELUDE = [
    "from Reduino.Communication import SerialMonitor",
    "from Reduino.Actuators import Led",
    "from Reduino.Utils import sleep",
    "mon = SerialMonitor(9600)",
    "led = Led(13)",
    "x = 0",
]


class Counter:
    def __init__(self):
        self.k = 100

    def next(self):
        self.k += 1
        return self.k


# ------------------------------------------------------------------ optional spacing inside a line
# statement texts are TEMPLATES: three marker characters stand for the places where Python allows
# optional white space and where Reduino (on the unchanged tree) is insensitive to it:
O1 = "\x01"   # optional, canonical form one blank   (around = += < > , binary operators)
O0 = "\x02"   # optional, canonical form nothing     (inside call parentheses, before the header colon)
M1 = "\x03"   # mandatory white space, canonical one blank (after a keyword)
# Places that are NOT in the guard (listed findings): between a callee / method name and its "(",
# around the "." of a method call, between if/elif/while and a parenthesised condition.


def canon_spacing(t):
    return t.replace(O1, " ").replace(O0, "").replace(M1, " ")


def vary_spacing(rng, t, p=0.5):
    out = []
    for ch in t:
        if ch == O1:
            out.append(rng.choice(["", " ", "  "]) if rng.random() < p else " ")
        elif ch == O0:
            out.append(rng.choice([" ", "  "]) if rng.random() < p else "")
        elif ch == M1:
            out.append(rng.choice(["  ", "   ", " \t", "\t"]) if rng.random() < p else " ")
        else:
            out.append(ch)
    return "".join(out)


# ------------------------------------------------------------------ skeletons
ALLOWED_IGNORED = ("pass", "print", "import", "from", "global", "doc")

# knobs of the skeleton generator (set by the caller for a batch of programs):
#   hollow     probability that the body of a block (any kind: if / elif / else / while / for / try /
#              except / def / main loop) consists ONLY of lines of the fixed set (pass, print, docstring,
#              import) - a body that emits no device code
#   max_elifs  longest run of elif branches
#   jumps      also generate `break` (inside for/while) and a bare `return` (inside def bodies)
OPTS = {"hollow": 0.0, "max_elifs": 2, "jumps": False}


def hollow_body(rng, cnt):
    out = []
    for _ in range(rng.choice([1, 1, 2, 3])):
        k = cnt.next()
        kind = rng.choice(["pass", "pass", "print", "print", "doc", "import", "from"])
        text = {"pass": "pass", "print": f"print({O0}\"p{k}\"{O0})", "import": "import os",
                "from": f"from{M1}math{M1}import{M1}sin", "doc": rng.choice([f'"""doc {k}"""', f"'note {k}'"])}[kind]
        out.append(("leaf", text, ("allowed", kind)))
    return out


def gen_leaf(rng, cnt, fnames=(), in_func=False, loop=None):
    """-> ("leaf", template, meta); meta = ("mark", k) for a statement whose number k must show up in
    the firmware, ("allowed", kind) for a line of the fixed set that may disappear, ("plain",),
    ("continue", "loop"|"main") for a `continue` whose innermost enclosing loop is a for/while
    (firmware: `continue;`) or the main loop (firmware: `return;` in loop()).
    loop = None (not inside any loop: no `continue`), "loop" or "main"."""
    if loop is not None and rng.random() < 0.12:
        return ("leaf", "continue", ("continue", loop))
    if OPTS["jumps"] and loop == "loop" and rng.random() < 0.08:
        return ("leaf", "break", ("jump", "break;"))
    if OPTS["jumps"] and in_func and loop is None and rng.random() < 0.08:
        return ("leaf", "return", ("jump", "return;"))
    r = rng.random()
    k = cnt.next()
    if r < 0.40:
        return ("leaf", f"mon.write({O0}{k}{O0})", ("mark", k))
    if r < 0.47:
        return ("leaf", f"mon.write({O0}\"s#{k}\"{O0})", ("mark", k))      # '#' inside a string literal
    if r < 0.52:
        return ("leaf", f"mon.write({O0}'q\\'#{k}'{O0})", ("mark", k))    # escaped quote, then '#', inside a literal
    if r < 0.60:
        return ("leaf", f"x{O1}={O1}{k}", ("mark", k))
    if r < 0.65:
        return ("leaf", f"x{O1}+={O1}{k % 7}", ("plain",))
    if r < 0.69:
        return ("leaf", f"x{O1}={O1}x{O1}+{O1}{k}", ("mark", k))
    if r < 0.75:
        return ("leaf", f"sleep({O0}{k}{O0})", ("mark", k))
    if r < 0.79:
        return ("leaf", f"led.set_brightness({O0}{k % 256}{O0})", ("plain",))
    if r < 0.86:
        return ("leaf", rng.choice(["led.on()", "led.off()", "led.toggle()", f"led.on({O0})"]), ("plain",))
    if r < 0.96 or not fnames:
        kind = rng.choice(["pass", "print", "print", "import", "from", "doc", "doc"])
        text = {"pass": "pass", "print": f"print({O0}\"p{k}\"{O0})", "import": "import os",
                "from": f"from{M1}math{M1}import{M1}sin", "doc": rng.choice([f'"""doc {k}"""', f"'note {k}'"])}[kind]
        return ("leaf", text, ("allowed", kind))
    return ("leaf", f"{rng.choice(list(fnames))}({O0})", ("plain",))


def gen_body(rng, cnt, depth, maxdepth, fnames=(), n=None, loop=None, in_func=False):
    if OPTS["hollow"] and rng.random() < OPTS["hollow"]:
        return hollow_body(rng, cnt)
    out = []
    n = n if n is not None else rng.randint(1, 3)
    for _ in range(n):
        out += gen_stmt(rng, cnt, depth, maxdepth, fnames, loop, in_func)
    return out


def gen_stmt(rng, cnt, depth, maxdepth, fnames=(), loop=None, in_func=False):
    """-> list of sibling nodes (a chain yields several); loop: the innermost enclosing loop
    (None | "loop" = for/while | "main" = the main loop), inherited by if/elif/else/try/except bodies"""
    if depth >= maxdepth or rng.random() < 0.45:
        return [gen_leaf(rng, cnt, fnames, in_func=in_func, loop=loop)]
    r = rng.random()
    k = cnt.next()
    if r < 0.45:
        nodes = [("block", "if", f"if{M1}x{O1}>{O1}{k}{O0}:", gen_body(rng, cnt, depth + 1, maxdepth, fnames, loop=loop, in_func=in_func))]
        for _ in range(rng.choice([0, 0, 1, 1, 2] + list(range(3, OPTS["max_elifs"] + 1)))):
            nodes.append(("block", "elif", f"elif{M1}x{O1}>{O1}{cnt.next()}{O0}:", gen_body(rng, cnt, depth + 1, maxdepth, fnames, loop=loop, in_func=in_func)))
        if rng.random() < 0.6:
            nodes.append(("block", "else", f"else{O0}:", gen_body(rng, cnt, depth + 1, maxdepth, fnames, loop=loop, in_func=in_func)))
        return nodes
    if r < 0.65:
        wb = gen_body(rng, cnt, depth + 1, maxdepth, fnames, loop="loop", in_func=in_func)
        if any(n[0] != "leaf" or n[2][0] != "allowed" for n in wb):
            wb = wb + [("leaf", f"x{O1}+={O1}1", ("plain",))]
        return [("block", "while", f"while{M1}x{O1}<{O1}{k}{O0}:", wb)]
    if r < 0.88:
        return [("block", "for", f"for{M1}i{depth}{M1}in{M1}range({O0}{k % 5 + 1}{O0}){O0}:", gen_body(rng, cnt, depth + 1, maxdepth, fnames, loop="loop", in_func=in_func))]
    nodes = [("block", "try", f"try{O0}:", gen_body(rng, cnt, depth + 1, maxdepth, fnames, loop=loop, in_func=in_func))]
    for i in range(rng.choice([1, 1, 2])):
        h = rng.choice([f"except{M1}Exception{O0}:", f"except{M1}ValueError{O0}:", f"except{M1}Exception{M1}as{M1}err{O0}:", f"except{O0}:"]) if i == 0 else f"except{O0}:"
        nodes.append(("block", "except", h, gen_body(rng, cnt, depth + 1, maxdepth, fnames, loop=loop, in_func=in_func)))
    return nodes


def gen_program(rng, maxdepth=3, main_loop=None):
    """-> list of top items: ("chain",[nodes]) | ("main",h,body) | ("def",h,body)"""
    cnt = Counter()
    tops = [("imp", s) if s.startswith("from ") else ("chain", [("leaf", s, ("plain",))]) for s in PRELUDE]
    fnames = []
    for i in range(rng.choice([0, 0, 1, 2])):
        name = f"fn{i}"
        body = gen_body(rng, cnt, 1, maxdepth, in_func=True)
        if rng.random() < 0.4:
            body = [("leaf", f"global{M1}x", ("allowed", "global"))] + body
        tops.append(("def", f"def{M1}{name}({O0}){O0}:", body))
        fnames.append(name)
    for _ in range(rng.randint(1, 4)):
        nodes = gen_stmt(rng, cnt, 0, maxdepth, fnames)
        tops.append(("chain", nodes))
    if main_loop if main_loop is not None else rng.random() < 0.75:
        tops.append(("main", f"while{M1}True{O0}:", gen_body(rng, cnt, 1, maxdepth, fnames, n=rng.randint(1, 4), loop="main")))
    return tops


def systematic_programs():
    """every if chain with 1-3 branches and an optional else whose bodies are drawn from {a device
    statement, `pass`, a host-only print} (exhaustive), every try with 1-2 handlers and every loop over
    the same alphabet, spread over the four places a statement can stand: column 0 (setup), the main
    loop, a function body, the body of a for loop"""
    import itertools
    cnt = Counter()

    def body(kind):
        k = cnt.next()
        if kind == "W":
            return [("leaf", f"mon.write({O0}{k}{O0})", ("mark", k))]
        if kind == "P":
            return [("leaf", "pass", ("allowed", "pass"))]
        return [("leaf", f"print({O0}\"p{k}\"{O0})", ("allowed", "print"))]

    units = []
    for n in (1, 2, 3):
        for bs in itertools.product("WPR", repeat=n):
            for e in ("", "W", "P"):
                nodes = []
                for i, b in enumerate(bs):
                    kw = "if" if i == 0 else "elif"
                    nodes.append(("block", kw, f"{kw}{M1}x{O1}>{O1}{cnt.next()}{O0}:", body(b)))
                if e:
                    nodes.append(("block", "else", f"else{O0}:", body(e)))
                units.append(nodes)
    for tb in "WP":
        for hs in list(itertools.product("WP", repeat=1)) + list(itertools.product("WP", repeat=2)):
            nodes = [("block", "try", f"try{O0}:", body(tb))]
            for i, hb in enumerate(hs):
                nodes.append(("block", "except", f"except{M1}ValueError{O0}:" if i == 0 and len(hs) == 2 else f"except{O0}:", body(hb)))
            units.append(nodes)
    for b in "PR":
        units.append([("block", "while", f"while{M1}x{O1}<{O1}{cnt.next()}{O0}:", body(b))])
        units.append([("block", "for", f"for{M1}j{M1}in{M1}range({O0}3{O0}){O0}:", body(b))])
    progs = []
    per = 8
    for i in range(0, len(units), per):
        chunk = units[i: i + per]
        place = (i // per) % 4
        tops = [("imp", s) if s.startswith("from ") else ("chain", [("leaf", s, ("plain",))]) for s in PRELUDE]
        if place == 0:
            tops += [("chain", u) for u in chunk]
        elif place == 1:
            tops.append(("main", f"while{M1}True{O0}:", [n for u in chunk for n in u]))
        elif place == 2:
            tops.append(("def", f"def{M1}fn0({O0}){O0}:", [n for u in chunk for n in u]))
            tops.append(("chain", [("leaf", f"fn0({O0})", ("plain",))]))
        else:
            tops.append(("chain", [("block", "for", f"for{M1}i0{M1}in{M1}range({O0}2{O0}){O0}:", [n for u in chunk for n in u])]))
        progs.append(tops)
    return progs


def skeleton_size(tops):
    def sz(ns):
        return sum(1 + (sz(n[3]) if n[0] == "block" else 0) for n in ns)
    return sum(sz(t[1]) if t[0] == "chain" else 1 if t[0] == "imp" else 1 + sz(t[2]) for t in tops)


def skeleton_depth(tops):
    def dp(ns):
        return max([0] + [1 + dp(n[3]) for n in ns if n[0] == "block"])
    return max([0] + [dp(t[1]) if t[0] == "chain" else 0 if t[0] == "imp" else 1 + dp(t[2]) for t in tops])


# ------------------------------------------------------------------ layouts
UNITS = [" " * n for n in range(1, 9)] + ["\t", "\t\t"]
COMMENT_TEXTS = ["# note", "#", "#x", "# it's \"quoted\"", "# else:", "# while True:", "#  if x > 1:", "# a # b"]
BLANKS = ["", "", " ", "    ", "\t", "  \t "]
TRAIL_WS = ["", "", "", " ", "   ", "\t", " \t"]


def indent_width(s):
    """Reduino's _indent_of of a white-space string"""
    return sum(1 if c == " " else 4 for c in s)


def junk_lines(rng, u, depth, density):
    """junk lines allowed by the guard: blank / white-space-only lines and comment-only lines at ANY
    column - column 0, shallower than, equal to and deeper than the indentation of the statement
    (depth `depth`, unit u) they precede"""
    out = []
    iw = len(u)
    while rng.random() < density:
        if rng.random() < 0.4:
            out.append(rng.choice(BLANKS))
        else:
            if u[0] == "\t":
                ws = "\t" * rng.choice([0, 0, max(0, depth - 1) * iw, depth * iw, depth * iw + 1, (depth + 1) * iw, rng.randint(0, (depth + 2) * iw)])
            else:
                ws = " " * rng.choice([0, 0, 1, max(0, depth - 1) * iw, max(0, depth * iw - 1), depth * iw, depth * iw + 1,
                                       (depth + 1) * iw, rng.randint(0, (depth + 2) * iw)])
            if rng.random() < 0.1:          # the other kind of white space: a comment line's indentation means nothing
                ws = rng.choice([" \t", "\t ", "  \t  "]) if u[0] != "\t" else " " * rng.randint(1, 9)
            out.append(ws + rng.choice(COMMENT_TEXTS))
    return out


def trail(rng, density):
    """what may follow a statement on its line (any statement: simple, block header at any depth
    including column 0, elif / else / except, def, the main loop header, an import): blanks, or
    blanks and a comment"""
    if rng.random() >= density:
        return ""
    if rng.random() < 0.6:
        return rng.choice(["  ", " ", "", "\t"]) + rng.choice(COMMENT_TEXTS)
    return rng.choice(TRAIL_WS)


def lay_node(rng, n, u, depth, density, sp):
    if n[0] == "leaf":
        return ("leaf", junk_lines(rng, u, depth, density), vary_spacing(rng, n[1], sp), trail(rng, density))
    _, k, h, body = n
    return ("block", junk_lines(rng, u, depth, density), k, vary_spacing(rng, h, sp), trail(rng, density),
            [lay_node(rng, m, u, depth + 1, density, sp) for m in body])


def lay_program(rng, tops, u, density=0.35, sp=0.0):
    """a random layout INSIDE the guard of the skeleton `tops` for indentation unit u;
    sp = probability of non-canonical optional spacing at each marked place"""
    out = []
    for t in tops:
        if t[0] == "chain":
            out.append(("chain", [lay_node(rng, n, u, 0, density, sp) for n in t[1]]))
        elif t[0] == "imp":
            out.append(("imp", junk_lines(rng, u, 0, density), t[1], trail(rng, density)))
        else:
            out.append((t[0], junk_lines(rng, u, 0, density), vary_spacing(rng, t[1], sp), trail(rng, density),
                        [lay_node(rng, m, u, 1, density, sp) for m in t[2]]))
    return out, junk_lines(rng, u, 0, density)


def formerly_excluded(ltops, u):
    """counts, over one laid-out program, of the layout features that were outside the guard before the
    repair of the comment handling (each was a listed finding): comment-only lines not indented deeper
    than the header of the block that contains them (or than the elif/else/except they precede),
    trailing comments on column-0 headers / def / main loop / imports, trailing comments on
    elif/else/except"""
    iw = indent_width(u)
    c = {"comment_line_not_deeper_than_block_header": 0, "comment_line_at_column_0_inside_block": 0,
         "comment_line_not_deeper_before_elif_else_except": 0, "trailing_comment_on_column0_header": 0,
         "trailing_comment_on_def_main_import": 0, "trailing_comment_on_elif_else_except": 0}

    def is_comment(l):
        return l.lstrip().startswith("#")

    def ind(l):
        return indent_width(l[: len(l) - len(l.lstrip(" \t"))])

    def node(n, depth, top):
        pre = n[1]
        cont = n[0] == "block" and n[2] in CONT
        for l in pre:
            if not is_comment(l):
                continue
            if cont and ind(l) <= depth * iw:
                c["comment_line_not_deeper_before_elif_else_except"] += 1
            elif depth >= 1 and ind(l) <= (depth - 1) * iw:
                c["comment_line_not_deeper_than_block_header"] += 1
                if ind(l) == 0:
                    c["comment_line_at_column_0_inside_block"] += 1
        if n[0] == "block":
            if "#" in n[4]:
                if cont:
                    c["trailing_comment_on_elif_else_except"] += 1
                elif top:
                    c["trailing_comment_on_column0_header"] += 1
            for m in n[5]:
                node(m, depth + 1, False)

    for t in ltops:
        if t[0] == "chain":
            for n in t[1]:
                node(n, 0, True)
        elif t[0] == "imp":
            c["trailing_comment_on_def_main_import"] += int("#" in t[3])
        else:
            c["trailing_comment_on_def_main_import"] += int("#" in t[3])
            for m in t[4]:
                node(m, 1, False)
    return c


def canonical(tops):
    def c(n):
        if n[0] == "leaf":
            return ("leaf", [], canon_spacing(n[1]), "")
        return ("block", [], n[1], canon_spacing(n[2]), "", [c(m) for m in n[3]])
    return [("chain", [c(n) for n in t[1]]) if t[0] == "chain" else ("imp", [], t[1], "") if t[0] == "imp"
            else (t[0], [], canon_spacing(t[1]), "", [c(m) for m in t[2]]) for t in tops], []


def skeleton_of_layout(ltops):
    """the concrete skeleton (statement texts after the spacing choice) of a laid-out program"""
    def c(n):
        return ("leaf", n[2]) if n[0] == "leaf" else ("block", n[2], n[3], [c(m) for m in n[5]])
    return [("chain", [c(n) for n in t[1]]) if t[0] == "chain" else (t[0], t[2], [c(m) for m in t[4]]) for t in ltops if t[0] != "imp"]


def leaves(tops):
    """all leaves of a skeleton with their context: (template, meta, where) where = top|nested"""
    out = []

    def walk(ns, where):
        for n in ns:
            if n[0] == "leaf":
                out.append((n[1], n[2] if len(n) > 2 else ("plain",), where))
            else:
                walk(n[3], "nested")
    for t in tops:
        if t[0] == "chain":
            walk(t[1], "top")
        elif t[0] != "imp":
            walk(t[2], "nested")
    return out


def render_node(n, u, d):
    if n[0] == "leaf":
        return list(n[1]) + [u * d + n[2] + n[3]]
    out = list(n[1]) + [u * d + n[3] + n[4]]
    for m in n[5]:
        out += render_node(m, u, d + 1)
    return out


def render(ltops, final_junk, u):
    out = []
    for t in ltops:
        if t[0] == "chain":
            for n in t[1]:
                out += render_node(n, u, 0)
        elif t[0] == "imp":
            out += list(t[1]) + [t[2] + t[3]]
        else:
            out += list(t[1]) + [t[2] + t[3]]
            for m in t[4]:
                out += render_node(m, u, 1)
    return out + list(final_junk)


def enc_node(n):
    if n[0] == "leaf":
        return [0, list(n[1]), n[2], n[3]]
    return [1, list(n[1]), KCODE[n[2]], n[3], n[4], [enc_node(m) for m in n[5]]]


def enc_top(t):
    if t[0] == "chain":
        return [0, [enc_node(n) for n in t[1]]]
    if t[0] == "imp":
        return [3, list(t[1]), t[2], t[3]]
    return [1 if t[0] == "main" else 2, list(t[1]), t[2], t[3], [enc_node(m) for m in t[4]]]


def enc_skeleton_node(n):
    """the wire form of lerase (what Coq's enc_stree prints), as nested python lists of ints"""
    if n[0] == "leaf":
        return [0, [ord(c) for c in n[1]]]
    return [1, KCODE[n[1]], [ord(c) for c in n[2]], [enc_skeleton_node(m) for m in n[3]]]


def enc_skeleton(tops):
    out = []
    for t in tops:
        if t[0] == "chain":
            out.append([0, [enc_skeleton_node(n) for n in t[1]]])
        elif t[0] == "main":
            out.append([1, [enc_skeleton_node(n) for n in t[2]]])
        else:
            out.append([2, [ord(c) for c in t[1]], [enc_skeleton_node(n) for n in t[2]]])
    return out


# ------------------------------------------------------------------ out-of-guard perturbations (correspondence only)
def perturb(rng, lines, strength=0.2):
    """random damage: comment lines at arbitrary columns, trailing comments on any line, tabs mixed
    into the indentation, stray headers - inputs on which model and code must still agree"""
    out = []
    for l in lines:
        if rng.random() < strength:
            col = rng.choice([0, 0, 1, 2, 3, 4, 5, 8, 9])
            out.append(rng.choice([" " * col, "\t" * (col % 3), " " * (col % 4) + "\t"]) + rng.choice(COMMENT_TEXTS))
        if rng.random() < strength and l.strip():
            l = l.rstrip() + rng.choice(["  # c", " #", "  # else:", "\t# x:"])
        if rng.random() < strength / 2 and l.startswith(" "):
            n = len(l) - len(l.lstrip(" "))
            l = rng.choice(["\t" * (n // 4) + " " * (n % 4), " " * (n % 4) + "\t" * (n // 4), "\t", " " * (n + 1),
                            " " * (n - 1)]) + l[n:]
        if rng.random() < strength / 3:
            out.append(rng.choice(["else:", "    else:", "elif x > 1:", "        except:", "  try:", "if x > 0:", "    while x < 2:", "def late():"]))
        out.append(l)
    return out
