"""C07 generators: program skeletons (block trees of statements whose effect is observable:
`mon.write(k)` with distinct k), layouts of them (the re-layout relation of coq/Lang/Layout.v),
a Python renderer (cross-checked against the extracted Coq `render_top`), wire encoders, and
out-of-guard perturbations used only for the model-vs-code correspondence."""
from __future__ import annotations

import re

KCODE = {"if": 0, "elif": 1, "else": 2, "try": 3, "except": 4, "while": 5, "for": 6}
KNAME = {v: k for k, v in KCODE.items()}
CONT = ("elif", "else", "except")

PRELUDE = [
    "from Reduino.Communication import SerialMonitor",
    "from Reduino.Actuators import Led",
    "from Reduino.Utils import sleep",
    "mon = SerialMonitor(9600)",
    "led = Led(13)",
    "x = 0",
]


class Counter:
    def __init__(self):
        self.k = 100

    def next(self):
        self.k += 1
        return self.k


# ------------------------------------------------------------------ optional spacing inside a line
# statement texts are TEMPLATES: three marker characters stand for the places where Python allows
# optional white space and where Reduino (on the unchanged tree) is insensitive to it:
O1 = "\x01"   # optional, canonical form one blank   (around = += < > , binary operators)
O0 = "\x02"   # optional, canonical form nothing     (inside call parentheses, before the header colon)
M1 = "\x03"   # mandatory white space, canonical one blank (after a keyword)
# Places that are NOT in the guard (listed findings): between a callee / method name and its "(",
# around the "." of a method call, between if/elif/while and a parenthesised condition.


def canon_spacing(t):
    return t.replace(O1, " ").replace(O0, "").replace(M1, " ")


def vary_spacing(rng, t, p=0.5):
    out = []
    for ch in t:
        if ch == O1:
            out.append(rng.choice(["", " ", "  "]) if rng.random() < p else " ")
        elif ch == O0:
            out.append(rng.choice([" ", "  "]) if rng.random() < p else "")
        elif ch == M1:
            out.append(rng.choice(["  ", "   ", " \t", "\t"]) if rng.random() < p else " ")
        else:
            out.append(ch)
    return "".join(out)


# ------------------------------------------------------------------ skeletons
ALLOWED_IGNORED = ("pass", "print", "import", "from", "global", "doc")

# knobs of the skeleton generator (set by the caller for a batch of programs):
#   hollow     probability that the body of a block (any kind: if / elif / else / while / for / try /
#              except / def / main loop) consists ONLY of lines of the fixed set (pass, print, docstring,
#              import) - a body that emits no device code
#   max_elifs  longest run of elif branches
#   jumps      also generate `break` (inside for/while) and a bare `return` (inside def bodies)
OPTS = {"hollow": 0.0, "max_elifs": 2, "jumps": False}


def hollow_body(rng, cnt):
    out = []
    for _ in range(rng.choice([1, 1, 2, 3])):
        k = cnt.next()
        kind = rng.choice(["pass", "pass", "print", "print", "doc", "import", "from"])
        text = {"pass": "pass", "print": f"print({O0}\"p{k}\"{O0})", "import": "import os",
                "from": f"from{M1}math{M1}import{M1}sin", "doc": rng.choice([f'"""doc {k}"""', f"'note {k}'"])}[kind]
        out.append(("leaf", text, ("allowed", kind)))
    return out


def gen_leaf(rng, cnt, fnames=(), in_func=False, loop=None):
    """-> ("leaf", template, meta); meta = ("mark", k) for a statement whose number k must show up in
    the firmware, ("allowed", kind) for a line of the fixed set that may disappear, ("plain",),
    ("continue", "loop"|"main") for a `continue` whose innermost enclosing loop is a for/while
    (firmware: `continue;`) or the main loop (firmware: `return;` in loop()).
    loop = None (not inside any loop: no `continue`), "loop" or "main"."""
    if loop is not None and rng.random() < 0.12:
        return ("leaf", "continue", ("continue", loop))
    if OPTS["jumps"] and loop == "loop" and rng.random() < 0.08:
        return ("leaf", "break", ("jump", "break;"))
    if OPTS["jumps"] and in_func and loop is None and rng.random() < 0.08:
        return ("leaf", "return", ("jump", "return;"))
    r = rng.random()
    k = cnt.next()
    if r < 0.40:
        return ("leaf", f"mon.write({O0}{k}{O0})", ("mark", k))
    if r < 0.47:
        return ("leaf", f"mon.write({O0}\"s#{k}\"{O0})", ("mark", k))      # '#' inside a string literal
    if r < 0.52:
        return ("leaf", f"mon.write({O0}'q\\'#{k}'{O0})", ("mark", k))    # escaped quote, then '#', inside a literal
    if r < 0.60:
        return ("leaf", f"x{O1}={O1}{k}", ("mark", k))
    if r < 0.65:
        return ("leaf", f"x{O1}+={O1}{k % 7}", ("plain",))
    if r < 0.69:
        return ("leaf", f"x{O1}={O1}x{O1}+{O1}{k}", ("mark", k))
    if r < 0.75:
        return ("leaf", f"sleep({O0}{k}{O0})", ("mark", k))
    if r < 0.79:
        return ("leaf", f"led.set_brightness({O0}{k % 256}{O0})", ("plain",))
    if r < 0.86:
        return ("leaf", rng.choice(["led.on()", "led.off()", "led.toggle()", f"led.on({O0})"]), ("plain",))
    if r < 0.96 or not fnames:
        kind = rng.choice(["pass", "print", "print", "import", "from", "doc", "doc"])
        text = {"pass": "pass", "print": f"print({O0}\"p{k}\"{O0})", "import": "import os",
                "from": f"from{M1}math{M1}import{M1}sin", "doc": rng.choice([f'"""doc {k}"""', f"'note {k}'"])}[kind]
        return ("leaf", text, ("allowed", kind))
    return ("leaf", f"{rng.choice(list(fnames))}({O0})", ("plain",))


def gen_body(rng, cnt, depth, maxdepth, fnames=(), n=None, loop=None, in_func=False):
    if OPTS["hollow"] and rng.random() < OPTS["hollow"]:
        return hollow_body(rng, cnt)
    out = []
    n = n if n is not None else rng.randint(1, 3)
    for _ in range(n):
        out += gen_stmt(rng, cnt, depth, maxdepth, fnames, loop, in_func)
    return out


def gen_stmt(rng, cnt, depth, maxdepth, fnames=(), loop=None, in_func=False):
    """-> list of sibling nodes (a chain yields several); loop: the innermost enclosing loop
    (None | "loop" = for/while | "main" = the main loop), inherited by if/elif/else/try/except bodies"""
    if depth >= maxdepth or rng.random() < 0.45:
        return [gen_leaf(rng, cnt, fnames, in_func=in_func, loop=loop)]
    r = rng.random()
    k = cnt.next()
    if r < 0.45:
        nodes = [("block", "if", f"if{M1}x{O1}>{O1}{k}{O0}:", gen_body(rng, cnt, depth + 1, maxdepth, fnames, loop=loop, in_func=in_func))]
        for _ in range(rng.choice([0, 0, 1, 1, 2] + list(range(3, OPTS["max_elifs"] + 1)))):
            nodes.append(("block", "elif", f"elif{M1}x{O1}>{O1}{cnt.next()}{O0}:", gen_body(rng, cnt, depth + 1, maxdepth, fnames, loop=loop, in_func=in_func)))
        if rng.random() < 0.6:
            nodes.append(("block", "else", f"else{O0}:", gen_body(rng, cnt, depth + 1, maxdepth, fnames, loop=loop, in_func=in_func)))
        return nodes
    if r < 0.65:
        wb = gen_body(rng, cnt, depth + 1, maxdepth, fnames, loop="loop", in_func=in_func)
        if any(n[0] != "leaf" or n[2][0] != "allowed" for n in wb):
            wb = wb + [("leaf", f"x{O1}+={O1}1", ("plain",))]
        return [("block", "while", f"while{M1}x{O1}<{O1}{k}{O0}:", wb)]
    if r < 0.88:
        return [("block", "for", f"for{M1}i{depth}{M1}in{M1}range({O0}{k % 5 + 1}{O0}){O0}:", gen_body(rng, cnt, depth + 1, maxdepth, fnames, loop="loop", in_func=in_func))]
    nodes = [("block", "try", f"try{O0}:", gen_body(rng, cnt, depth + 1, maxdepth, fnames, loop=loop, in_func=in_func))]
    for i in range(rng.choice([1, 1, 2])):
        h = rng.choice([f"except{M1}Exception{O0}:", f"except{M1}ValueError{O0}:", f"except{M1}Exception{M1}as{M1}err{O0}:", f"except{O0}:"]) if i == 0 else f"except{O0}:"
        nodes.append(("block", "except", h, gen_body(rng, cnt, depth + 1, maxdepth, fnames, loop=loop, in_func=in_func)))
    return nodes


def gen_program(rng, maxdepth=3, main_loop=None):
    """-> list of top items: ("chain",[nodes]) | ("main",h,body) | ("def",h,body)"""
    cnt = Counter()
    tops = [("imp", s) if s.startswith("from ") else ("chain", [("leaf", s, ("plain",))]) for s in PRELUDE]
    fnames = []
    for i in range(rng.choice([0, 0, 1, 2])):
        name = f"fn{i}"
        body = gen_body(rng, cnt, 1, maxdepth, in_func=True)
        if rng.random() < 0.4:
            body = [("leaf", f"global{M1}x", ("allowed", "global"))] + body
        tops.append(("def", f"def{M1}{name}({O0}){O0}:", body))
        fnames.append(name)
    for _ in range(rng.randint(1, 4)):
        nodes = gen_stmt(rng, cnt, 0, maxdepth, fnames)
        tops.append(("chain", nodes))
    if main_loop if main_loop is not None else rng.random() < 0.75:
        tops.append(("main", f"while{M1}True{O0}:", gen_body(rng, cnt, 1, maxdepth, fnames, n=rng.randint(1, 4), loop="main")))
    return tops


def systematic_programs():
    """every if chain with 1-3 branches and an optional else whose bodies are drawn from {a device
    statement, `pass`, a host-only print} (exhaustive), every try with 1-2 handlers and every loop over
    the same alphabet, spread over the four places a statement can stand: column 0 (setup), the main
    loop, a function body, the body of a for loop"""
    import itertools
    cnt = Counter()

    def body(kind):
        k = cnt.next()
        if kind == "W":
            return [("leaf", f"mon.write({O0}{k}{O0})", ("mark", k))]
        if kind == "P":
            return [("leaf", "pass", ("allowed", "pass"))]
        return [("leaf", f"print({O0}\"p{k}\"{O0})", ("allowed", "print"))]

    units = []
    for n in (1, 2, 3):
        for bs in itertools.product("WPR", repeat=n):
            for e in ("", "W", "P"):
                nodes = []
                for i, b in enumerate(bs):
                    kw = "if" if i == 0 else "elif"
                    nodes.append(("block", kw, f"{kw}{M1}x{O1}>{O1}{cnt.next()}{O0}:", body(b)))
                if e:
                    nodes.append(("block", "else", f"else{O0}:", body(e)))
                units.append(nodes)
    for tb in "WP":
        for hs in list(itertools.product("WP", repeat=1)) + list(itertools.product("WP", repeat=2)):
            nodes = [("block", "try", f"try{O0}:", body(tb))]
            for i, hb in enumerate(hs):
                nodes.append(("block", "except", f"except{M1}ValueError{O0}:" if i == 0 and len(hs) == 2 else f"except{O0}:", body(hb)))
            units.append(nodes)
    for b in "PR":
        units.append([("block", "while", f"while{M1}x{O1}<{O1}{cnt.next()}{O0}:", body(b))])
        units.append([("block", "for", f"for{M1}j{M1}in{M1}range({O0}3{O0}){O0}:", body(b))])
    progs = []
    per = 8
    for i in range(0, len(units), per):
        chunk = units[i: i + per]
        place = (i // per) % 4
        tops = [("imp", s) if s.startswith("from ") else ("chain", [("leaf", s, ("plain",))]) for s in PRELUDE]
        if place == 0:
            tops += [("chain", u) for u in chunk]
        elif place == 1:
            tops.append(("main", f"while{M1}True{O0}:", [n for u in chunk for n in u]))
        elif place == 2:
            tops.append(("def", f"def{M1}fn0({O0}){O0}:", [n for u in chunk for n in u]))
            tops.append(("chain", [("leaf", f"fn0({O0})", ("plain",))]))
        else:
            tops.append(("chain", [("block", "for", f"for{M1}i0{M1}in{M1}range({O0}2{O0}){O0}:", [n for u in chunk for n in u])]))
        progs.append(tops)
    return progs


# ------------------------------------------------------------------ third round: statements that occur MORE THAN ONCE, and
# assignments whose first occurrence is inside a block (variable promotion)
# meta kinds added: ("rep", canonical text)  - a statement drawn WITH repetition from a small pool; the C++ lines it must
#                                             become are learnt from a reference run of the statement alone
#                   ("asg", name, value)    - an assignment `name = <literal>` (value = its normalised C spelling) or
#                                             `name += k` / `name = name + k` (value None: any right-hand side)
REP_POOL = [
    f"pin_mode({O0}7,{O1}OUTPUT{O0})", f"pin_mode({O0}7,{O1}INPUT{O0})", f"pin_mode({O0}7,{O1}OUTPUT{O0})", f"pin_mode({O0}8,{O1}INPUT_PULLUP{O0})",
    f"pin_mode({O0}8,{O1}OUTPUT{O0})", f"digital_write({O0}7,{O1}HIGH{O0})", f"digital_write({O0}7,{O1}LOW{O0})", f"digital_write({O0}8,{O1}HIGH{O0})",
    f"analog_write({O0}5,{O1}128{O0})", f"analog_write({O0}5,{O1}0{O0})", "led.on()", "led.off()", "led.toggle()",
    f"mon.write({O0}1{O0})", f"mon.write({O0}\"go\"{O0})", f"sleep({O0}20{O0})", f"x{O1}={O1}0", f"x{O1}={O1}1", f"x{O1}+={O1}1",
]
REP_PRELUDE = ["from Reduino.Core import pin_mode, digital_write, analog_write, OUTPUT, INPUT, INPUT_PULLUP, HIGH, LOW"] + PRELUDE


def _prelude_tops(prelude):
    return [("imp", s) if s.startswith("from ") else ("chain", [("leaf", s, ("plain",))]) for s in prelude]


def split_chains(nodes):
    """top level of a script: one ("chain", ...) item per statement - an if with its elif / else, a try with its handlers"""
    out = []
    for n in nodes:
        if n[0] == "block" and n[1] in CONT and out:
            out[-1][1].append(n)
        else:
            out.append(("chain", [n]))
    return out


def rep_leaf(rng, pool):
    t = rng.choice(pool)
    return ("leaf", t, ("rep", canon_spacing(t)))


def gen_rep_body(rng, pool, depth, maxdepth, n=None):
    out = []
    for _ in range(n if n is not None else rng.randint(1, 4)):
        if depth >= maxdepth or rng.random() < 0.6:
            if rng.random() < 0.08:
                out.append(("leaf", "pass", ("allowed", "pass")))
            else:
                out.append(rep_leaf(rng, pool))
            continue
        r = rng.random()
        k = rng.randint(2, 9)
        if r < 0.4:
            out.append(("block", "if", f"if{M1}x{O1}>{O1}{k}{O0}:", gen_rep_body(rng, pool, depth + 1, maxdepth)))
            if rng.random() < 0.4:
                out.append(("block", "elif", f"elif{M1}x{O1}>{O1}{k - 1}{O0}:", gen_rep_body(rng, pool, depth + 1, maxdepth)))
            if rng.random() < 0.5:
                out.append(("block", "else", f"else{O0}:", gen_rep_body(rng, pool, depth + 1, maxdepth)))
        elif r < 0.6:
            out.append(("block", "for", f"for{M1}i{depth}{M1}in{M1}range({O0}{k % 4 + 1}{O0}){O0}:", gen_rep_body(rng, pool, depth + 1, maxdepth)))
        elif r < 0.8:
            out.append(("block", "while", f"while{M1}x{O1}<{O1}{k}{O0}:",
                        gen_rep_body(rng, pool, depth + 1, maxdepth) + [("leaf", f"x{O1}+={O1}1", ("rep", "x += 1"))]))
        else:
            out.append(("block", "try", f"try{O0}:", gen_rep_body(rng, pool, depth + 1, maxdepth)))
            out.append(("block", "except", rng.choice([f"except{M1}Exception{O0}:", f"except{O0}:"]), gen_rep_body(rng, pool, depth + 1, maxdepth)))
    return out


def gen_rep_program(rng, maxdepth=2):
    """statements drawn with repetition from a pool of 3-6 texts: the same statement several times in setup (top level and
    nested), in a function body and in the main loop, typically with other statements on the same pin in between"""
    pool = rng.sample(REP_POOL, rng.randint(3, 6))
    tops = _prelude_tops(REP_PRELUDE)
    if rng.random() < 0.4:
        tops.append(("def", f"def{M1}fn0({O0}){O0}:", gen_rep_body(rng, pool, 1, maxdepth)))
    for _ in range(rng.randint(1, 3)):
        tops += split_chains(gen_rep_body(rng, pool, 0, maxdepth, n=rng.randint(2, 5)))
    if rng.random() < 0.6:
        tops.append(("main", f"while{M1}True{O0}:", gen_rep_body(rng, pool, 1, maxdepth)))
    return tops


def systematic_rep_programs():
    """every ordered triple over {pin_mode(7, OUTPUT), pin_mode(7, INPUT), digital_write(7, HIGH)} with at least one repetition,
    in setup / nested in a setup block of each kind / in the main loop / in a function; and the same statement k = 2, 3 times"""
    import itertools
    a, b, c = f"pin_mode({O0}7,{O1}OUTPUT{O0})", f"pin_mode({O0}7,{O1}INPUT{O0})", f"digital_write({O0}7,{O1}HIGH{O0})"
    seqs = [t for t in itertools.product((a, b, c), repeat=3) if len(set(t)) < 3]
    progs = []

    def leafs(ts):
        return [("leaf", t, ("rep", canon_spacing(t))) for t in ts]
    wraps = [lambda ns: ns,
             lambda ns: [ns[0], ("block", "if", f"if{M1}x{O1}>{O1}1{O0}:", ns[1:])],
             lambda ns: [ns[0], ("block", "for", f"for{M1}i0{M1}in{M1}range({O0}2{O0}){O0}:", ns[1:])],
             lambda ns: [ns[0], ns[1], ("block", "try", f"try{O0}:", [ns[2]]), ("block", "except", f"except{O0}:", [ns[1]])],
             lambda ns: [("block", "while", f"while{M1}x{O1}<{O1}2{O0}:", ns + [("leaf", f"x{O1}+={O1}1", ("rep", "x += 1"))])]]
    for i, sq in enumerate(seqs):
        w = wraps[i % len(wraps)]
        place = (i // len(wraps)) % 3
        tops = _prelude_tops(REP_PRELUDE)
        if place == 0:
            tops += split_chains(w(leafs(sq)))
        elif place == 1:
            tops += split_chains(leafs(sq[:1]))
            tops.append(("main", f"while{M1}True{O0}:", w(leafs(sq))))
        else:
            tops.append(("def", f"def{M1}fn0({O0}){O0}:", w(leafs(sq))))
            tops += split_chains(leafs(sq[1:]) + [("leaf", f"fn0({O0})", ("plain",))])
        progs.append(tops)
    # every statement of the pool twice in a row and once more after another statement - in setup, in the main loop, in a function
    pool = list(dict.fromkeys(REP_POOL))
    seq = []
    for i, t in enumerate(pool):
        seq += leafs([t, t, pool[(i + 1) % len(pool)], t])
    for place in range(3):
        tops = _prelude_tops(REP_PRELUDE)
        if place == 0:
            tops += split_chains(seq)
        elif place == 1:
            tops.append(("main", f"while{M1}True{O0}:", seq))
        else:
            tops.append(("def", f"def{M1}fn0({O0}){O0}:", seq))
            tops += split_chains([("leaf", f"fn0({O0})", ("plain",))])
        progs.append(tops)
    # the same COMPOUND statement twice in a row (same header, same body), each block kind, in setup and in the main loop
    inner = leafs([a, c])
    twice = []
    for blk in ([("block", "if", f"if{M1}x{O1}>{O1}1{O0}:", inner)],
                [("block", "if", f"if{M1}x{O1}>{O1}1{O0}:", inner), ("block", "else", f"else{O0}:", leafs([b]))],
                [("block", "for", f"for{M1}i0{M1}in{M1}range({O0}2{O0}){O0}:", inner)],
                [("block", "while", f"while{M1}x{O1}<{O1}2{O0}:", inner + [("leaf", f"x{O1}+={O1}1", ("rep", "x += 1"))])],
                [("block", "try", f"try{O0}:", inner), ("block", "except", f"except{O0}:", leafs([b]))]):
        twice += blk + blk
    for place in range(2):
        tops = _prelude_tops(REP_PRELUDE)
        if place == 0:
            tops += split_chains(twice)
        else:
            tops.append(("main", f"while{M1}True{O0}:", twice))
        progs.append(tops)
    return progs


# assignments: (python literal, normalised C spelling, type)
ASG_VALUES = {"int": [("0", "0"), ("0", "0"), ("5", "5"), ("-1", "-1"), ("12", "12")],
              "float": [("0.0", "0.0"), ("0.0", "0.0"), ("2.5", "2.5")],
              "bool": [("False", "false"), ("False", "false"), ("True", "true")],
              "str": [('""', '""'), ('""', '""'), ('"s"', '"s"')]}
ASG_DEFAULT = {"int": ("0", "0"), "float": ("0.0", "0.0"), "bool": ("False", "false"), "str": ('""', '""')}


class _AsgState:
    def __init__(self, prefix):
        self.prefix, self.n, self.types = prefix, 0, {}

    def fresh(self, rng):
        self.n += 1
        name = f"{self.prefix}{self.n}"
        self.types[name] = rng.choice(["int", "int", "int", "float", "bool", "str"])
        return name


def _asg_leaf(name, pyval, cval):
    return ("leaf", f"{name}{O1}={O1}{pyval}", ("asg", name, cval))


def _asg_bump(name, ty):
    if ty == "int":
        return ("leaf", f"{name}{O1}+={O1}1", ("asg", name, None))
    if ty == "float":
        return ("leaf", f"{name}{O1}={O1}{name}{O1}+{O1}0.5", ("asg", name, None))
    if ty == "bool":
        return ("leaf", f"{name}{O1}={O1}True", ("asg", name, "true"))
    return ("leaf", f"{name}{O1}={O1}\"s\"", ("asg", name, '"s"'))


def _asg_cond(name, ty):
    # bool / str names: the condition reads x (`not b` / `s == ""` are respelt by the expression layer - not C07's business)
    return {"int": f"{name}{O1}<{O1}2", "float": f"{name}{O1}<{O1}1.0", "bool": f"x{O1}<{O1}2", "str": f"x{O1}<{O1}1"}[ty]


def gen_asg_body(rng, st, cnt, depth, maxdepth, defined, n=None):
    """defined: names assigned earlier on the way to this point (list, grows); returns the nodes"""
    out = []
    for _ in range(n if n is not None else rng.randint(1, 3)):
        r = rng.random()
        if depth < maxdepth and r < 0.30:
            # THE shape: default-valued (or not) initialisations directly in front of a compound statement that changes them
            names = [st.fresh(rng) if (rng.random() < 0.7 or not defined) else rng.choice(defined) for _ in range(rng.choice([1, 1, 2, 3]))]
            names = list(dict.fromkeys(names))
            for nm in names:
                py, cv = ASG_DEFAULT[st.types[nm]] if rng.random() < 0.7 else rng.choice(ASG_VALUES[st.types[nm]])
                out.append(_asg_leaf(nm, py, cv))
                if nm not in defined:
                    defined.append(nm)
            nm = names[0]
            ty = st.types[nm]
            inner = gen_asg_body(rng, st, cnt, depth + 1, maxdepth, defined, n=rng.randint(0, 2)) + [_asg_bump(n2, st.types[n2]) for n2 in names]
            kind = rng.choice(["while", "while", "if", "for", "try"]) if ty in ("int", "float") else rng.choice(["while", "if", "for", "try"])
            if kind == "while":
                out.append(("block", "while", f"while{M1}{_asg_cond(nm, ty)}{O0}:", inner))
            elif kind == "if":
                out.append(("block", "if", f"if{M1}{_asg_cond(nm, ty)}{O0}:", inner))
                if rng.random() < 0.4:
                    out.append(("block", "else", f"else{O0}:", gen_asg_body(rng, st, cnt, depth + 1, maxdepth, defined, n=1)))
            elif kind == "for":
                out.append(("block", "for", f"for{M1}i{depth}{M1}in{M1}range({O0}2{O0}){O0}:", inner))
            else:
                out.append(("block", "try", f"try{O0}:", inner))
                out.append(("block", "except", f"except{M1}Exception{O0}:", gen_asg_body(rng, st, cnt, depth + 1, maxdepth, defined, n=1)))
        elif depth < maxdepth and r < 0.50:
            k = cnt.next()
            kind = rng.choice(["for", "for", "while", "if", "try"])
            body = gen_asg_body(rng, st, cnt, depth + 1, maxdepth, defined)
            if kind == "for":
                out.append(("block", "for", f"for{M1}i{depth}{M1}in{M1}range({O0}{k % 3 + 2}{O0}){O0}:", body))
            elif kind == "while":
                out.append(("block", "while", f"while{M1}x{O1}<{O1}{k}{O0}:", body + [("leaf", f"x{O1}+={O1}1", ("plain",))]))
            elif kind == "if":
                out.append(("block", "if", f"if{M1}x{O1}>{O1}{k}{O0}:", body))
                if rng.random() < 0.5:
                    out.append(("block", "elif", f"elif{M1}x{O1}>{O1}{k - 50}{O0}:", gen_asg_body(rng, st, cnt, depth + 1, maxdepth, defined)))
                if rng.random() < 0.5:
                    out.append(("block", "else", f"else{O0}:", gen_asg_body(rng, st, cnt, depth + 1, maxdepth, defined)))
            else:
                out.append(("block", "try", f"try{O0}:", body))
                out.append(("block", "except", f"except{O0}:", gen_asg_body(rng, st, cnt, depth + 1, maxdepth, defined, n=1)))
        elif r < 0.70 or not defined:
            nm = st.fresh(rng) if (rng.random() < 0.6 or not defined) else rng.choice(defined)
            py, cv = rng.choice(ASG_VALUES[st.types[nm]])
            out.append(_asg_leaf(nm, py, cv))
            if nm not in defined:
                defined.append(nm)
        elif r < 0.82:
            nm = rng.choice(defined)
            out.append(_asg_bump(nm, st.types[nm]))
        else:
            k = cnt.next()
            out.append(("leaf", f"mon.write({O0}{k}{O0})", ("mark", k)))
    return out


def gen_asg_program(rng, maxdepth=3):
    """assignments to fresh names at every depth (first assignment inside for / while / try / if bodies, so that the parser
    promotes the name), with default (0, 0.0, False, "") and other values, directly in front of compound statements and
    elsewhere, re-assigned later; each section (setup, a function, the main loop) has its own names"""
    cnt = Counter()
    tops = _prelude_tops(PRELUDE)
    if rng.random() < 0.5:
        st = _AsgState("f")
        tops.append(("def", f"def{M1}fn0({O0}){O0}:", gen_asg_body(rng, st, cnt, 1, maxdepth, [], n=rng.randint(1, 3))))
    st = _AsgState("s")
    defined = []
    for _ in range(rng.randint(1, 3)):
        tops += split_chains(gen_asg_body(rng, st, cnt, 0, maxdepth, defined, n=1))
    if rng.random() < 0.7:
        st = _AsgState("m")
        tops.append(("main", f"while{M1}True{O0}:", gen_asg_body(rng, st, cnt, 1, maxdepth, [], n=rng.randint(1, 3))))
    return tops


def systematic_asg_programs(per=8):
    """for every type and every outer block kind (for / while / try / if) x inner compound kind (while / if / for / try) x
    {default, non-default} value: `<outer>: v = <value>; <inner using v>: bump v` - `per` such units per program, in
    setup / the main loop / a function"""
    units = []
    i = 0
    for ty in ("int", "float", "bool", "str"):
        for outer in ("for", "while", "try", "if"):
            for inner in ("while", "if", "for", "try"):
                for (py, cv) in (ASG_DEFAULT[ty], ASG_VALUES[ty][-1]):
                    i += 1
                    nm = f"v{i}"
                    bump = _asg_bump(nm, ty)
                    ib = [("leaf", "led.toggle()", ("plain",)), bump]
                    if inner == "while":
                        inn = [("block", "while", f"while{M1}{_asg_cond(nm, ty)}{O0}:", ib)]
                    elif inner == "if":
                        inn = [("block", "if", f"if{M1}{_asg_cond(nm, ty)}{O0}:", ib)]
                    elif inner == "for":
                        inn = [("block", "for", f"for{M1}j{M1}in{M1}range({O0}2{O0}){O0}:", ib)]
                    else:
                        inn = [("block", "try", f"try{O0}:", ib), ("block", "except", f"except{O0}:", [("leaf", "pass", ("allowed", "pass"))])]
                    body = [_asg_leaf(nm, py, cv)] + inn
                    if outer == "for":
                        out = [("block", "for", f"for{M1}i{M1}in{M1}range({O0}3{O0}){O0}:", body)]
                    elif outer == "while":
                        out = [("block", "while", f"while{M1}x{O1}<{O1}3{O0}:", body + [("leaf", f"x{O1}+={O1}1", ("plain",))])]
                    elif outer == "try":
                        out = [("block", "try", f"try{O0}:", body), ("block", "except", f"except{O0}:", [("leaf", "pass", ("allowed", "pass"))])]
                    else:
                        out = [("block", "if", f"if{M1}x{O1}<{O1}3{O0}:", body)]
                    units.append(out)
    progs = []
    for at in range(0, len(units), per):
        chunk = [n for u in units[at: at + per] for n in u]
        place = (at // per) % 3
        tops = _prelude_tops(PRELUDE)
        if place == 0:
            tops += split_chains(chunk)
        elif place == 1:
            tops.append(("main", f"while{M1}True{O0}:", chunk))
        else:
            tops.append(("def", f"def{M1}fn0({O0}){O0}:", chunk))
            tops.append(("chain", [("leaf", f"fn0({O0})", ("plain",))]))
        progs.append(tops)
    return progs


def well_formed(tops):
    """every generated name (f1, s2, m3, v4 ...) is assigned textually before it is read in a header or bumped - the
    shrinker must not turn a script into one that reads a name it never assigned"""
    import re
    rx = re.compile(r"\b[fsmv]\d+\b")
    seen = set()

    def walk(ns):
        for i, n in enumerate(ns):
            if n[0] == "block" and n[1] == "try" and not (i + 1 < len(ns) and ns[i + 1][0] == "block" and ns[i + 1][1] == "except"):
                return False                        # a try statement needs a handler to be Python at all
            if n[0] == "leaf":
                meta = n[2] if len(n) > 2 else ("plain",)
                if meta[0] == "asg":
                    if meta[2] is None and meta[1] not in seen:
                        return False
                    seen.add(meta[1])
                continue
            if any(v not in seen for v in rx.findall(canon_spacing(n[2]))):
                return False
            if not walk(n[3]):
                return False
        return True
    for t in tops:
        if t[0] == "chain":
            if not walk(t[1]):
                return False
        elif t[0] in ("main", "def"):
            if t[0] == "def":
                keep, seen = seen, set()
                ok = walk(t[2])
                seen = keep
            else:
                ok = walk(t[2])
            if not ok:
                return False
    return True


def rep_texts(tops):
    return sorted({meta[1] for _, meta, _ in leaves(tops) if meta[0] == "rep"})


def asg_names(tops):
    return {meta[1] for _, meta, _ in leaves(tops) if meta[0] == "asg"}


def skeleton_size(tops):
    def sz(ns):
        return sum(1 + (sz(n[3]) if n[0] == "block" else 0) for n in ns)
    return sum(sz(t[1]) if t[0] == "chain" else 1 if t[0] == "imp" else 1 + sz(t[2]) for t in tops)


def skeleton_depth(tops):
    def dp(ns):
        return max([0] + [1 + dp(n[3]) for n in ns if n[0] == "block"])
    return max([0] + [dp(t[1]) if t[0] == "chain" else 0 if t[0] == "imp" else 1 + dp(t[2]) for t in tops])


# ------------------------------------------------------------------ layouts
UNITS = [" " * n for n in range(1, 9)] + ["\t", "\t\t"]
COMMENT_TEXTS = ["# note", "#", "#x", "# it's \"quoted\"", "# else:", "# while True:", "#  if x > 1:", "# a # b"]
BLANKS = ["", "", " ", "    ", "\t", "  \t "]
TRAIL_WS = ["", "", "", " ", "   ", "\t", " \t"]


def indent_width(s):
    """Reduino's _indent_of of a white-space string"""
    return sum(1 if c == " " else 4 for c in s)


def junk_lines(rng, u, depth, density):
    """junk lines allowed by the guard: blank / white-space-only lines and comment-only lines at ANY
    column - column 0, shallower than, equal to and deeper than the indentation of the statement
    (depth `depth`, unit u) they precede"""
    out = []
    iw = len(u)
    while rng.random() < density:
        if rng.random() < 0.4:
            out.append(rng.choice(BLANKS))
        else:
            if u[0] == "\t":
                ws = "\t" * rng.choice([0, 0, max(0, depth - 1) * iw, depth * iw, depth * iw + 1, (depth + 1) * iw, rng.randint(0, (depth + 2) * iw)])
            else:
                ws = " " * rng.choice([0, 0, 1, max(0, depth - 1) * iw, max(0, depth * iw - 1), depth * iw, depth * iw + 1,
                                       (depth + 1) * iw, rng.randint(0, (depth + 2) * iw)])
            if rng.random() < 0.1:          # the other kind of white space: a comment line's indentation means nothing
                ws = rng.choice([" \t", "\t ", "  \t  "]) if u[0] != "\t" else " " * rng.randint(1, 9)
            out.append(ws + rng.choice(COMMENT_TEXTS))
    return out


def trail(rng, density):
    """what may follow a statement on its line (any statement: simple, block header at any depth
    including column 0, elif / else / except, def, the main loop header, an import): blanks, or
    blanks and a comment"""
    if rng.random() >= density:
        return ""
    if rng.random() < 0.6:
        return rng.choice(["  ", " ", "", "\t"]) + rng.choice(COMMENT_TEXTS)
    return rng.choice(TRAIL_WS)


_IMPORT_STMT = re.compile(r"^(?:import|from\s+\S+\s+import)\s+[^\s;][^;]*$")


def imports_as_directives(tops):
    """since "fix: reject statements the transpiler cannot translate instead of dropping them" parse() filters EVERY
    column-0 import statement itself (before: eight particular Reduino imports; `import os` / `from math import sin` went
    to _parse_simple_lines as one-line snippets): such a top-level leaf is an ("imp", text) item of the layout guard"""
    return [("imp", canon_spacing(t[1][0][1])) if t[0] == "chain" and len(t[1]) == 1 and t[1][0][0] == "leaf"
            and _IMPORT_STMT.match(canon_spacing(t[1][0][1]).strip()) else t for t in tops]


def lay_node(rng, n, u, depth, density, sp):
    if n[0] == "leaf":
        return ("leaf", junk_lines(rng, u, depth, density), vary_spacing(rng, n[1], sp), trail(rng, density))
    _, k, h, body = n
    return ("block", junk_lines(rng, u, depth, density), k, vary_spacing(rng, h, sp), trail(rng, density),
            [lay_node(rng, m, u, depth + 1, density, sp) for m in body])


def lay_program(rng, tops, u, density=0.35, sp=0.0):
    """a random layout INSIDE the guard of the skeleton `tops` for indentation unit u;
    sp = probability of non-canonical optional spacing at each marked place"""
    out = []
    for t in tops:
        if t[0] == "chain":
            out.append(("chain", [lay_node(rng, n, u, 0, density, sp) for n in t[1]]))
        elif t[0] == "imp":
            out.append(("imp", junk_lines(rng, u, 0, density), t[1], trail(rng, density)))
        else:
            out.append((t[0], junk_lines(rng, u, 0, density), vary_spacing(rng, t[1], sp), trail(rng, density),
                        [lay_node(rng, m, u, 1, density, sp) for m in t[2]]))
    return out, junk_lines(rng, u, 0, density)


def formerly_excluded(ltops, u):
    """counts, over one laid-out program, of the layout features that were outside the guard before the
    repair of the comment handling (each was a listed finding): comment-only lines not indented deeper
    than the header of the block that contains them (or than the elif/else/except they precede),
    trailing comments on column-0 headers / def / main loop / imports, trailing comments on
    elif/else/except"""
    iw = indent_width(u)
    c = {"comment_line_not_deeper_than_block_header": 0, "comment_line_at_column_0_inside_block": 0,
         "comment_line_not_deeper_before_elif_else_except": 0, "trailing_comment_on_column0_header": 0,
         "trailing_comment_on_def_main_import": 0, "trailing_comment_on_elif_else_except": 0}

    def is_comment(l):
        return l.lstrip().startswith("#")

    def ind(l):
        return indent_width(l[: len(l) - len(l.lstrip(" \t"))])

    def node(n, depth, top):
        pre = n[1]
        cont = n[0] == "block" and n[2] in CONT
        for l in pre:
            if not is_comment(l):
                continue
            if cont and ind(l) <= depth * iw:
                c["comment_line_not_deeper_before_elif_else_except"] += 1
            elif depth >= 1 and ind(l) <= (depth - 1) * iw:
                c["comment_line_not_deeper_than_block_header"] += 1
                if ind(l) == 0:
                    c["comment_line_at_column_0_inside_block"] += 1
        if n[0] == "block":
            if "#" in n[4]:
                if cont:
                    c["trailing_comment_on_elif_else_except"] += 1
                elif top:
                    c["trailing_comment_on_column0_header"] += 1
            for m in n[5]:
                node(m, depth + 1, False)

    for t in ltops:
        if t[0] == "chain":
            for n in t[1]:
                node(n, 0, True)
        elif t[0] == "imp":
            c["trailing_comment_on_def_main_import"] += int("#" in t[3])
        else:
            c["trailing_comment_on_def_main_import"] += int("#" in t[3])
            for m in t[4]:
                node(m, 1, False)
    return c


def canonical(tops):
    def c(n):
        if n[0] == "leaf":
            return ("leaf", [], canon_spacing(n[1]), "")
        return ("block", [], n[1], canon_spacing(n[2]), "", [c(m) for m in n[3]])
    return [("chain", [c(n) for n in t[1]]) if t[0] == "chain" else ("imp", [], t[1], "") if t[0] == "imp"
            else (t[0], [], canon_spacing(t[1]), "", [c(m) for m in t[2]]) for t in tops], []


def skeleton_of_layout(ltops):
    """the concrete skeleton (statement texts after the spacing choice) of a laid-out program"""
    def c(n):
        return ("leaf", n[2]) if n[0] == "leaf" else ("block", n[2], n[3], [c(m) for m in n[5]])
    return [("chain", [c(n) for n in t[1]]) if t[0] == "chain" else (t[0], t[2], [c(m) for m in t[4]]) for t in ltops if t[0] != "imp"]


def leaves(tops):
    """all leaves of a skeleton with their context: (template, meta, where) where = top|nested"""
    out = []

    def walk(ns, where):
        for n in ns:
            if n[0] == "leaf":
                out.append((n[1], n[2] if len(n) > 2 else ("plain",), where))
            else:
                walk(n[3], "nested")
    for t in tops:
        if t[0] == "chain":
            walk(t[1], "top")
        elif t[0] != "imp":
            walk(t[2], "nested")
    return out


def render_node(n, u, d):
    if n[0] == "leaf":
        return list(n[1]) + [u * d + n[2] + n[3]]
    out = list(n[1]) + [u * d + n[3] + n[4]]
    for m in n[5]:
        out += render_node(m, u, d + 1)
    return out


def render(ltops, final_junk, u):
    out = []
    for t in ltops:
        if t[0] == "chain":
            for n in t[1]:
                out += render_node(n, u, 0)
        elif t[0] == "imp":
            out += list(t[1]) + [t[2] + t[3]]
        else:
            out += list(t[1]) + [t[2] + t[3]]
            for m in t[4]:
                out += render_node(m, u, 1)
    return out + list(final_junk)


def enc_node(n):
    if n[0] == "leaf":
        return [0, list(n[1]), n[2], n[3]]
    return [1, list(n[1]), KCODE[n[2]], n[3], n[4], [enc_node(m) for m in n[5]]]


def enc_top(t):
    if t[0] == "chain":
        return [0, [enc_node(n) for n in t[1]]]
    if t[0] == "imp":
        return [3, list(t[1]), t[2], t[3]]
    return [1 if t[0] == "main" else 2, list(t[1]), t[2], t[3], [enc_node(m) for m in t[4]]]


def enc_skeleton_node(n):
    """the wire form of lerase (what Coq's enc_stree prints), as nested python lists of ints"""
    if n[0] == "leaf":
        return [0, [ord(c) for c in n[1]]]
    return [1, KCODE[n[1]], [ord(c) for c in n[2]], [enc_skeleton_node(m) for m in n[3]]]


def enc_skeleton(tops):
    out = []
    for t in tops:
        if t[0] == "chain":
            out.append([0, [enc_skeleton_node(n) for n in t[1]]])
        elif t[0] == "main":
            out.append([1, [enc_skeleton_node(n) for n in t[2]]])
        else:
            out.append([2, [ord(c) for c in t[1]], [enc_skeleton_node(n) for n in t[2]]])
    return out


# ------------------------------------------------------------------ out-of-guard perturbations (correspondence only)
def perturb(rng, lines, strength=0.2):
    """random damage: comment lines at arbitrary columns, trailing comments on any line, tabs mixed
    into the indentation, stray headers - inputs on which model and code must still agree"""
    out = []
    for l in lines:
        if rng.random() < strength:
            col = rng.choice([0, 0, 1, 2, 3, 4, 5, 8, 9])
            out.append(rng.choice([" " * col, "\t" * (col % 3), " " * (col % 4) + "\t"]) + rng.choice(COMMENT_TEXTS))
        if rng.random() < strength and l.strip():
            l = l.rstrip() + rng.choice(["  # c", " #", "  # else:", "\t# x:"])
        if rng.random() < strength / 2 and l.startswith(" "):
            n = len(l) - len(l.lstrip(" "))
            l = rng.choice(["\t" * (n // 4) + " " * (n % 4), " " * (n % 4) + "\t" * (n // 4), "\t", " " * (n + 1),
                            " " * (n - 1)]) + l[n:]
        if rng.random() < strength / 3:
            out.append(rng.choice(["else:", "    else:", "elif x > 1:", "        except:", "  try:", "if x > 0:", "    while x < 2:", "def late():"]))
        out.append(l)
    return out


# ------------------------------------------------------------------ fourth round: functions emitted in SEVERAL VARIANTS
# A def is parsed once for its primary signature (unannotated parameters: int) and parsed AGAIN, from the lines
# _parse_function keeps, for every other argument-type signature a call site in an assignment / return needs.  The
# programs below define helpers whose bodies hold nested blocks (if / elif / else, for, while, try / except, two levels
# deep, with value returns inside branches) and call them with 2-3 signatures (int, float, bool; one or two parameters)
# from column 0, from inside a block and from the main loop - so that the firmware holds several variants of one def.
VARIANT_ARGS = {"int": ["7", "0", "-3", "300"], "float": ["300.5", "12.5", "-0.5", "2.25"], "bool": ["True", "False"]}


def _prelude_plain():
    return [("imp", s) if s.startswith("from ") else ("chain", [("leaf", s, ("plain",))]) for s in PRELUDE]


def _use_param(rng, nodes, p=0.5):
    """some if / elif conditions test the parameter v instead of the global x"""
    out = []
    for n in nodes:
        if n[0] == "leaf":
            out.append(n)
            continue
        h = n[2]
        if n[1] in ("if", "elif") and rng.random() < p:
            h = h.replace(f"{M1}x{O1}", f"{M1}v{O1}", 1)
        out.append(("block", n[1], h, _use_param(rng, n[3], p)))
    return out


def _add_returns(rng, cnt, nodes, p=0.45):
    """a value return as the last statement of some if / elif / else / for / try bodies"""
    out = []
    for n in nodes:
        if n[0] == "leaf":
            out.append(n)
            continue
        body = _add_returns(rng, cnt, n[3], p)
        if n[1] != "while" and rng.random() < p and not (body and body[-1][0] == "leaf" and body[-1][2][0] in ("jump", "continue")):
            k = cnt.next()
            body = body + [("leaf", f"return{M1}{k}", ("jump", f"return {k};"))]
        out.append(("block", n[1], n[2], body))
    return out


def _variant_def(rng, cnt, name, params, maxdepth, callee=None):
    for _ in range(50):
        body = gen_body(rng, cnt, 1, maxdepth, in_func=True, n=rng.randint(2, 3))
        if any(n[0] == "block" for n in body):
            break
    body = _add_returns(rng, cnt, _use_param(rng, body))
    if callee and rng.random() < 0.7:
        # calls in RETURN position: the variant of this function for a signature asks for the callee's variant of that signature
        body = [("block", "if", f"if{M1}v{O1}>{O1}{cnt.next()}{O0}:", [("leaf", f"return{M1}{callee}({O0}v{O0})", ("jump", f"return {callee}(v);"))])] + body
    body = body + [("leaf", f"return{M1}v", ("jump", "return v;"))]
    if rng.random() < 0.25:
        params = [params[0] + ": " + rng.choice(["float", "int"])] + params[1:]          # an annotated first parameter
    return ("def", f"def{M1}{name}({O0}{(',' + O1).join(params)}{O0}){O0}:", body)


def _call_leaf(rng, k, name, types):
    args = [rng.choice(VARIANT_ARGS[t]) for t in types]
    return ("leaf", f"r{k}{O1}={O1}{name}({O0}{(',' + O1).join(args)}{O0})", ("plain",))


def _place_calls(rng, cnt, tops, calls, main_p=0.5):
    """call sites at column 0, inside an if block at column 0, and in the main loop"""
    in_main = []
    for leaf in calls:
        r = rng.random()
        if r < 0.5:
            tops.append(("chain", [leaf]))
        elif r < 0.75:
            tops.append(("chain", [("block", "if", f"if{M1}x{O1}<{O1}{cnt.next()}{O0}:", [leaf])]))
        else:
            in_main.append(leaf)
    if in_main or rng.random() < main_p:
        k = cnt.next()
        tops.append(("main", f"while{M1}True{O0}:", in_main + [("leaf", f"mon.write({O0}{k}{O0})", ("mark", k))]))
    return tops


def gen_variant_program(rng, maxdepth=3):
    cnt = Counter()
    tops = _prelude_plain()
    calls = []
    k = 0
    fn0_single = False
    for i in range(rng.choice([1, 1, 2])):
        name = f"fn{i}"
        params = ["v"] if rng.random() < 0.65 else ["v", "w"]
        tops.append(_variant_def(rng, cnt, name, params, maxdepth, callee=("fn0" if i == 1 and fn0_single else None)))
        if i == 0:
            fn0_single = len(params) == 1
        sigs = set()
        for _ in range(rng.choice([2, 2, 3])):
            sigs.add(tuple(rng.choice(["int", "float", "float", "bool"]) for _ in params))
        if len(sigs) < 2:
            sigs.add(tuple("float" if t != "float" else "int" for t in next(iter(sigs))))
        for sg in sorted(sigs, key=lambda s: rng.random()):
            k += 1
            calls.append(_call_leaf(rng, k, name, sg))
    for _ in range(rng.randint(0, 2)):
        tops.append(("chain", gen_stmt(rng, cnt, 0, 2)))
    return _place_calls(rng, cnt, tops, calls)


def systematic_variant_programs():
    """one helper per shape of nested body (if/elif/else with returns, for, while, try/except, two levels) x the sets of
    signatures {float only, int + float, float + int (other order), bool + int + float}"""
    import random
    rng = random.Random(7)
    cnt = Counter()

    def W():
        k = cnt.next()
        return ("leaf", f"mon.write({O0}{k}{O0})", ("mark", k))

    def R():
        k = cnt.next()
        return ("leaf", f"return{M1}{k}", ("jump", f"return {k};"))

    def IF(v, body):
        return ("block", "if", f"if{M1}{v}{O1}>{O1}{cnt.next()}{O0}:", body)

    def ELIF(v, body):
        return ("block", "elif", f"elif{M1}{v}{O1}<{O1}{cnt.next()}{O0}:", body)

    def ELSE(body):
        return ("block", "else", f"else{O0}:", body)

    def FOR(body, var="i1"):
        return ("block", "for", f"for{M1}{var}{M1}in{M1}range({O0}2{O0}){O0}:", body)

    def WHILE(body):
        return ("block", "while", f"while{M1}x{O1}<{O1}{cnt.next()}{O0}:", body + [("leaf", f"x{O1}+={O1}1", ("plain",))])

    def TRY(body, hbody):
        return [("block", "try", f"try{O0}:", body), ("block", "except", f"except{M1}Exception{O0}:", hbody)]

    shapes = [
        lambda: [IF("v", [W(), R()]), ELIF("v", [("leaf", "led.off()", ("plain",)), R()]), FOR([("leaf", "led.toggle()", ("plain",))])],
        lambda: [IF("v", [W(), R()]), ELIF("v", [W()]), ELSE([W(), R()]), W()],
        lambda: [FOR([W(), IF("v", [W(), ("leaf", "break", ("jump", "break;"))]), W()]), W()],
        lambda: [WHILE([W(), IF("x", [("leaf", "continue", ("continue", "loop"))]), W()]), W()],
        lambda: TRY([W(), IF("v", [R()])], [W(), R()]) + [W()],
        lambda: [IF("v", [FOR([W()] + TRY([W()], [W()]), var="i2"), R()]), ELSE([WHILE([W()])]), W()],
        lambda: [IF("v", [("leaf", "pass", ("allowed", "pass"))]), ELIF("v", [W()]), ELSE([("leaf", "pass", ("allowed", "pass"))]), W()],
        lambda: [FOR([FOR([IF("v", [W()]), ELSE([W()])], var="i2")]), W()],
    ]
    sigsets = [[("float",)], [("int",), ("float",)], [("float",), ("int",)], [("bool",), ("int",), ("float",)]]
    progs = []
    for si, shape in enumerate(shapes):
        sg = sigsets[si % len(sigsets)]
        tops = _prelude_plain()
        body = shape() + [("leaf", f"return{M1}v", ("jump", "return v;"))]
        tops.append(("def", f"def{M1}fn0({O0}v{O0}){O0}:", body))
        calls = [_call_leaf(rng, j + 1, "fn0", s) for j, s in enumerate(sg)]
        progs.append(_place_calls(rng, cnt, tops, calls))
    return progs


def variant_defs(tops):
    """names of the defs a variant program calls with arguments"""
    return sorted({m.group(1) for t, meta, _ in leaves(tops) for m in [re.match(r"^r\d+ = (fn\d+)\(.+\)$", canon_spacing(t))] if m})


# ------------------------------------------------------------------ fourth round: AFTER THE MAIN LOOP
# every kind of top-level construct, written at column 0 behind the block of the main loop (Python never reaches it):
# (name, lines, class) - class "statement": the script must be REJECTED; "fixed": a line of the fixed set (import, pass,
# print, docstring, global, target()) - rejected, or accepted with unchanged firmware; "junk": blank / comment lines -
# accepted with unchanged firmware
AFTER_LOOP = [
    ("second_main_loop", ["while True:", "    mon.write(9001)"], "statement"),
    ("second_main_loop_comment", ["while True:  # alarm mode", "    led.toggle()", "    sleep(100)"], "statement"),
    ("second_main_loop_pass", ["while True:", "    pass"], "statement"),
    ("def", ["def late():", "    mon.write(9002)"], "statement"),
    ("def_params", ["def late2(a, b):", "    return a"], "statement"),
    ("def_pass", ["def late3():", "    pass"], "statement"),
    ("if", ["if x > 1:", "    mon.write(9003)"], "statement"),
    ("if_else", ["if x > 1:", "    mon.write(9004)", "else:", "    mon.write(9005)"], "statement"),
    ("for", ["for k9 in range(3):", "    mon.write(9006)"], "statement"),
    ("while_cond", ["while x < 3:", "    x += 1"], "statement"),
    ("try", ["try:", "    mon.write(9007)", "except Exception:", "    mon.write(9008)"], "statement"),
    ("device_call", ["led.on()"], "statement"),
    ("serial_write", ["mon.write(9009)"], "statement"),
    ("assign", ["x = 9010"], "statement"),
    ("augassign", ["x += 1"], "statement"),
    ("sleep", ["sleep(9011)"], "statement"),
    ("call", ["late()"], "statement"),
    ("device_decl", ["led2 = Led(12)"], "statement"),
    ("break", ["break"], "statement"),
    ("continue", ["continue"], "statement"),
    ("return", ["return"], "statement"),
    ("import", ["import os"], "fixed"),
    ("from_import", ["from math import sin"], "fixed"),
    ("from_import_reduino", ["from Reduino.Actuators import Servo"], "fixed"),
    ("target", ["target(\"COM3\")"], "fixed"),
    ("pass", ["pass"], "fixed"),
    ("print", ["print(\"bye\")"], "fixed"),
    ("docstring", ["\"\"\"the end\"\"\""], "fixed"),
    ("global", ["global x"], "fixed"),
    ("comment", ["# the end"], "junk"),
    ("comment_indented", ["    # still nothing", "\t# tab"], "junk"),
    ("comment_code", ["# while True:", "#     led.on()"], "junk"),
    ("blank", ["", "   ", "\t"], "junk"),
]
