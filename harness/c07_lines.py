"""C07, statement recognisers: generated lines for the correspondence of the RE_* patterns and of the
dispatch loop of _parse_simple_lines, the spacing variants of the four statement shapes (Python twin of
Lang/LineShapes.v line_call0 / line_call / line_decl / line_sleep), and the harness-side reading of
'_handle_assignment_ast takes the line' from CPython's ast (the one step of the loop Python's ast decides)."""
from __future__ import annotations

import ast
import itertools
import warnings

DEVICE_CLASSES = {"Led", "RGBLed", "Servo", "Buzzer", "DCMotor", "SerialMonitor", "Ultrasonic", "LCD"}
SET_KEYS = ["rgb_led_names", "buzzer_names", "servo_names", "dc_motor_names", "lcd_names"]     # order of Gen.LineRx guard sets
SETS_DEFAULT = {"rgb_led_names": ["rgb"], "buzzer_names": ["bz"], "servo_names": ["sv"], "dc_motor_names": ["mot"], "lcd_names": ["lcd"]}
SETS_EMPTY = {k: [] for k in SET_KEYS}
SETS_ALL = {k: ["led", "rgb", "bz", "sv", "mot", "lcd", "mon", "x"] for k in SET_KEYS}

METHODS0 = ["on", "off", "toggle", "stop", "coast", "invert", "clear"]
METHODS = {"set_brightness": "128", "blink": "250, 3", "fade_in": "5, 10", "fade_out": "5", "flash_pattern": "[1, 0, 1], 100",
           "play_tone": "440, 200", "beep": "880", "sweep": "200, 800, 500", "melody": "\"success\"", "on": "255, 0, 0",
           "set_color": "1, 2, 3", "fade": "0, 0, 255, 300", "write": "\"hi # there\"", "write_us": "1500", "set_speed": "0.5",
           "backward": "0.25", "ramp": "1.0, 200", "run_for": "300, 0.5", "line": "0, \"a\"", "message": "\"a\", \"b\"",
           "display": "True", "backlight": "False", "brightness": "100", "glyph": "0, [0]*8", "progress": "0, 5, 10",
           "animate": "\"scroll\", 0, \"x\""}
CLASSES = {"Led": "13", "RGBLed": "9, 10, 11", "Servo": "9", "Buzzer": "8", "DCMotor": "4, 5, 6", "SerialMonitor": "9600",
           "Ultrasonic": "7, 8", "LCD": "rs=12, en=11, d4=5, d5=4, d6=3, d7=2", "Button": "2", "Potentiometer": "\"A0\""}
RECEIVERS = ["led", "rgb", "bz", "sv", "mot", "lcd", "mon", "x", "return_led", "_a1"]
GAPS = ["", " ", "  ", "\t"]


def line_call0(name, meth, g):
    return name + g[0] + "." + g[1] + meth + g[2] + "(" + g[3] + ")"


def line_call(name, meth, args, g):
    return name + g[0] + "." + g[1] + meth + g[2] + "(" + g[3] + args + g[4] + ")"


def line_decl(name, cls, args, g):
    return name + g[0] + "=" + g[1] + cls + g[2] + "(" + g[3] + args + g[4] + ")"


def line_sleep(args, g):
    return "sleep" + g[0] + "(" + g[1] + args + g[2] + ")"


def in_guard(kind, g):
    return (g[1] == "" and g[2] == "") if kind in (0, 1) else True


def shape_cases(rng, thorough):
    """(kind, name, meth-or-class, args, gaps[5]) - every gap position over GAPS for a few statements, random for the rest"""
    out = []
    for g in itertools.product(GAPS[:3], repeat=4):
        out.append((0, "led", "on", "", list(g) + [""]))
    for g in itertools.product(GAPS[:2] + ["\t"], repeat=5):
        out.append((1, "mon", "write", "\"a b\"", list(g)))
        out.append((2, "led", "Led", "13", list(g)))
    for g in itertools.product(GAPS, repeat=3):
        out.append((3, "", "", "0.5 * n", list(g) + ["", ""]))
    n = 1500 if thorough else 300
    for _ in range(n):
        g = [rng.choice(GAPS) if rng.random() < 0.5 else "" for _ in range(5)]
        k = rng.choice([0, 1, 1, 2, 3])
        if k == 0:
            out.append((0, rng.choice(RECEIVERS), rng.choice(METHODS0), "", g[:4] + [""]))
        elif k == 1:
            m = rng.choice(sorted(METHODS))
            out.append((1, rng.choice(RECEIVERS), m, METHODS[m], g))
        elif k == 2:
            c = rng.choice(sorted(CLASSES))
            out.append((2, rng.choice(RECEIVERS), c, CLASSES[c], g))
        else:
            out.append((3, "", "", rng.choice(["1", "x", "0.25", "n + 1", "(a)"]), g[:3] + ["", ""]))
    return out


def render_shape(c):
    k, name, meth, args, g = c
    if k == 0:
        return line_call0(name, meth, g)
    if k == 1:
        return line_call(name, meth, args, g)
    if k == 2:
        return line_decl(name, meth, args, g)
    return line_sleep(args, g)


def spec_asg(line):
    """does _handle_assignment_ast take the line?  True / False from CPython's ast; None = not decided here"""
    try:
        with warnings.catch_warnings():
            warnings.simplefilter("ignore")
            node = ast.parse(line, mode="exec")
    except SyntaxError:
        return False
    except (ValueError, RecursionError, MemoryError):
        return None
    if len(node.body) != 1:        # several statements on the line (`a = 1; b()`): not taken since the repair of the silent drops
        return False
    st = node.body[0]
    if isinstance(st, ast.Assign):
        if len(st.targets) != 1:
            return False
        target, value = st.targets[0], st.value
    elif isinstance(st, ast.AugAssign):
        target, value = st.target, st.value
    else:
        return False

    def dev(n):
        return isinstance(n, ast.Call) and isinstance(n.func, ast.Name) and n.func.id in DEVICE_CLASSES
    if isinstance(target, ast.Name) and dev(value):
        return False
    if isinstance(target, (ast.Tuple, ast.List)) and isinstance(value, (ast.Tuple, ast.List)) and any(dev(e) for e in value.elts):
        return False
    if isinstance(st, ast.AugAssign):
        return True if isinstance(target, ast.Name) and not isinstance(st.op, ast.MatMult) else None
    if isinstance(target, ast.Name):
        return True
    return None


EXTRA_LINES = ["import os", "import os as o", "import os; x = 5", "import os;", "from math import sin", "from math import sin; x = 5", "from a;b import c",
               "from math import (sin, cos)", "from math import", "import", "importx y", "global x", "global x, y", "global x ,y2", "global x; y = 5", "global x;",
               "global", "globalx", "global 1x", "pass; x = 5", "pass;", "pass x", "nonlocal x", "del x", "assert x", "mon.close()", "mon.flush()",
               "break", "continue", "return", "return x + 1", "returned = 5", "return_led.on()", "breakx", "pass", "print(1)", "x = 5", "x += 1",
               "a, b = 1, 2", "x == 5", "x.y = 3", "x[0] = 1", "target(\"COM3\")", "target(port=\"/dev/ttyUSB0\", upload=False)", "y = target(\"a\")",
               "x.target(\"a\")", "mytarget(\"a\")", "if target(\"a\"):", "target ( 'COM4' )", "target()", "def target(x):", "led = Led(13)  ",
               "led=Led(13)", "led = Led (13)", "led = Led( 13 )", "led = Ledx(13)", "b = Button(2, on_click=f)", "p = Potentiometer(\"A0\")",
               "sleep(1)", "sleep (1)", "sleep( 1 )", "sleep()", "sleepy(1)", "time.sleep(1)", "mon.write(x)", "mon.write (x)", "mon .write(x)",
               "mon. write(x)", "sv.write(90)", "lcd.write(\"a\")", "lcd.write (\"a\")", "bz.stop()", "mot.stop()", "led.stop()", "rgb.on(1,2,3)",
               "rgb.on()", "led.on()", "led.on ()", "led.on( )", "led . on()", "led.on() ", "led.on()x", "1led.on()", "led.on(1)", "rgb.off()",
               "x.append(1)", "f(1)", "x", "1 + 2", "\"doc\"", "import os", "from math import sin", "from Reduino.Actuators import Servo",
               "from Reduino.Core import pin_mode", "from Reduino.Sensors import Potentiometer", "from  Reduino.Displays  import  LCD",
               "global x", "del x", "assert x", "raise ValueError", "with a as b:", "class K:", "lambda: 0", "x = Led", "led.on();led.off()",
               "for i in range(3):", "for i in range (3):", "while x:", "while(x):", "if x:", "if(x):", "try:", "try :", "elif x:", "else:", "except:"]


def mutate(rng, line):
    alpha = [" ", "(", ")", ".", ":", "=", "x", "#", "\"", ",", "\t", "_", "1"]
    if not line:
        return rng.choice(alpha)
    i = rng.randrange(len(line) + 1)
    r = rng.random()
    if r < 0.4:
        return line[:i] + rng.choice(alpha) + line[i:]
    if r < 0.7 and i < len(line):
        return line[:i] + line[i + 1:]
    if i < len(line):
        return line[:i] + rng.choice(alpha) + line[i + 1:]
    return line + rng.choice(alpha)
