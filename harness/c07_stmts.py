"""C07, statement layer (third round): IR trees for the correspondence of coq/Lang/Promote.v with the real
_rewrite_nodes / _make_promotion_decls and of coq/Lang/EmitStmt.v with the real _emit_block under given
de-duplication sets; Python twins of the SPEC views (as_assign, stmt_only)."""
from __future__ import annotations

from harness import c07_fw as F

NAMES = ["a", "b", "count", "level", "flag", "msg"]
TYPES = {"a": "int", "b": "int", "count": "int", "level": "float", "flag": "bool", "msg": "String"}
DEFAULT = {"int": "0", "float": "0.0", "bool": "false", "String": '""'}
EXPRS = {"int": ["0", "0", "5", "(count + 1)", "analogRead(14)"], "float": ["0.0", "0.0", "2.5", "(level + 0.5)"],
         "bool": ["false", "false", "true", "!flag"], "String": ['""', '""', '"s"']}
OTHER = [["SerialWrite", "mon", "7"], ["Sleep", 25], ["ExprStmt", "fn0()"], ["LedToggle", "led"], ["BreakStmt"]]


def gen_pn(rng, depth, maxdepth):
    """grouped IR trees with VarDecl / VarAssign leaves: default- and other-valued, in front of compound statements or not,
    several declarations in a row, global_scope set or not"""
    out = []
    for _ in range(rng.randint(1, 4)):
        r = rng.random()
        if r < 0.35:
            nm = rng.choice(NAMES)
            ty = TYPES[nm] if rng.random() < 0.9 else "__redu_list<int>"
            ex = rng.choice(EXPRS.get(ty, ["__redu_list<int>()", "0"]))
            out.append(["decl", nm, ty, ex, rng.random() < 0.1])
        elif r < 0.5:
            nm = rng.choice(NAMES)
            out.append(["assign", nm, rng.choice(EXPRS[TYPES[nm]])])
        elif r < 0.65 or depth >= maxdepth:
            out.append(["leaf", rng.choice(OTHER)])
        else:
            k = rng.random()
            if k < 0.4:
                brs = [[rng.choice(F.CONDS), gen_pn(rng, depth + 1, maxdepth) if rng.random() < 0.9 else []] for _ in range(rng.choice([1, 1, 2, 3]))]
                out.append(["if", brs, gen_pn(rng, depth + 1, maxdepth) if rng.random() < 0.5 else []])
            elif k < 0.6:
                out.append(["while", rng.choice(F.CONDS), gen_pn(rng, depth + 1, maxdepth)])
            elif k < 0.8:
                out.append(["for", f"i{depth}", rng.choice([3, "n"]), gen_pn(rng, depth + 1, maxdepth)])
            else:
                out.append(["try", gen_pn(rng, depth + 1, maxdepth),
                            [[e, g, gen_pn(rng, depth + 1, maxdepth)] for e, g in (rng.choice(F.CATCHES) for _ in range(rng.choice([0, 1, 2])))]])
    return out


def boundary_pn():
    """the shapes at stake: a default-valued declaration of a promoted name followed (directly / after more such declarations)
    by each kind of compound statement, by a simple node, by nothing; a non-default one; a global one"""
    w = ["leaf", ["Sleep", 25]]
    comps = [["if", [["(a)", [w]]], []], ["while", "(a)", [w]], ["for", "i", 3, [w]], ["try", [w], []], w, None]
    out = []
    for ty in ("int", "float", "bool", "String"):
        nm = {"int": "count", "float": "level", "bool": "flag", "String": "msg"}[ty]
        for c in comps:
            for ex in (DEFAULT[ty], EXPRS[ty][2]):
                for pre in ([], [["decl", "a", "int", "0", False]], [["assign", "b", "0"]]):
                    body = [["decl", nm, ty, ex, False]] + pre + ([c] if c else [])
                    out.append(["for", "k", 2, body])
                    out.append(["while", "(x < 2)", [w] + body])
    return [[t] for t in out]


def flat_pn(trees):
    """grouped tree -> the flattened form of Lang/Promote.v (python lists with str)"""
    out = []
    for t in trees:
        k = t[0]
        if k == "decl":
            out.append([0, t[1], t[2], t[3], 1 if t[4] else 0])
        elif k == "assign":
            out.append([1, t[1], t[2]])
        elif k == "leaf":
            out.append([2, [repr(t[1])]])
        elif k == "other":
            out.append([2, ["other:" + t[1]]])
        elif k == "if":
            for i, (c, b) in enumerate(t[1]):
                out.append([3, [0 if i == 0 else 1, c], flat_pn(b)])
            if t[2]:
                out.append([3, [2], flat_pn(t[2])])
        elif k == "while":
            out.append([3, [3, t[1]], flat_pn(t[2])])
        elif k == "for":
            out.append([3, [4, t[1], str(t[2])], flat_pn(t[3])])
        elif k == "try":
            out.append([3, [5], flat_pn(t[1])])
            for e, g, b in t[2]:
                out.append([3, [6, F.catch_text(e, g)], flat_pn(b)])
    return out


def dec_pn(w, wstr):
    """wire form of enc_pn -> the same lists as flat_pn"""
    out = []
    for t in w:
        if t[0] == 0:
            out.append([0, wstr(t[1]), wstr(t[2]), wstr(t[3]), t[4]])
        elif t[0] == 1:
            out.append([1, wstr(t[1]), wstr(t[2])])
        elif t[0] == 2:
            out.append([2, [wstr(x) for x in t[1]]])
        else:
            h = t[1]
            out.append([3, [h[0]] + [wstr(x) for x in h[1:]], dec_pn(t[2], wstr)])
    return out


def as_assign(flat):
    """SPEC twin: forget whether an assignment is written as a declaration"""
    out = []
    for t in flat:
        if t[0] == 0:
            out.append([1, t[1], t[3]])
        elif t[0] == 3:
            out.append([3, t[1], as_assign(t[2])])
        else:
            out.append(t)
    return out


def default_decl_before_compound(flat, promoted):
    """declarations of a promoted name, initialised with the default of their type, followed (possibly via more such
    declarations) by a compound statement - a user statement that looks exactly like a synthetic placeholder"""
    k = 0
    for i, t in enumerate(flat):
        if t[0] == 3:
            k += default_decl_before_compound(t[2], promoted)
        elif t[0] == 0 and t[1] in promoted and t[3] == DEFAULT.get(t[2]):
            j = i + 1
            while j < len(flat) and flat[j][0] == 0 and flat[j][3] == DEFAULT.get(flat[j][2]):
                j += 1
            if j < len(flat) and flat[j][0] == 3:
                k += 1
    return k


def decl_names(flat):
    out = []
    for t in flat:
        if t[0] == 0:
            out.append(t[1])
        elif t[0] == 3:
            out += decl_names(t[2])
    return out


# ------------------------------------------------------------------ _emit_block with its de-duplication sets
STMT_SPECS = [["ExprStmt", "pinMode(7, OUTPUT)"], ["ExprStmt", "pinMode(7, INPUT)"], ["ExprStmt", "pinMode(7, OUTPUT)"],
              ["ExprStmt", "pinMode(13, OUTPUT)"], ["ExprStmt", "digitalWrite(7, HIGH)"], ["ExprStmt", "analogWrite(5, 128)"],
              ["VarAssign", "x", "0"], ["VarAssign", "x", "0"], ["VarDecl", "y", "int", "0"], ["SerialWrite", "mon", "7"], ["Sleep", 25],
              ["LedOn", "led"], ["LedToggle", "led"], ["ReturnStmt"], ["ExprStmt", "fn0()"]]
DECL_SPECS = [["LedDecl", "led", 13], ["LedDecl", "led", 13], ["LedDecl", "led2", 7], ["BuzzerDecl", "bz", 8],
              ["BuzzerDecl", "bz", 7], ["RGBLedDecl", "rgb", 9, 10, 11], ["RGBLedDecl", "rgb", 9, 9, 7], ["DCMotorDecl", "mot", 4, 5, 6],
              ["DCMotorDecl", "mot", 4, 4, 6], ["UltrasonicDecl", "us", 2, 3], ["UltrasonicDecl", "us", 7, 7], ["UltrasonicDecl", "us2", 2, 3]]


def decl_model(spec):
    """what the model is told about a device declaration: (uses the ultrasonic set, [(key, pinMode line)], tail lines)"""
    k, name = spec[0], spec[1]
    pm = lambda p, m="OUTPUT": f"pinMode({p}, {m});"   # noqa
    if k == "LedDecl":
        return 0, [[[name, str(spec[2])], pm(spec[2])]], []
    if k == "BuzzerDecl":
        return 0, [[[name, str(spec[2]), "OUTPUT"], pm(spec[2])]], []
    if k == "RGBLedDecl":
        return 0, [[[name, str(p), str(i)], pm(p)] for i, p in enumerate(spec[2:5])], []
    if k == "DCMotorDecl":
        return (0, [[[name, str(p), role], pm(p)] for role, p in zip(("in1", "in2", "enable"), spec[2:5])],
                [f"digitalWrite({spec[2]}, LOW);", f"digitalWrite({spec[3]}, LOW);", f"analogWrite({spec[4]}, 0);"])
    if k == "UltrasonicDecl":
        return 1, [[[name, str(spec[2]), "OUTPUT"], pm(spec[2])], [[name, str(spec[3]), "INPUT"], pm(spec[3], "INPUT")]], []
    raise ValueError(k)


def gen_sn(rng, depth, maxdepth, pool):
    out = []
    for _ in range(rng.randint(1, 4)):
        r = rng.random()
        if r < 0.55 or depth >= maxdepth:
            out.append(["leaf", rng.choice(pool)])
        elif r < 0.65:
            out.append(["leaf", rng.choice(DECL_SPECS)])
        else:
            k = rng.random()
            if k < 0.4:
                brs = [[rng.choice(F.CONDS), gen_sn(rng, depth + 1, maxdepth, pool) if rng.random() < 0.9 else []] for _ in range(rng.choice([1, 1, 2]))]
                out.append(["if", brs, gen_sn(rng, depth + 1, maxdepth, pool) if rng.random() < 0.5 else []])
            elif k < 0.6:
                out.append(["while", rng.choice(F.CONDS), gen_sn(rng, depth + 1, maxdepth, pool)])
            elif k < 0.8:
                out.append(["for", f"i{depth}", rng.choice([3, "n"]), gen_sn(rng, depth + 1, maxdepth, pool)])
            else:
                out.append(["try", gen_sn(rng, depth + 1, maxdepth, pool),
                            [[e, g, gen_sn(rng, depth + 1, maxdepth, pool)] for e, g in (rng.choice(F.CATCHES) for _ in range(rng.choice([0, 1])))]])
    return out


def enc_sn(trees, leaf_lines):
    """grouped tree -> wire form of Lang/EmitStmt.v; leaf_lines: repr(spec) -> the lines the real emitter writes for the
    statement node ALONE (outside setup, empty sets)"""
    out = []
    for t in trees:
        k = t[0]
        if k == "leaf":
            if t[1][0].endswith("Decl") and t[1][0] != "VarDecl":
                us, pins, tail = decl_model(t[1])
                out.append([1, us, pins, tail])
            else:
                out.append([0, leaf_lines[repr(t[1])]])
        elif k == "if":
            for i, (c, b) in enumerate(t[1]):
                out.append([3, 0, ("if (" if i == 0 else "else if (") + c + ")", enc_sn(b, leaf_lines)])
            out.append([3, 1, "else", enc_sn(t[2], leaf_lines)])
        elif k == "while":
            out.append([3, 0, "while (" + t[1] + ")", enc_sn(t[2], leaf_lines)])
        elif k == "for":
            out.append([3, 0, f"for (int {t[1]} = 0; {t[1]} < {t[2]}; ++{t[1]})", enc_sn(t[3], leaf_lines)])
        else:
            out.append([3, 0, "try", enc_sn(t[1], leaf_lines)])
            for e, g, b in t[2]:
                out.append([3, 0, "catch (" + F.catch_text(e, g) + ")", enc_sn(b, leaf_lines)])
    return out


def is_sub(a, l):
    """a is l with some lines left out (SPEC twin of EmitStmt.sub)"""
    it = iter(l)
    return all(any(x == y for y in it) for x in a)
