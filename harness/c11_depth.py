"""C11 - the interpreter stack over the whole pipeline parse() -> emit() (never an internal error).

parse() turns its own RecursionError into a clean ValueError (_nesting_as_value_error); emit() recurses over the same block
tree and - since the repair of F-C11-emit-stack-window - does the same.  So on every script the pipeline ends in firmware, in
a clean ValueError from parse() or in a clean ValueError from emit(); never in a RecursionError.

(a) correspondence: Lang/NestDepth.v with the constants measured on the current source (Gen/NestDepth.v), extracted, against
    the real stages - the deepest frame of parse() / emit() (sys.setprofile) on generated program trees, and the outcome of
    the pipeline (firmware / clean ValueError / internal error) when exactly `room` frames are left;
(b) oracle on the implementation: for ladder families of every block slot and mixtures of them, around every simple
    statement, with one and with several statements per level, the deepest ladder parse() still accepts is searched (under
    a room of a few dozen frames: the text of a ladder grows with the square of its depth, its parse time with the cube) -
    emit() must end in firmware or ValueError there and on the two ladders below; every rejection above must be a ValueError.  A failure is
    carried over to the default recursion limit (room 999 = parse() called at module level of a script) by extrapolating
    the shallowest failing depth measured under two rooms, and the replay is that script.
No guard: the four simple statements of the repaired finding F-C11-emit-stack-window (rgb.on(), rgb.off(), motor.backward(),
motor.invert() - their emitter branch is deeper than their parser branch, so emit() runs out of frames on ladders parse()
still accepts) are generated everywhere, in (a) and in (b); the witness of the finding is replayed first (replay_fixed).
"""
from __future__ import annotations

import concurrent.futures as CF

from harness import common as C
from harness import c11_nest as N

# the statements of the repaired finding F-C11-emit-stack-window: generated like every other one (extra families around them)
FAT = {"rgb.on()", "rgb.off()", "motor.backward()", "motor.invert()"}
FAT_IDX = [i for i, t in enumerate(N.LEAVES) if t in FAT]
ALL_IDX = list(range(len(N.LEAVES)))
FREE_IDX = [i for i in ALL_IDX if N.LEAVES[i] not in N.NEEDS_LOOP and N.LEAVES[i] not in N.NEEDS_DEF]
DEFAULT_ROOM = 999          # frames parse() / emit() have when a script calls them at module level (limit 1000)
IMPL = "c11_nest_impl.py"


def enc(tree):
    return [[0, t[1]] if t[0] == "L" else [1, N.SLOTS.index(t[1]), enc(t[2])] for t in tree]


def gen_tree(rng, depth, top=True, in_loop=False, in_def=False):
    """a random statement list whose deepest path has about `depth` blocks"""
    out = []
    n = rng.choice([1, 1, 2, 3])
    deep_at = rng.randrange(n)
    for j in range(n):
        d = depth if j == deep_at else rng.randint(0, max(0, depth // 3))
        if d <= 0:
            pool = [i for i in ALL_IDX
                    if (in_loop or N.LEAVES[i] not in N.NEEDS_LOOP) and (in_def or N.LEAVES[i] not in N.NEEDS_DEF) and N.LEAVES[i] not in N.STATEFUL]
            out.append(["L", rng.choice(pool)])
            continue
        slots = list(N.INNER_SLOTS)
        if top and rng.random() < 0.3:
            slots = ["def"] if rng.random() < 0.5 else ["main"]
        slot = rng.choice(slots)
        out.append(["B", slot, gen_tree(rng, d - 1, False, in_loop or slot in ("while", "for"), in_def or slot == "def")])
    if top:
        # at most one main loop, and nothing but defs may follow it in the text (render puts it last)
        mains = [s for s in out if s[0] == "B" and s[1] == "main"]
        for m in mains[1:]:
            m[1] = "while"
    return out


def leaf_pattern_ok(pattern, leaf):
    t = N.LEAVES[leaf]
    if t in N.NEEDS_LOOP:
        return pattern[-1] in ("while", "for")
    if t in N.NEEDS_DEF:
        return pattern[0] == "def"
    return True


def families(rng, thorough):
    """ladder families of the oracle: (pattern, leaf, side statements)"""
    fams = []
    inner = N.INNER_SLOTS
    # every slot alone, around a thin and around the two extreme leaves; the two top slots over every inner slot
    for s in inner:
        for leaf in (1, 0, 19, 6):
            fams.append(([s], leaf, []))
    for top in ("main", "def"):
        for s in inner:
            fams.append(([top, s], 1, []))
            fams.append(([top, s], 25, [1, 30]))
    # every simple statement at the bottom of an if-ladder (loop / function statements under while / def) and of a rotating mixture
    for k, leaf in enumerate(ALL_IDX):
        t = N.LEAVES[leaf]
        pat = ["while"] if t in N.NEEDS_LOOP else ["def", "if"] if t in N.NEEDS_DEF else ["if"]
        fams.append((pat, leaf, []))
        if thorough or k % 2:
            a, b = inner[k % len(inner)], inner[(k // len(inner) + k + 1) % len(inner)]
            pat2 = ["def", a, b] if t in N.NEEDS_DEF else [a, b, "while"] if t in N.NEEDS_LOOP else [a, b]
            fams.append((pat2, leaf, []))
    # ordered pairs of slots, triples, several statements per level
    for a in inner:
        for b in inner:
            if a != b:
                fams.append(([a, b], rng.choice(FREE_IDX), []))
    for _ in range(60 if thorough else 16):
        pat = [rng.choice(inner) for _ in range(rng.randint(2, 5))]
        if rng.random() < 0.3:
            pat = [rng.choice(["main", "def"])] + pat
        side = [rng.choice(FREE_IDX) for _ in range(rng.randint(1, 4))]
        leaves = [i for i in ALL_IDX if leaf_pattern_ok(pat, i)]
        fams.append((pat, rng.choice(leaves), side))
    for s in inner:
        fams.append(([s], rng.choice(FREE_IDX), [rng.choice(FREE_IDX), rng.choice(FREE_IDX)]))
    # the region the repaired finding used to exclude: every slot (and the two top slots) around each of its four statements,
    # alone and with side statements
    for j, leaf in enumerate(FAT_IDX):
        for s in inner:
            fams.append(([s], leaf, []))
        fams.append((["main", inner[j % len(inner)]], leaf, []))
        fams.append((["def", inner[(j + 3) % len(inner)]], leaf, [FAT_IDX[(j + 1) % len(FAT_IDX)], 1]))
        fams.append(([inner[(j + 1) % len(inner)], inner[(j + 4) % len(inner)]], leaf, [FAT_IDX[(j + 2) % len(FAT_IDX)]]))
    return fams


def _chunks(xs, n):
    k = max(1, (len(xs) + n - 1) // n)
    return [xs[i:i + k] for i in range(0, len(xs), k)]


def run_cases(cases, workers=8, timeout=1800):
    """cases through several runner processes at once (order kept)"""
    if not cases:
        return []
    workers = min(workers, len(cases))
    parts = [cases[i::workers] for i in range(workers)]          # interleaved: the expensive families are spread evenly
    with CF.ThreadPoolExecutor(len(parts)) as ex:
        outs = list(ex.map(lambda p: C.run_impl(IMPL, {"cases": p}, timeout=timeout), parts))
    res = [None] * len(cases)
    for i, o in enumerate(outs):
        res[i::workers] = o
    return res


def deep_text(spec, d):
    """the script of a ladder of any depth (the tree builders recurse once per level: room for them here)"""
    import sys
    old = sys.getrecursionlimit()
    sys.setrecursionlimit(max(old, 4 * d + 2000))
    try:
        return N.render(N.fatten(N.ladder(spec["pattern"], d, spec["leaf"]), spec.get("side") or []))
    finally:
        sys.setrecursionlimit(old)


def carry_to_default(spec):
    """the failing family under the default recursion limit: shallowest failing depth under two rooms, extrapolated to
    room 999, tried once (a ladder of that depth is parsed in 10 - 50 s) -> (depth, outcome) or None"""
    r1, r2 = 48, 72
    lo = run_cases([["first-failing", spec, r1], ["first-failing", spec, r2]], workers=2)
    if lo[0] is None or lo[1] is None:
        return None
    slope = (lo[1] - lo[0]) / (r2 - r1)
    d = int(round(lo[0] + slope * (DEFAULT_ROOM - r1))) + (0 if slope > 0.99 else 2)
    out = C.run_impl(IMPL, {"cases": [["run", deep_text(spec, d), DEFAULT_ROOM]]}, timeout=1800)[0]
    return d, out, lo


def depth_stream(ctx, stats, rng, thorough):
    """oracle first (its replay is a script under the default limit), then the correspondence, then expression x block depth"""
    fams = families(rng, thorough)          # drawn first: the same families whatever the other parts consume
    n = part_b(ctx, stats, rng, thorough, fams)
    n += part_a(ctx, stats, rng, thorough)
    n += part_c(ctx, stats, rng, thorough)
    n += part_d(ctx, stats, rng, thorough)
    return n


def part_a(ctx, stats, rng, thorough):
    n_eval = 0
    # ------------------------------------------------------------------ (a) correspondence
    trees = []
    for _ in range(120 if thorough else 36):
        trees.append(gen_tree(rng, rng.randint(6, 18)))
    for _ in range(40 if thorough else 12):
        pat = [rng.choice(N.INNER_SLOTS) for _ in range(rng.randint(1, 4))]
        if rng.random() < 0.35:
            pat = [rng.choice(["main", "def"])] + pat
        leaves = [i for i in range(len(N.LEAVES)) if leaf_pattern_ok(pat, i)]
        side = [rng.choice([i for i in FREE_IDX if N.LEAVES[i] not in N.STATEFUL]) for _ in range(rng.randint(0, 3))]
        trees.append(N.fatten(N.ladder(pat, rng.randint(8, 30), rng.choice(leaves)), side))
    for leaf in range(len(N.LEAVES)):                      # every simple statement once, fat ones included
        pat = ["while"] if N.LEAVES[leaf] in N.NEEDS_LOOP else ["def", "if"] if N.LEAVES[leaf] in N.NEEDS_DEF else [rng.choice(N.INNER_SLOTS)]
        trees.append(N.ladder(pat, 14, leaf))
    measured = run_cases([["need", t] for t in trees])
    have_model = bool(ctx.exes.get("C11x"))
    model = ctx.model([[103, 40, enc(t)] for t in trees], unit="C11x") if have_model else [None] * len(trees)
    n_eval += len(trees)
    rooms = []
    for t, r, m in zip(trees, measured, model):
        case = {"kind": "stack-need", "tree": t, "text": N.render(t)[len(N.HEAD):]}
        if r["parse"] != "ok" or r["emit"] != "ok":
            ctx.disagree("a generated program tree is not transpiled (the stack model covers accepted scripts)", case, "accepted", r)
            rooms.append(None)
            continue
        stats["nest:need-measured"] += 1
        if m is not None:
            if m == [2]:
                ctx.disagree("wire: the stack model could not decode the tree", case, m, None)
            elif (m[0], m[1]) != (r["need_parse"], r["need_emit"]):
                ctx.disagree("interpreter frames needed by (parse, emit): stack model with the measured constants vs the deepest frame of the real stages",
                             case, [m[0], m[1]], [r["need_parse"], r["need_emit"]])
            else:
                stats["nest:need-equal"] += 1
        rooms.append((r["need_parse"], r["need_emit"]))
    # the outcome of the pipeline with exactly `room` frames: at parse's need (accepted), one less (clean ValueError), and at emit's need - 1
    runs = []
    for t, nd in zip(trees, rooms):
        if nd is None:
            continue
        # parse's need (accepted), one less (clean ValueError from parse), three more, and the two sides of emit's need
        for room in sorted({nd[0], nd[0] - 1, nd[0] + 3, nd[1], nd[1] - 1}):
            runs.append((t, room, nd))
    got = run_cases([["run", t, room] for t, room, _ in runs])
    mod2 = ctx.model([[103, room, enc(t)] for t, room, _ in runs], unit="C11x") if have_model else [None] * len(runs)
    n_eval += len(runs)
    for (t, room, nd), g, m in zip(runs, got, mod2):
        emit_clean = g["emit"] in (None, "ValueError", "SyntaxError")
        outcome = 1 if g["parse"] is not None else (0 if g["emit"] is None else (3 if emit_clean else 2))
        stats[f"nest:pipeline-outcome:{('firmware', 'clean rejection by parse', 'emit fails', 'clean rejection by emit')[outcome]}"] += 1
        case = {"kind": "stack-room", "room": room, "tree": t, "text": N.render(t)[len(N.HEAD):]}
        if g["parse"] not in (None, "ValueError", "SyntaxError"):
            ctx.fail(f"with {room} interpreter frames left parse() ends in {g['parse']} (it needs {nd[0]} frames)",
                     case, "firmware or ValueError", g, key="nest-room-kind")
        if m is not None and m != [2] and m[2] == 1 and outcome in (0, 3) and room < nd[0]:
            # parse() got by with fewer frames than its deepest frame: a RecursionError was swallowed by a try / except Exception
            # inside a statement recogniser and the statement went through the fallback path - the model's acceptance (need <= room)
            # is a lower bound of the real one; the oracle (b) searches the real boundary
            stats["nest:parse accepts below its deepest frame (RecursionError swallowed inside a recogniser)"] += 1
        elif m is not None and m != [2] and m[2] != outcome:
            ctx.disagree("outcome of the pipeline with `room` frames left (0 firmware, 1 clean ValueError from parse, 2 internal error in emit, 3 clean ValueError from emit): stack model vs the real stages", case, m[2], g)
        elif m is not None:
            stats["nest:outcome-equal"] += 1
        if outcome == 2:
            ctx.fail(f"emit() raised {g['emit']} on a script parse() accepted, with {room} interpreter frames left for each stage",
                     case, "firmware, or a clean ValueError", g, key="nest-window-tree")
        if outcome == 3 and set(N.LEAVES[i] for i in _leaves(t)) & FAT:
            stats["nest:clean rejection by emit on a tree with a statement of the repaired finding"] += 1

    return n_eval


def part_b(ctx, stats, rng, thorough, fams):
    n_eval = 0
    # ------------------------------------------------------------------ (b) boundary oracle on ladder families
    rooms_b = [36] + ([61] if thorough else [])
    jobs = []
    for room in rooms_b:
        for pat, leaf, side in fams:
            jobs.append(({"pattern": pat, "leaf": leaf, "side": side}, room))
    res = run_cases([["boundary", spec, room] for spec, room in jobs], workers=16)
    n_eval += len(jobs) * 4
    failing = []
    for (spec, room), r in zip(jobs, res):
        name = "+".join(spec["pattern"])
        stats["nest:boundary:" + ("side" if spec["side"] else "single") + ":" + spec["pattern"][0]] += 1
        case = {"kind": "nesting-ladder", "pattern": spec["pattern"], "leaf": N.LEAVES[spec["leaf"]], "side": [N.LEAVES[i] for i in spec["side"]], "room": room}
        bad_rej = [k for k in r["rejections"] if k != "ValueError"]
        if bad_rej:
            dd = (r["dacc"] or 0) + 1
            case = dict(case, depth=dd, text=deep_text(spec, dd))
            ctx.fail(f"parse() raised {bad_rej[0]} on a {name} ladder too deep for {room} frames", case, "ValueError (expression too deeply nested)", r, key="nest-parse-kind:" + bad_rej[0])
        if r["dacc"] is None:
            ctx.disagree("no depth of a ladder family is accepted", case, "accepted at some depth", r)
            continue
        stats["nest:boundary-depth-found"] += 1
        bad = {d: k for d, k in r["emit"].items() if k is not None and not str(k).startswith("parse:")}
        clean_only = all(k in ("ValueError", "SyntaxError") for k in bad.values())
        if bad and not clean_only:
            failing.append((spec, room, r, case))
    # one report per kind of failure (the first family of each pattern head), carried over to the default limit
    seen = set()
    carried_ok = False
    for spec, room, r, case in failing:
        key = "nest-window:" + spec["pattern"][0] + ":" + ("side" if spec["side"] else "single")
        if key in seen or len(seen) >= 3:
            continue
        seen.add(key)
        kinds = sorted(set(str(k) for k in r["emit"].values() if k))
        carried = None
        if not carried_ok:
            try:
                carried = carry_to_default(spec)
            except Exception as e:  # noqa
                carried = None
                stats["nest:carry-failed:" + type(e).__name__] += 1
        if carried and carried[1]["parse"] is None and carried[1]["emit"] is not None:
            d, out, lo = carried
            carried_ok = True
            case2 = dict(case, kind="nesting-ladder-default-limit", depth=d, room=DEFAULT_ROOM,
                         note=f"emit(parse(text)) called at module level under the default recursion limit; shallowest failing depth {lo[0]} / {lo[1]} with 48 / 72 frames of room, deepest accepted depth {r['dacc']} with {room}",
                         text=deep_text(spec, d))
            ctx.fail(f"emit() raised {out['emit']} on a script parse() accepted: {d} nested blocks ({'+'.join(spec['pattern'])}) around `{N.LEAVES[spec['leaf']]}`",
                     case2, "firmware, or a clean ValueError from parse()", out, key=key)
        else:
            tree = N.fatten(N.ladder(spec["pattern"], r["dacc"], spec["leaf"]), spec["side"])
            case2 = dict(case, depth=r["dacc"], text=N.render(tree),
                         note=f"with {room} interpreter frames left for each stage (a caller {DEFAULT_ROOM - room} frames deep under the default limit, or sys.setrecursionlimit)")
            ctx.fail(f"emit() raised {kinds} on the deepest {'+'.join(spec['pattern'])} ladder parse() accepts with {room} frames left ({r['dacc']} blocks around `{N.LEAVES[spec['leaf']]}`)",
                     case2, "firmware, or a clean ValueError from parse()", r, key=key)
    stats["nest:families"] = len(fams)
    stats["nest:failing-families"] = len(failing)

    return n_eval


def part_c(ctx, stats, rng, thorough):
    n_eval = 0
    # ------------------------------------------------------------------ (c) expression depth x block depth
    texts = []
    room = 60
    templates = ["q = {E}", "mon.write({E})", "led.set_brightness({E})", "sleep({E})", "w = {E} * 2.5", "if {E} > 1:\n{I} led.on()", "while {E} < 0:\n{I} led.on()",
                 "for i9 in range({E}):\n{I} led.on()", "nums.append({E})", "q = add2({E}, 1)"]
    shapes = [lambda e: "(" * e + "q" + ")" * e, lambda e: "-" * e + "q", lambda e: "(q + " * e + "1" + ")" * e, lambda e: "abs(" * e + "q" + ")" * e,
              lambda e: " + ".join(["q"] * (e + 1)), lambda e: "not " * e + "q"]
    for ti, tpl in enumerate(templates):
        for si, sh in enumerate(shapes):
            if not thorough and (ti + si) % 3:
                continue
            for d in (room - 34, room - 22):
                for e in (1, 6, 12, 18, 24, 30, 45):
                    ind = " " * d
                    body = "".join(" " * k + "if q > 1:\n" for k in range(d)) + ind + tpl.replace("{E}", sh(e)).replace("{I}", ind).replace("\n", "\n") + "\n"
                    texts.append((tpl, si, d, e, N.HEAD + body))
    got = run_cases([["run", t[4], room] for t in texts], workers=12)
    n_eval += len(texts)
    for (tpl, si, d, e, text), g in zip(texts, got):
        o = g["parse"] or g["emit"] or "firmware"
        stats["nest:expr-in-ladder:" + str(o)] += 1
        if g["parse"] not in (None, "ValueError", "SyntaxError") or g["emit"] not in (None, "ValueError", "SyntaxError"):
            stage = "parse()" if g["parse"] else "emit()"
            ctx.fail(f"{stage} raised {g['parse'] or g['emit']} on an expression nested {e} deep inside {d} nested blocks, {room} interpreter frames left",
                     {"kind": "expr-in-ladder", "template": tpl, "blocks": d, "expression depth": e, "room": room, "text": text},
                     "firmware or ValueError", g, key="nest-expr:" + str(g["parse"] or g["emit"]))
    return n_eval


# block headers outside the supported subset ('arbitrary syntactically valid Python'), and supported ones in other spellings;
# {k} = level, {I} = indentation of the header (for headers that need a second line)
FOREIGN = [
    ("with", "with q as c{k}:"), ("class", "class C{k}:"), ("nested-def", "def g{k}():"), ("async-def", "async def g{k}():"), ("match", "match q:\n{I} case {k}:"),
    ("for-in-list", "for e{k} in nums:"), ("for-tuple", "for a{k}, b{k} in [(1, 2)]:"), ("for-range-3", "for i{k} in range(0, 10, 2):"), ("while-true-inner", "while True:"),
    ("if-walrus", "if (m{k} := q) > 1:"), ("if-not", "if not q:"), ("if-and-call", "if q > 1 and add2(q, 1) > 2:"), ("while-else", "while q < 0:\n{I} led.on()\n{I}else:"),
    ("for-else", "for i{k} in range(2):\n{I} led.on()\n{I}else:"), ("try-finally", "try:\n{I} led.on()\n{I}finally:"), ("try-else", "try:\n{I} led.on()\n{I}except Exception:\n{I} led.off()\n{I}else:"),
    ("except-as", "try:\n{I} led.on()\n{I}except ValueError as err{k}:"), ("elif-chain", "if q > 900:\n{I} led.on()\n{I}elif q > 800:\n{I} led.off()\n{I}elif q > {k}:"),
    ("if-paren-multiline", "if (q >\n{I}     1):"), ("if-comment", "if q > 1:  # level {k}"), ("lambda-body", "f{k} = lambda: (\n{I} 1)\n{I}if q:"),
]


def foreign_text(header, depth, leaf, unit=" "):
    out = [N.HEAD]
    for k in range(depth):
        ind = unit * k
        out.append(ind + header.replace("{k}", str(k % 7)).replace("{I}", ind) + "\n")
    out.append(unit * depth + leaf + "\n")
    return "".join(out)


def part_d(ctx, stats, rng, thorough):
    """ladders of block headers outside the supported subset and of other spellings / indentation units, around the
    acceptance boundary: whatever the transpiler makes of them, both stages may only end cleanly"""
    room = 40
    texts = []
    for name, header in FOREIGN:
        for leaf in ("led.toggle()", "q = q + 1") if thorough else ("led.toggle()",):
            for d in list(range(room - 14, room + 3)) + [3, 12]:
                texts.append((name, d, " ", foreign_text(header, d, leaf)))
    for unit, uname in (("\t", "tab"), ("  ", "two blanks"), ("    ", "four blanks")):
        for header in ("if q > {k}:", "try:\n{I}" + unit + "led.on()\n{I}except Exception:", "for i{k} in range(2):"):
            for d in range(room - 14, room + 3, 1 if thorough else 2):
                if len(unit) * d <= 100:          # white-space guard of F-C11-blank-run-cubic (conservative: indentation is stripped anyway)
                    texts.append(("indent:" + uname, d, unit, foreign_text(header.replace("{k}", "1"), d, "led.toggle()", unit)))
    got = run_cases([["run", t[3], room] for t in texts], workers=12)
    for (name, d, unit, text), g in zip(texts, got):
        o = g["parse"] or g["emit"] or "firmware"
        stats[f"nest:foreign:{name}:{o}"] += 1
        if g["parse"] not in (None, "ValueError", "SyntaxError") or g["emit"] not in (None, "ValueError", "SyntaxError"):
            stage = "parse()" if g["parse"] else "emit()"
            ctx.fail(f"{stage} raised {g['parse'] or g['emit']} on {d} nested `{name}` blocks with {room} interpreter frames left",
                     {"kind": "nesting-ladder", "family": name, "depth": d, "room": room, "text": text}, "firmware or ValueError / SyntaxError", g,
                     key="nest-foreign:" + name.split(":")[0] + ":" + str(g["parse"] or g["emit"]))
    return len(texts)


def _leaves(tree):
    out = []
    for t in tree:
        if t[0] == "L":
            out.append(t[1])
        else:
            out += _leaves(t[2])
    return out


WITNESS = {"pattern": ["if"], "leaf": N.LEAVES.index("rgb.off()"), "side": []}


def tables_summary(ctx, stats):
    """facts about the regenerated tables, from the extracted model (for the evidence only)"""
    if not ctx.exes.get("C11x"):
        return
    m = ctx.model([[104]], unit="C11x")[0]
    if isinstance(m, list) and len(m) == 3:
        stats["nest:tables:emit() guarded (observed by the translator)"] = str(bool(m[0]))
        stats["nest:tables:emit's constants dominated by parse's"] = str(bool(m[1]))
        stats["nest:tables:statements emit() needs more frames for than parse()"] = str([N.LEAVES[i] for i in m[2] if 0 <= i < len(N.LEAVES)])


def replay_fixed(ctx, stats, thorough, entry):
    """F-C11-emit-stack-window (repaired): a fixed entry suppresses nothing.  Its witness - the deepest if-ladder around
    rgb.off() that parse() accepts with 80 interpreter frames left (thorough: the 994-level script under the default
    recursion limit as well) - is replayed; emit() ending in anything but firmware or ValueError is a violation whose replay
    is the witness.  Returns True when the defect is back."""
    r = C.run_impl(IMPL, {"cases": [["boundary", WITNESS, 80]]})[0]
    stats["fixed-witness:F-C11-emit-stack-window:" + str(r["emit"].get(str(r["dacc"])) or "firmware")] += 1
    back = False
    bad = {d: k for d, k in r["emit"].items() if k not in (None, "ValueError", "SyntaxError") and not str(k).startswith("parse:")} if r["dacc"] else {}
    if bad:
        back = True
        d = max(int(x) for x in bad)
        below = r["emit"].get(str(d - 1))
        ctx.fail(f"the repaired defect F-C11-emit-stack-window is back: {d} nested `if` around rgb.off() with 80 interpreter frames left: parse() accepts, emit() raises "
                 f"{bad[str(d)]} (one level less: {'firmware' if below is None else below}; deeper: parse() raises {', '.join(r['rejections']) or '-'}) ({entry.get('fixed', '')})",
                 {"kind": "nesting-ladder", "finding": "F-C11-emit-stack-window", "pattern": ["if"], "leaf": "rgb.off()", "side": [], "room": 80, "depth": d,
                  "text": deep_text(WITNESS, d)},
                 "firmware source, or ValueError", r, key="fixed:F-C11-emit-stack-window")
    if thorough:
        for d in (DEFAULT_ROOM - 5, DEFAULT_ROOM - 6):          # 994 levels (the witness of the finding), 993
            out = C.run_impl(IMPL, {"cases": [["run", deep_text(WITNESS, d), DEFAULT_ROOM]]}, timeout=1800)[0]
            stats[f"fixed-witness:F-C11-emit-stack-window:default-limit:{d} levels:parse {out['parse'] or 'accepts'}, emit {out['emit'] or ('firmware' if out['parse'] is None else '-')}"] += 1
            if out["parse"] not in (None, "ValueError", "SyntaxError") or out["emit"] not in (None, "ValueError", "SyntaxError"):
                back = True
                ctx.fail(f"the repaired defect F-C11-emit-stack-window is back: emit(parse(text)) at module level under the default recursion limit, {d} nested `if` around rgb.off(): "
                         f"parse {out['parse'] or 'accepts'}, emit raises {out['emit']} ({entry.get('fixed', '')})",
                         {"kind": "nesting-ladder-default-limit", "finding": "F-C11-emit-stack-window", "pattern": ["if"], "leaf": "rgb.off()", "depth": d, "room": DEFAULT_ROOM,
                          "text": deep_text(WITNESS, d)},
                         "firmware source, or ValueError", out, key="fixed:F-C11-emit-stack-window:default-limit")
    return back
