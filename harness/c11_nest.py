"""C11 - block nesting: program trees, their text, and the stack-depth probe of the two stages of the pipeline.

Self-contained (no harness imports): used by the translator plug-in harness/gen/nestdepth.py, by the implementation
runner harness/impl/c11_impl.py and by the oracle harness/c11_depth.py.

A program tree is a list of statements; a statement is
    ["L", leaf]                 one simple statement (index into LEAVES)
    ["B", slot, [statements]]   one block statement; `slot` says which kind of block and WHICH of its bodies holds the
                                nested statements (the other bodies of the same statement hold one `led.on()`):
                                if / elif / else / while / for / try / except, and at top level only: main
                                (`while True:`) and def (a function body, called once at top level).
`render` writes the Python text (one blank of indentation per level: leading indentation is stripped before any pattern
of the transpiler is applied, so the white-space guard of F-C11-blank-run-cubic is not concerned).
"""
from __future__ import annotations

import sys

HEAD = (
    "from Reduino import target\n"
    "from Reduino.Actuators import Led, Buzzer, Servo, RGBLed, DCMotor\n"
    "from Reduino.Displays import LCD\n"
    "from Reduino.Sensors import Button, Potentiometer, Ultrasonic\n"
    "from Reduino.Communication import SerialMonitor\n"
    "from Reduino.Utils import sleep\n"
    "from Reduino.Core import pin_mode, digital_write, digital_read, analog_read, analog_write, OUTPUT, INPUT, HIGH, LOW\n"
    "target(\"COM3\", upload=False)\n"
    "led = Led(13)\n"
    "rgb = RGBLed(9, 10, 11)\n"
    "bz = Buzzer(8)\n"
    "arm = Servo(6)\n"
    "motor = DCMotor(4, 5, 3)\n"
    "lcd = LCD(rs=24, en=25, d4=26, d5=27, d6=28, d7=29)\n"
    "mon = SerialMonitor(9600)\n"
    "pot = Potentiometer(\"A0\")\n"
    "sonar = Ultrasonic(31, 32)\n"
    "q = analog_read(1)\n"
    "w = q / 4.0\n"
    "s = \"txt\"\n"
    "nums = [1, 2, 3]\n"
    "def add2(a, b):\n"
    "    return a + b\n"
)

# slots usable at any depth, then the two that only exist at top level
SLOTS = ["if", "elif", "else", "while", "for", "try", "except", "main", "def"]
INNER_SLOTS = SLOTS[:7]

# simple statements: every kind of work a leaf can mean for the two stages (device calls of every class with literal and
# run-time arguments, the statements that make the parser fold / infer / translate expressions of some depth, the ones the
# emitter expands through helper functions)
LEAVES = [
    "pass",
    "led.toggle()",
    "led.on()",
    "led.set_brightness(q)",
    "led.blink(100, 2)",
    "led.fade_in(5, 10)",
    "led.flash_pattern([1, 0, 1], 50)",
    "rgb.set_color(q, 2, 3)",
    "rgb.fade(1, 2, 3, 100, 5)",
    "rgb.blink(1, 2, 3, 2, 100)",
    "bz.play_tone(440, 100)",
    "bz.beep(2)",
    "bz.melody(\"success\")",
    "bz.sweep(100, 800, 500)",
    "arm.write(q)",
    "arm.write_us(1500)",
    "motor.set_speed(0.5)",
    "motor.run_for(100, 0.5)",
    "motor.ramp(0.5, 200)",
    "motor.stop()",
    "lcd.write(0, 0, \"hi\")",
    "lcd.message(\"a\", \"b\")",
    "lcd.progress(0, q, 100)",
    "lcd.animate(\"scroll\", 0, \"hello\", speed_ms=200)",
    "lcd.glyph(0, [0, 1, 2, 3, 4, 5, 6, 7])",
    "lcd.clear()",
    "mon.write(q)",
    "mon.write(f\"v={q} {w}\")",
    "sleep(10 * 2)",
    "sleep(q)",
    "q = q + 1",
    "q += 2",
    "w = (q + 1) * 2 / (w - 3.5)",
    "z{n} = ((q + 1) * (q + 2)) - (((q - 1) % 7) // 2)",
    "q, w = 1, 2.5",
    "q = add2(q, 1)",
    "w = add2(w, 1.5)",
    "q = pot.read()",
    "w = sonar.measure_distance()",
    "q = analog_read(2)",
    "digital_write(7, HIGH)",
    "analog_write(5, q)",
    "pin_mode(7, OUTPUT)",
    "nums.append(q)",
    "nums.remove(1)",
    "q = len(nums)",
    "q = nums[0]",
    "q = max(q, 3)",
    "q = int(w)",
    "s = s + \"x\"",
    "q = 1 if q > 2 else 3",
    "break",
    "continue",
    "return",
    # the statements whose EMITTER expands through one more helper than the parser needs for them (F-C11-emit-stack-window)
    "rgb.on()",
    "rgb.off()",
    "motor.backward()",
    "motor.invert()",
    "motor.coast()",
    "bz.stop()",
    "led.off()",
]
# leaves that need an enclosing loop / function (the generators place them accordingly)
NEEDS_LOOP = {"break", "continue"}
NEEDS_DEF = {"return"}
# leaves whose parser cost depends on what stood before: the first call of a helper with a new signature parses the helper's
# body at the call's depth, later calls hit the variant memo (Lang/VariantCost.v) - the measured constant is the first-call
# cost, an upper bound; such a leaf stands at most once in a tree of the correspondence
STATEFUL = {"w = add2(w, 1.5)"}


def leaf_text(leaf: int, n: int) -> str:
    return LEAVES[leaf].replace("{n}", str(n))


def render(tree, head: str = HEAD) -> str:
    """the Python text of a program tree (list of statements)"""
    out = [head]
    counter = [0]
    after = []          # calls of the functions defined at top level

    def block(stmts, d):
        ind = " " * d
        for s in stmts:
            counter[0] += 1
            n = counter[0]
            if s[0] == "L":
                out.append(ind + leaf_text(s[1], n) + "\n")
                continue
            slot, body = s[1], s[2]
            if slot == "if":
                out.append(f"{ind}if q > {n % 7}:\n")
                block(body, d + 1)
            elif slot == "elif":
                out.append(f"{ind}if q > 900:\n{ind} led.on()\n{ind}elif q > {n % 7}:\n")
                block(body, d + 1)
            elif slot == "else":
                out.append(f"{ind}if q > 900:\n{ind} led.on()\n{ind}else:\n")
                block(body, d + 1)
            elif slot == "while":
                out.append(f"{ind}while q < {n % 7}:\n")
                block(body, d + 1)
            elif slot == "for":
                out.append(f"{ind}for i{n} in range(2):\n")
                block(body, d + 1)
            elif slot == "try":
                out.append(f"{ind}try:\n")
                block(body, d + 1)
                out.append(f"{ind}except Exception:\n{ind} led.on()\n")
            elif slot == "except":
                out.append(f"{ind}try:\n{ind} led.on()\n{ind}except Exception:\n")
                block(body, d + 1)
            elif slot == "main":
                out.append(f"{ind}while True:\n")
                block(body, d + 1)
            elif slot == "def":
                out.append(f"{ind}def fn{n}():\n")
                block(body, d + 1)
                after.append(f"fn{n}()\n")
            else:
                raise ValueError("unknown slot " + str(slot))

    # top level: defs first, then plain statements, the main loop last; the calls of the defs stand before the main loop
    tops = list(tree)
    mains = [s for s in tops if s[0] == "B" and s[1] == "main"]
    rest = [s for s in tops if not (s[0] == "B" and s[1] == "main")]
    block(rest, 0)
    out.extend(after)
    block(mains[:1], 0)
    return "".join(out)


def ladder(pattern, depth: int, leaf: int):
    """the tree that nests `depth` blocks, the slot of level k being pattern[k % len(pattern)], around one leaf; a
    pattern starting with main / def keeps that slot at the top only"""
    pat = list(pattern)
    top = None
    if pat and pat[0] in ("main", "def"):
        top, pat = pat[0], (pat[1:] or ["if"])
    slots = []
    if top is not None and depth > 0:
        slots.append(top)
    k = 0
    while len(slots) < depth:
        slots.append(pat[k % len(pat)])
        k += 1
    node = ["L", leaf]
    for slot in reversed(slots):
        node = ["B", slot, [node]]
    return [node]


def fatten(tree, side):
    """every nested statement list of a ladder gets simple statements before and after its block (side: leaf indices, used
    cyclically) - bodies of more than one statement on every level"""
    if not side:
        return tree
    k = [0]

    def go(stmts):
        out = []
        for s in stmts:
            if s[0] == "B":
                a = side[k[0] % len(side)]
                b = side[(k[0] + 1) % len(side)]
                k[0] += 2
                out += [["L", a], ["B", s[1], go(s[2])], ["L", b]]
            else:
                out.append(s)
        return out
    return go(tree)


def tree_depth(tree) -> int:
    best = 0
    for s in tree:
        if s[0] == "B":
            best = max(best, 1 + tree_depth(s[2]))
    return best


# ---------------------------------------------------------------------------------------------------------------------
# the probe: interpreter frames a stage needs above its caller
# ---------------------------------------------------------------------------------------------------------------------

def _depth_of(frame) -> int:
    n = 0
    while frame is not None:
        n += 1
        frame = frame.f_back
    return n


def stack_need(func, *args):
    """-> (outcome, result, frames): the deepest interpreter stack reached inside func(*args), counted in frames above the
    frame that calls func (func's own frame is 1).  Python-level frames only - the ones CPython's recursion limit counts."""
    base = _depth_of(sys._getframe())
    deepest = [0]

    def prof(frame, event, arg):
        if event == "call":
            d = _depth_of(frame)
            if d > deepest[0]:
                deepest[0] = d

    sys.setprofile(prof)
    try:
        try:
            r = ("ok", func(*args))
        except BaseException as e:  # noqa
            r = ("exc", type(e).__name__)
    finally:
        sys.setprofile(None)
    return r[0], r[1], max(0, deepest[0] - base)


def needs_of_text(text):
    """frames parse(text) needs, frames emit(parse(text)) needs (None when parse does not accept)"""
    from Reduino.transpile.parser import parse
    from Reduino.transpile.emitter import emit
    ok, prog, np_ = stack_need(parse, text)
    if ok != "ok":
        return {"parse": prog, "need_parse": np_, "emit": None, "need_emit": None}
    ok2, cpp, ne = stack_need(emit, prog)
    return {"parse": "ok", "need_parse": np_, "emit": "ok" if ok2 == "ok" else cpp, "need_emit": ne}


def run_with_headroom(text, headroom: int):
    """the real pipeline with exactly `headroom` interpreter frames left for each stage (what a caller deep in its own
    call stack, or a smaller sys.setrecursionlimit, leaves): -> {"parse": None | exception kind, "emit": ...}"""
    from Reduino.transpile.parser import parse
    from Reduino.transpile.emitter import emit
    old = sys.getrecursionlimit()
    out = {"parse": None, "emit": None}

    def stage(f, arg):
        sys.setrecursionlimit(_depth_of(sys._getframe()) + headroom)
        try:
            return None, f(arg)
        except BaseException as e:  # noqa
            kind = "SyntaxError" if isinstance(e, SyntaxError) else "ValueError" if isinstance(e, ValueError) else type(e).__name__
            return kind, None
        finally:
            sys.setrecursionlimit(old)

    out["parse"], prog = stage(parse, text)
    if out["parse"] is None:
        out["emit"], _ = stage(emit, prog)
    return out


def emit_when_short(text, short_by: int):
    """what emit() does when it is `short_by` interpreter frames short of what it needs on an accepted script (parse() runs
    with all the room of this process): -> {"parse": None | kind, "need_emit": frames, "emit": None | exception kind}.
    ValueError = emit() reports exhausted nesting cleanly (it is guarded like parse()), RecursionError = it is not."""
    from Reduino.transpile.parser import parse
    from Reduino.transpile.emitter import emit
    try:
        prog = parse(text)
    except BaseException as e:  # noqa
        return {"parse": type(e).__name__, "need_emit": None, "emit": None}
    ok, _, need = stack_need(emit, prog)
    if ok != "ok":
        return {"parse": None, "need_emit": need, "emit": "unmeasured:" + str(_)}
    old = sys.getrecursionlimit()
    sys.setrecursionlimit(_depth_of(sys._getframe()) + max(1, need - short_by))
    try:
        emit(prog)
        kind = None
    except BaseException as e:  # noqa
        kind = "SyntaxError" if isinstance(e, SyntaxError) else "ValueError" if isinstance(e, ValueError) else type(e).__name__
    finally:
        sys.setrecursionlimit(old)
    return {"parse": None, "need_emit": need, "emit": kind}


def boundary(spec, room: int, above: int = 6):
    """the acceptance boundary of one ladder family under `room` frames, by bisection between depth 1 and room + above, then
    the two depths above the deepest accepted one (their rejections must be clean too); emit() is tried at the deepest
    accepted depth and the two below it.
    spec = {"pattern": [slot, ...], "leaf": i, "side": [leaf, ...]}
    -> {"dacc": deepest accepted depth | None, "rejections": [kinds seen above it], "emit": {depth: None | kind}}"""
    def tree(d):
        return fatten(ladder(spec["pattern"], d, spec["leaf"]), spec.get("side") or [])
    seen = {}

    def run(d):
        if d not in seen:
            seen[d] = run_with_headroom(render(tree(d)), room)
        return seen[d]

    rej = []
    lo, hi = 0, room + above            # lo: accepted (0 = nothing known), hi: rejected
    if run(hi)["parse"] is None:
        return {"dacc": hi, "rejections": [], "emit": {str(hi): run(hi)["emit"]}, "unbounded": True}
    while hi - lo > 1:
        mid = (lo + hi) // 2
        if run(mid)["parse"] is None:
            lo = mid
        else:
            hi = mid
    # acceptance need not be monotone (a swallowed RecursionError): look a little further up
    for d in (lo + 2, lo + 3):
        if d <= room + above and run(d)["parse"] is None:
            lo = d
    for d, r in seen.items():
        if r["parse"] is not None and r["parse"] not in rej:
            rej.append(r["parse"])
    out = {"dacc": lo if lo >= 1 else None, "rejections": rej, "emit": {}}
    if lo < 1:
        return out
    for e in (lo, lo - 1, lo - 2):
        if e >= 1:
            r = run(e)
            out["emit"][str(e)] = r["emit"] if r["parse"] is None else "parse:" + str(r["parse"])
    return out


def first_failing(spec, room: int):
    """the shallowest depth at which parse() accepts and emit() fails under `room` frames (None when there is none)"""
    def tree(d):
        return fatten(ladder(spec["pattern"], d, spec["leaf"]), spec.get("side") or [])
    lo = None
    for d in range(1, room + 8):
        r = run_with_headroom(render(tree(d)), room)
        if r["parse"] is not None and d > 3:
            break
        if r["parse"] is None and r["emit"] is not None:
            lo = d
            break
    return lo
