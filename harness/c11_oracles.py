"""C11 oracles on the implementation for 'terminates promptly' and 'never mutates its input-independent state', and the
correspondence of the two models behind them (Lang/Regex.v on the regenerated inventory, Lang/FoldSession.v).

Promptness is never decided by one absolute threshold: a script is SLOW when it takes more than 200 x the median script of
its own stream AND more than SLOW_ABS seconds, twice (the second time alone in a new process); the replay then carries the
measured series over growing runs (time ratio per step)."""
from __future__ import annotations

import concurrent.futures
import shutil
import statistics

from harness import common as C
from harness import c11_prompt as Q

SLOW_ABS = 5.0
SLOW_REL = 200
LIMIT = 12          # in-process alarm per script (a Timeout counts as LIMIT seconds)
BLANK_GUARD = 100   # F-C11-blank-run-cubic: longest run of white space a generated line may contain


def blank_run(text):
    best = cur = 0
    for ch in text:
        if ch in " \t\x0b\x0c\x1c\x1d\x1e\x1f":
            cur += 1
            best = max(best, cur)
        else:
            cur = 0
    return best


def timed(scripts, limit=LIMIT, stop=3, chunk=3000):
    """[(meta, text)] -> [result]; one process per chunk; after `stop` scripts of a chunk ran into the limit the rest of the
    stream is skipped (every one of them would take `limit` seconds)"""
    out = []
    hit = 0
    for i in range(0, len(scripts), chunk):
        part = scripts[i:i + chunk]
        if hit >= stop:
            out += [{"exc": "Skipped", "msg": "", "audit": [], "wall": 0.0}] * len(part)
            continue
        r = C.run_impl("c11_impl.py", {"cases": [["script", t] for _, t in part], "limit": limit, "stop_after_timeouts": stop - hit}, timeout=7200)
        hit += sum(1 for x in r if x["exc"] == "Timeout")
        out += r
    return out


def alone(text, limit=LIMIT):
    return C.run_impl("c11_impl.py", {"cases": [["script", text]], "limit": limit}, timeout=limit * 4 + 60)[0]


def growth_series(make, sizes, limit=LIMIT):
    """[(n, wall, exc)] each in a new process, stopping after the first size that exceeds SLOW_ABS"""
    out = []
    for n in sizes:
        r = alone(make(n), limit)
        out.append([n, r["wall"] if r["exc"] != "Timeout" else float(limit), r["exc"]])
        if out[-1][1] > SLOW_ABS:
            break
    return out


def check_prompt_stream(ctx, stats, name, scripts, res, remake=None):
    """the promptness oracle over one stream; remake(meta, n) -> script text with the run resized (for the series)"""
    walls = [r["wall"] for r in res if r["exc"] not in ("Skipped",)]
    if not walls:
        return 0.0
    med = statistics.median(walls)
    thr = max(SLOW_ABS, SLOW_REL * med)
    stats[f"prompt:{name}:scripts"] += len(walls)
    reported = set()
    for (meta, text), r in zip(scripts, res):
        if r["exc"] == "Skipped":
            stats[f"prompt:{name}:skipped-after-timeouts"] += 1
            continue
        w = float(LIMIT) if r["exc"] == "Timeout" else r["wall"]
        if r["exc"] not in (None, "ValueError", "SyntaxError", "Timeout"):
            ctx.fail(f"transpiler raised {r['exc']} (neither ValueError nor SyntaxError)", {"kind": name, **meta, "text": text}, "firmware source, ValueError or SyntaxError", r, key="exc-kind:" + str(r["exc"]))
        if r["audit"]:
            ctx.fail("transpiling performed a file / process / import / exec access (audit event)", {"kind": name, **meta, "text": text}, "no audit event", r["audit"], key="audit:" + r["audit"][0][0])
        if w <= thr:
            continue
        key = "slow:" + str(meta.get("regex", meta.get("family", name)))
        if key in reported or len(reported) >= 3:
            continue
        again = alone(text)
        w2 = float(LIMIT) if again["exc"] == "Timeout" else again["wall"]
        if w2 <= thr:
            stats[f"prompt:{name}:slow-once-not-confirmed"] += 1
            continue
        reported.add(key)
        series = []
        if remake is not None:
            n = meta.get("n", 0)
            sizes = sorted({max(4, n * k // 14) for k in range(4, 15)}) if n <= 64 else sorted({max(8, n >> k) for k in range(6, -1, -1)})
            series = growth_series(lambda k: remake(meta, k), sizes)
        ratios = [round(b[1] / a[1], 2) for a, b in zip(series, series[1:]) if a[1] >= 0.02]
        ctx.fail(f"transpiling does not terminate promptly: a script with one {len(meta.get('line', ''))}-character line takes {'more than ' if r['exc'] == 'Timeout' else ''}{w} s "
                 f"(median script of the stream: {med} s); measured again alone in a new process: {w2} s",
                 {"kind": name, **meta, "text": text},
                 f"about the time of the other scripts of the stream (median {med} s; limit max({SLOW_ABS} s, {SLOW_REL} x median))",
                 {"first": r, "again": again, "series [run length, seconds, exception]": series, "time ratio per step": ratios}, key=key)
    return med


def resize_line(meta, k):
    """the pump line of `meta` with its run resized to k characters"""
    pre, u, post = meta["parts"]
    return pre + u * max(1, k // len(u)) + post


# --------------------------------------------------------------------------- 4. regular expressions: model vs re, pumps
def regex_correspondence(ctx, stats, inv, rng, per_regex):
    cases, idx = [], []
    for k, e in enumerate(inv):
        items, flags = list(e["tree"]), e["eflags"]
        base = Q.render(items, flags)
        texts = [base, base + "!", base[:-1], " " + base, base + " "]
        for lab, line, _ in Q.pump_lines(e, 6):
            texts.append(line)
        alpha = sorted(set(base) | set("a1_ ().,=:\"'[]x/-"))
        for _ in range(per_regex):
            t = list(rng.choice(texts[: 5 + min(20, len(texts) - 5)]))
            for _ in range(rng.randint(1, 3)):
                r = rng.random()
                j = rng.randrange(len(t) + 1)
                if r < 0.4 and t:
                    t[min(j, len(t) - 1)] = rng.choice(alpha)
                elif r < 0.7:
                    t.insert(j, rng.choice(alpha))
                elif t:
                    del t[min(j, len(t) - 1)]
            texts.append("".join(t))
        seen = set()
        for t in texts:
            if t in seen or len(t) > 70 or any(ord(c) > 126 or c in "\n\r" for c in t):
                continue
            seen.add(t)
            cases.append((k, t))
        idx.append(k)
    by = {}
    for k, t in cases:
        by.setdefault(k, []).append(t)
    payload = [["rematch", inv[k]["file"], inv[k]["name"], inv[k]["pattern"], inv[k]["eflags"], ts] for k, ts in by.items()]
    real = C.run_impl("c11_impl.py", {"cases": payload})
    flat_real = [(k, t, b) for (k, ts), bs in zip(by.items(), real) for t, b in zip(ts, bs)]
    if ctx.exes.get("C11x"):
        model = ctx.model([[100, k, t] for k, t, _ in flat_real], unit="C11x")
    else:
        model = [None] * len(flat_real)
    worst = 0
    for (k, t, b), m in zip(flat_real, model):
        stats["regex-tie:" + ("match" if b else "no-match")] += 1
        if m is None:
            continue
        if m == [2]:
            ctx.disagree("wire: the regex case could not be decoded (inventory index out of range?)", {"regex": inv[k]["name"], "text": t}, m, b)
            continue
        worst = max(worst, m[2])
        if bool(m[0]) != bool(b):
            ctx.disagree(f"regular expression {inv[k]['name']} ({inv[k]['file']}:{inv[k]['line']}): the lowered model and re.fullmatch disagree on a text",
                         {"regex": inv[k]["name"], "pattern": inv[k]["pattern"], "text": t}, {"full_match": bool(m[0]), "paths": m[2]}, {"fullmatch": b})
    stats["regex-tie:max-paths-on-a-short-text"] = worst
    return len(flat_real)


def prompt_streams(ctx, stats, inv, thorough):
    """pumps derived from the inventory + generic runs + scale families; returns the number of scripts"""
    total = 0
    small = 28
    # (a) every repeat of every pattern, short run (an exponential shape needs no more), every continuation, places rotated / all
    ps = Q.pump_scripts(inv, small, positions=None if thorough else 2)
    res = timed(ps)
    check_prompt_stream(ctx, stats, "regex-pump-28", ps, res, remake=lambda m, k: remake_pump(m, k))
    total += len(ps)
    # (b) the same with long runs (polynomial blow-ups of higher degree); white-space runs stay below the guard of the listed finding
    for n in ((400, 1500, 6000) if thorough else (1200,)):
        seen, uniq = set(), []
        for meta, text in Q.pump_scripts(inv, n, positions=2 if thorough else 1):
            if blank_run(meta["line"]) > BLANK_GUARD:
                # the run is white space: outside the guard of F-C11-blank-run-cubic at this length - fed at the guard's length
                text = remake_pump(meta, BLANK_GUARD)
                line = resize_line(meta, BLANK_GUARD)
                if line is None or blank_run(text) > BLANK_GUARD:
                    stats["prompt:outside-guard (white-space run)"] += 1
                    continue
                meta = dict(meta, n=BLANK_GUARD, line=line)
                stats["prompt:white-space run cut to the guard"] += 1
            if text not in seen:
                seen.add(text)
                uniq.append((meta, text))
        res = timed(uniq)
        check_prompt_stream(ctx, stats, f"regex-pump-{n}", uniq, res, remake=lambda m, k: remake_pump(m, k))
        total += len(uniq)
    # (c) long runs that are not derived from any pattern, in every frame
    for n in ((40, 1500) if not thorough else (24, 40, 400, 1500, 6000)):
        rs = [(m, t) for m, t in Q.run_scripts(n) if blank_run(t) <= BLANK_GUARD]
        res = timed(rs)
        check_prompt_stream(ctx, stats, f"generic-run-{n}", rs, res, remake=lambda m, k: remake_run(m, k))
        total += len(rs)
    return total


def remake_pump(meta, k):
    line = resize_line(meta, k)
    if line is None:
        line = meta["line"]
    pos = dict(Q.LINE_POSITIONS).get(meta["position"])
    if pos is not None:
        return Q.PUMP_HEADER + pos.replace("{L}", line.strip() if meta["position"] != "top" else line).replace("{S}", line.strip())
    if "{A}" in meta["position"]:
        return Q.PUMP_HEADER + meta["position"].replace("{A}", line) + "\n"
    for tpl in Q.ARG_POSITIONS:
        if tpl.strip().split("{A}")[0] == meta["position"].split(meta["line"])[0]:
            return Q.PUMP_HEADER + tpl.replace("{A}", line)
    return Q.PUMP_HEADER + line + "\n"


def remake_run(meta, k):
    lab = meta["label"]           # "frame i x alphabet 'al'"
    fi = int(lab.split()[1])
    al = eval(lab.split("alphabet ", 1)[1])
    return Q.run_scripts(k, frames=[Q.RUN_FRAMES[fi]], alphabets=[al])[0][1]


def scale_stream(ctx, stats, thorough):
    fams = Q.scale_families()
    sizes = (250, 500, 1000, 2000) if not thorough else (250, 500, 1000, 2000, 4000, 8000)
    n_eval = 0
    cases = [(name, n, f(n)) for name, f in fams.items() for n in sizes]
    res = timed([({"family": name, "n": n}, t) for name, n, t in cases], limit=60, chunk=len(sizes) * 4)
    n_eval += len(cases)
    by = {}
    for (name, n, t), r in zip(cases, res):
        by.setdefault(name, []).append((n, r, t))
    for name, rows in by.items():
        for n, r, t in rows:
            if r["exc"] not in (None, "ValueError", "SyntaxError", "Timeout", "Skipped"):
                ctx.fail(f"transpiler raised {r['exc']} (neither ValueError nor SyntaxError) on a large script", {"kind": "scale", "family": name, "n": n, "text": t[:1500] + "...<cut>"},
                         "firmware source, ValueError or SyntaxError", r, key="exc-kind:" + str(r["exc"]))
        walls = [(n, 60.0 if r["exc"] == "Timeout" else r["wall"]) for n, r, _ in rows if r["exc"] != "Skipped"]
        exps = []
        for (n1, w1), (n2, w2) in zip(walls, walls[1:]):
            if w1 >= 0.05:
                import math
                exps.append(round(math.log(max(w2, 1e-3) / w1, 2), 2))
        last = walls[-1][1] if walls else 0
        stats[f"scale:{name}:exponent<=1.5" if (not exps or max(exps[-2:]) <= 1.5) else f"scale:{name}:exponent {max(exps[-2:])}"] += 1
        # a family is not prompt when its largest member needs more than SLOW_ABS seconds AND the time more than
        # quintuples per doubling over the last two doublings (worse than quadratic): confirmed alone in a new process
        if last > SLOW_ABS and len(exps) >= 2 and min(exps[-2:]) > 2.3:
            n, r, t = rows[len(walls) - 1]
            again = alone(t, 60)
            w2 = 60.0 if again["exc"] == "Timeout" else again["wall"]
            if w2 > SLOW_ABS:
                ctx.fail(f"transpile time grows faster than quadratically with the size of the script (family {name}): {walls}",
                         {"kind": "scale", "family": name, "n": n, "text": t[:1500] + "...<cut>"}, "time at most quadratic in the input, seconds at most",
                         {"series [size, seconds]": walls, "exponent per doubling": exps, "again alone": again}, key="scale:" + name)
    return n_eval


# --------------------------------------------------------------------------- 5. sessions
def _alone_many(texts):
    def one(t):
        return C.run_impl("c11_impl.py", {"cases": [["session", [t], False]], "limit": 30})[0][0]
    with concurrent.futures.ThreadPoolExecutor(max_workers=6) as ex:
        return list(ex.map(one, texts))


def first_diff(a, b):
    la, lb = (a or "").splitlines(), (b or "").splitlines()
    for i, (x, y) in enumerate(zip(la, lb)):
        if x != y:
            return {"line": i + 1, "alone": x.strip(), "in the session": y.strip()}
    return {"line": min(len(la), len(lb)) + 1, "alone": f"{len(la)} lines", "in the session": f"{len(lb)} lines"}


def session_stream(ctx, stats, rng, thorough):
    groups = Q.session_scripts(rng, 20 if thorough else 7, 18 if thorough else 7, 14 if thorough else 5)
    distinct, order = {}, []
    for lit, g in groups.items():
        for t in g["readers"] + g["mutators"]:
            if t not in distinct:
                distinct[t] = None
    texts = list(distinct)
    base = _alone_many(texts)
    for t, b in zip(texts, base):
        distinct[t] = b
        stats["session:alone:" + (b["exc"] or "accepted")] += 1
    # one process: readers of every literal, the mutators, the readers again, the mutators again (same text twice), readers
    readers = [t for g in groups.values() for t in g["readers"]]
    mutators = [t for g in groups.values() for t in g["mutators"]]
    m2 = list(mutators)
    rng.shuffle(m2)
    session = readers + mutators + readers + m2 + mutators[:len(mutators) // 2] + readers
    # names in other roles: every user DIRECTLY after every definer (anything in between could re-bind the name)
    roles = groups.get("<names in other roles>")
    if roles:
        for u in roles["readers"]:
            for d in roles["mutators"]:
                session += [d, u]
    # specially treated names (the builtins the evaluator folds, API names) bound by one script in every binding form; directly
    # after it scripts that fold those builtins in pins / delays / arguments / initialisers / conditions.  Only the scripts after
    # the binder are judged (the binder's own translation is that script's business; most are rejected)
    shadow = Q.shadow_scripts(rng, thorough)
    new_users = []
    for d, us in shadow:
        for u in us:
            if u not in distinct and u not in new_users:
                new_users.append(u)
    for t, b in zip(new_users, _alone_many(new_users)):
        distinct[t] = b
        stats["session:alone:" + (b["exc"] or "accepted")] += 1
    texts += new_users
    unjudged = set()
    for d, us in shadow:
        if d not in distinct:
            unjudged.add(d)
        session += [d] + us
    stats["session:binder scripts (specially treated names)"] = len(shadow)
    out = C.run_impl("c11_impl.py", {"cases": [["session", session, False]], "limit": 30}, timeout=3600)[0]
    n_eval = len(session) + len(texts)
    leaked = set()
    for i, (t, r) in enumerate(zip(session, out)):
        if t in unjudged:
            stats["session:binder:" + (r["exc"] or "accepted")] += 1
            if r["changed"]:
                stats["session:module-level object changed"] += 1
                ctx.disagree("a module-level object of the transpiler changed during parse()+emit() (the model of the process has no such object: memo_possible = false)",
                             {"script": t, "position in the session": i}, "no module-level object changes", r["changed"])
            if r["exc"] not in (None, "ValueError", "SyntaxError"):
                ctx.fail(f"transpiler raised {r['exc']} (neither ValueError nor SyntaxError)", {"kind": "script", "text": t}, "firmware source, ValueError or SyntaxError", r, key="exc-kind:" + str(r["exc"]))
            continue
        b = distinct[t]
        stats["session:in-process:" + (r["exc"] or "accepted")] += 1
        if r["changed"]:
            stats["session:module-level object changed"] += 1
            ctx.disagree("a module-level object of the transpiler changed during parse()+emit() (the model of the process has no such object: memo_possible = false)",
                         {"script": t, "position in the session": i}, "no module-level object changes", r["changed"])
        if (r["sha"], r["exc"]) == (b["sha"], b["exc"]):
            continue
        if t in leaked or len(leaked) >= 3:
            continue
        leaked.add(t)
        # which earlier script is responsible?  try every distinct predecessor alone before t, in a new process each
        preds = []
        for p in session[:i]:
            if p not in preds:
                preds.append(p)
        culprit = None
        for p in reversed(preds):
            two = C.run_impl("c11_impl.py", {"cases": [["session", [p, t], True]], "limit": 30})[0]
            if (two[1]["sha"], two[1]["exc"]) != (b["sha"], b["exc"]):
                culprit = (p, two)
                break
        if culprit:
            p, two = culprit
            ref = C.run_impl("c11_impl.py", {"cases": [["session", [t], True]], "limit": 30})[0][0]
            ctx.fail("transpiling one script changes what a later script of the same process is transpiled to (input-independent state mutated): "
                     "the second script alone gives another firmware / outcome than after the first",
                     {"kind": "session", "scripts in one process": [p, t]},
                     {"second script alone": {"sha": b["sha"], "exc": b["exc"]}},
                     {"second script after the first": {"sha": two[1]["sha"], "exc": two[1]["exc"]},
                      "first differing line of the firmware": first_diff(ref.get("cpp"), two[1].get("cpp")),
                      "module-level objects changed by the first script": two[0]["changed"]}, key="state-leak")
        else:
            ctx.fail("a script is transpiled differently inside a longer session of one process than alone (input-independent state mutated); no single earlier script reproduces it",
                     {"kind": "session", "scripts in one process": session[:i + 1]}, {"last script alone": b}, {"last script in the session": r}, key="state-leak")
    # the fragment Lang/FoldSession.v speaks about, through the extracted model
    n_model = 0
    for _ in range(60 if thorough else 12):
        texts_m, wire = Q.model_session(rng, rng.randint(2, 5))
        real = C.run_impl("c11_impl.py", {"cases": [["session", texts_m, True]], "limit": 30})[0]
        n_model += len(texts_m)
        if any(r["exc"] for r in real):
            ctx.disagree("a script of the model fragment (integer list, append / remove, len, flash_pattern) is not accepted", texts_m, "accepted", [r["exc"] for r in real])
            continue
        got = [Q.observed_folds(r["cpp"]) for r in real]
        if ctx.exes.get("C11x"):
            m = ctx.model([[101, wire]], unit="C11x")[0]
            want = [[[o[0], o[1]] if o[0] == 0 else [1, list(o[1])] for o in s if o[0] != 2] for s in m] if m != [2] else None
            if want != got:
                ctx.disagree("session of list scripts: folded len() values and flash_pattern() contents, model (Lang/FoldSession.v) vs firmware text", texts_m, want, got)
            else:
                stats["session-tie:equal"] += 1
    # the fragment Lang/NameSession.v speaks about, through the extracted model (mode = what the inventory of the current source allows)
    for _ in range(10 if thorough else 3):
        texts_m, wire = Q.name_session(rng, rng.randint(12, 20))
        real = C.run_impl("c11_impl.py", {"cases": [["session", texts_m, True]], "limit": 30})[0]
        n_model += len(texts_m)
        if any(r["exc"] for r in real):
            ctx.disagree("a script of the model fragment (top-level defs named len / str / helper, len of string literals) is not accepted", texts_m, "accepted", [r["exc"] for r in real])
            continue
        got = [Q.observed_name_folds(r["cpp"], w) for r, w in zip(real, wire)]
        if ctx.exes.get("C11x"):
            want = ctx.model([[105, wire]], unit="C11x")[0]
            want = [[list(o) for o in sc] for sc in want] if want != [2] else None
            if want != got:
                ctx.disagree("session of scripts defining functions named like foldable builtins: which len(<literal>) initialisers are folded, model (Lang/NameSession.v) vs firmware text", texts_m, want, got)
            else:
                stats["name-session-tie:equal"] += 1
                stats["name-session-tie:calls folded"] += sum(o[0] for sc in got for o in sc)
    return n_eval + n_model


# --------------------------------------------------------------------------- 5b. the user-facing entry point: target(upload=False)
TARGET_IMPORTS = ("from Reduino import target\nfrom Reduino.Core import pin_mode, digital_write, analog_read, OUTPUT\nfrom Reduino.Communication import SerialMonitor\n"
                  "from Reduino.Utils import sleep\nfrom Reduino.Actuators import Led, Buzzer, Servo, RGBLed, DCMotor\nfrom Reduino.Displays import LCD\n"
                  "from Reduino.Sensors import Ultrasonic, Button, Potentiometer\n")
TARGET_CALLS = ["target(\"COM3\", upload=False)\n", "target(\"/dev/ttyUSB0\", upload=False, platform=\"atmelavr\", board=\"uno\")\n", "target(\"COM3\")\n", ""]
# bodies that need an external library (Servo; LCD over parallel pins; LCD over I2C) - declared only, used, in every block position -
# and bodies that need none; the property quantifies over all of them
LIB_BODIES = [
    "sv = Servo(9)\n", "sv = Servo(9)\nsv.write(90)\n", "sv = Servo(9, min_angle=10, max_angle=170)\nwhile True:\n    sv.write(45)\n    sleep(500)\n", "sv = Servo(pin=10)\nsv2 = Servo(11)\nsv2.write(0)\n",
    "lcd = LCD(rs=12, en=11, d4=5, d5=4, d6=3, d7=2)\n", "lcd = LCD(rs=12, en=11, d4=5, d5=4, d6=3, d7=2)\nlcd.write(0, 0, \"hi\")\n", "lcd = LCD(i2c_addr=0x27)\n", "lcd = LCD(i2c_addr=0x3F, cols=20, rows=4)\nlcd.write(0, 1, \"x\")\n",
    "lcd = LCD(rs=12, en=11, d4=5, d5=4, d6=3, d7=2)\nlcd2 = LCD(i2c_addr=0x27)\n", "sv = Servo(9)\nlcd = LCD(i2c_addr=0x27)\nlcd3 = LCD(rs=12, en=11, d4=5, d5=4, d6=3, d7=2)\nsv.write(10)\nlcd.write(0, 0, \"a\")\n",
    "led = Led(13)\nsv = Servo(9)\nwhile True:\n    led.toggle()\n    sleep(100)\n", "n = analog_read(\"A0\")\nif n > 100:\n    sv = Servo(9)\n    sv.write(90)\n", "def sweep():\n    sv = Servo(9)\n    sv.write(30)\nsweep()\n",
    "while True:\n    lcd = LCD(i2c_addr=0x27)\n    lcd.write(0, 0, \"t\")\n    sleep(1000)\n", "for i in range(2):\n    sv = Servo(9)\n    sv.write(i)\n", "try:\n    sv = Servo(9)\nexcept Exception:\n    led = Led(13)\n",
    "mon = SerialMonitor(9600)\nsv = Servo(9)\nmon.write(sv.read())\n", "lcd = LCD(rs=12, en=11, d4=5, d5=4, d6=3, d7=2, backlight_pin=10)\nlcd.backlight(True)\nlcd.progress(0, 50)\n",
]
PLAIN_BODIES = [
    "led = Led(13)\nled.on()\n", "bz = Buzzer(8)\nbz.play_tone(440, 100)\n", "btn = Button(2)\nled = Led(13)\nwhile True:\n    if btn.is_pressed():\n        led.toggle()\n    sleep(20)\n", "us = Ultrasonic(7, 8)\nmon = SerialMonitor(9600)\nmon.write(us.measure_distance())\n",
    "mo = DCMotor(3, 4, 5)\nmo.forward(100)\n", "rgb = RGBLed(9, 10, 11)\nrgb.set_color(1, 2, 3)\n", "mon = SerialMonitor(115200)\nmon.write(\"x\")\n", "pin_mode(7, OUTPUT)\ndigital_write(7, 1)\n", "", "x = 1\n",
    "sv = 5\nlcd = 7\n", "# sv = Servo(9)\nled = Led(3)\n", "s = \"Servo(9)\"\nmon = SerialMonitor(9600)\nmon.write(s)\n",
]
BAD_BODIES = ["led = Led(13\n", "sv = Servo(9)\nsv.write(\n", "sv = Servo(9)\nclass A:\n    pass\n", "lcd = LCD(i2c_addr=0x27, rs=1)\n", "sv = Servo(\"x\")\n", "lcd = LCD()\n", "int = 3\nsv = Servo(9)\n", "sv = Servo(9)\nsv.fly()\n"]


def target_stream(ctx, stats, rng, thorough, extra_scripts):
    """every script through Reduino.target("COM3", upload=False) - the call a user's script makes - once on a machine without
    PlatformIO and once with a `pio` on PATH that records being started: no process may be started, no network touched, and the
    call ends with the firmware text or ValueError / SyntaxError, as parse()+emit() on the same text do"""
    scratch = str(C.BUILD / "c11_target")
    shutil.rmtree(scratch, ignore_errors=True)
    texts = []
    for i, b in enumerate(LIB_BODIES):
        for j, tc in enumerate(TARGET_CALLS if thorough else [TARGET_CALLS[0], TARGET_CALLS[(i % 3) + 1]]):
            texts.append(("lib", TARGET_IMPORTS + tc + b))
    for i, b in enumerate(PLAIN_BODIES):
        texts.append(("plain", TARGET_IMPORTS + TARGET_CALLS[i % len(TARGET_CALLS)] + b))
    for i, b in enumerate(BAD_BODIES):
        texts.append(("rejected", TARGET_IMPORTS + TARGET_CALLS[0] + b))
    for t in extra_scripts:
        texts.append(("hostile", t))
    cases = [["target", t, pio, scratch] for _, t in texts for pio in ("absent", "fake")]
    out = C.run_impl("c11_impl.py", {"cases": cases, "limit": 30}, timeout=3600)
    k = 0
    for kind, t in texts:
        for pio in ("absent", "fake"):
            r = out[k]
            k += 1
            stats[f"target:{kind}:pio {pio}:" + (r["exc"] or "returned " + str(r["returned"]))] += 1
            case = {"kind": "target", "text": t, "pio": pio, "call": "Reduino.target(\"COM3\", upload=False) with the text as the __main__ file"}
            if r["proc"] or r["pio_ran"]:
                ctx.fail("target(upload=False) - transpile only - started an external process / touched the network" + (" (the `pio` on PATH was run: " + r["pio_ran"].strip() + ")" if r["pio_ran"] else ""),
                         case, "no process, no network access", {"audit events": r["proc"], "pio ran with": r["pio_ran"], "outcome": r["exc"] or "returned"}, key="target-process:" + (r["proc"][0][0] if r["proc"] else "pio"))
            if r.get("env"):
                ctx.fail("target(upload=False) read the process environment", case, "no environment access (REDUINO_VERIF and tempfile's TMPDIR / TEMP / TMP excepted)", r["env"], key="target-env:" + r["env"][0])
            if r["exc"] == "Timeout":
                ctx.fail("target(upload=False) did not terminate within the (generous) limit", case, "prompt termination", r, key="target-timeout")
            elif r["exc"] not in (None, "ValueError", "SyntaxError"):
                ctx.fail(f"target(upload=False) raised {r['exc']} (neither firmware source nor ValueError / SyntaxError)" + ("; parse()+emit() accept the text" if r["alone"] is None else ""),
                         case, "firmware source, ValueError or SyntaxError", r, key="target-exc:" + str(r["exc"]))
            elif r["exc"] is None and r["returned"] != "str":
                ctx.fail("target(upload=False) returned something that is not the firmware text", case, "str", r, key="target-return")
            elif (r["exc"] is None) != (r["alone"] is None):
                ctx.disagree("target(upload=False) and parse()+emit() disagree on whether the text is accepted", case, r["alone"] or "accepted", r["exc"] or "accepted")
    shutil.rmtree(scratch, ignore_errors=True)
    return len(cases)


# --------------------------------------------------------------------------- 6. pieces that refer to each other (function variants)
from harness import c11_variants as V   # noqa: E402

VAR_FLOOR = 0.005      # resolution of the measured wall time (rounded to ms): a baseline below it counts as this
VAR_RATIO = 5.0        # time ratio per doubling of the depth that is worse than quadratic
VAR_CLAMP = 0.02       # ratios are taken against max(previous, this) so that timer noise on tiny values cannot produce one


def variants_many(texts, limit=LIMIT, stop=3):
    return C.run_impl("c11_impl.py", {"cases": [["variants", t] for t in texts], "limit": limit, "stop_after_timeouts": stop}, timeout=7200)


def variants_alone(text, limit=LIMIT):
    return C.run_impl("c11_impl.py", {"cases": [["variants", text]], "limit": limit}, timeout=limit * 4 + 60)[0]


def duplicate_parses(parses):
    seen, dup = set(), []
    for name, sg in parses:
        if sg is None:
            continue
        k = (name, tuple(sg))
        if k in seen and k not in dup:
            dup.append(k)
        seen.add(k)
    return [[n, list(s)] for n, s in dup]


def variant_correspondence(ctx, stats, rng, n):
    """Lang/VariantCost.v vs the real parser: the sequence of _parse_function invocations (name, forced signature) of
    generated scripts of defs and calls; and the theorem's own statement (no (function, signature) parsed twice; at most
    defs + recorded signatures parses) evaluated on the recorded sequence"""
    progs = [V.chain_program(d, f, leaf, tail) for d in (1, 2, 3, 5, 8) for f in (1, 2, 3) for leaf in (3, 0, 1) for tail in (True, False)]
    progs += [V.gen_program(rng) for _ in range(n)]
    texts = [V.render(p) for p in progs]
    impl = variants_many(texts, limit=20)
    model = ctx.model([[102, 1, V.enc(p)] for p in progs], unit="C11x") if ctx.exes.get("C11x") else [None] * len(progs)
    for p, t, r, m in zip(progs, texts, impl, model):
        case = {"kind": "variant-program", "text": t}
        stats["variants-tie:" + (r["exc"] or "accepted")] += 1
        if r["exc"] == "Skipped":
            continue
        if r["exc"] not in (None, "ValueError", "SyntaxError", "Timeout"):
            ctx.fail(f"transpiler raised {r['exc']} (neither ValueError nor SyntaxError)", case, "firmware source, ValueError or SyntaxError", {k: r[k] for k in ("exc", "msg")}, key="exc-kind:" + str(r["exc"]))
        if r["audit"]:
            ctx.fail("transpiling performed a file / process / import / exec access (audit event)", case, "no audit event", r["audit"], key="audit:" + r["audit"][0][0])
        dup = duplicate_parses(r["parses"])
        if dup:
            ctx.disagree("the real parser parsed the body of a function twice for the same call signature (C11_variant_parsed_once holds of the model: the memo in front of _parse_function is not the model's)",
                         case, "every (function, forced signature) at most once", {"parsed more than once": dup[:5], "body parses": r["n_parses"]})
        n_defs = sum(1 for it in p if it[0] == "def")
        stats["variants-tie:body parses per def <= 2" if r["n_parses"] <= 2 * n_defs else "variants-tie:body parses per def > 2"] += 1
        if m is None or r["exc"] is not None:
            continue
        if m == [2]:
            ctx.disagree("wire: the variant program could not be decoded", case, m, None)
            continue
        oof, mt = V.dec_trace(m)
        if oof:
            stats["variants-tie:model out of fuel / arity"] += 1
            continue
        it = V.impl_trace(r["parses"])
        if it != mt:
            ctx.disagree("_parse_function invocations (function, forced signature) in order: model (Lang/VariantCost.v) vs the wrapper around the real _parse_function",
                         case, mt, it if it is not None else r["parses"][:60])
        else:
            stats["variants-tie:trace-equal"] += 1
            stats["variants-tie:forced parses"] += sum(1 for e in mt if e[1] is not None)
    return len(progs)


def variant_families(ctx, stats, thorough):
    """time oracle over scripts whose helpers call each other; the depth doubles.  A family is NOT PROMPT at depth n when the
    time more than quintuples over each of the last two doublings (worse than quadratic; a healthy transpiler doubles) AND
    exceeds the budget SLOW_REL x (the family's own time at the smallest depth - at most the median family's, at least VAR_FLOOR) x n / n0 - twice, the
    second time alone in a new process.  No absolute number of seconds decides."""
    fams = V.families()
    sizes = (3, 6, 12, 24) if not thorough else (3, 6, 12, 24, 48, 96)
    n0 = sizes[0]
    series = {name: [] for name in fams}
    live = list(fams)
    reported = 0
    n_eval = 0
    for n in sizes:
        if not live:
            break
        # baseline: the family's own time at the smallest depth, but not more than the median family at that depth (a
        # transpiler that is already slow at the smallest depth must not buy itself a larger budget)
        firsts = sorted(rows[0][1] for rows in series.values() if rows)
        med0 = firsts[len(firsts) // 2] if firsts else VAR_FLOOR
        base = {name: max(VAR_FLOOR, min(series[name][0][1], med0)) if series[name] else VAR_FLOOR for name in live}
        budget = {name: SLOW_REL * base[name] * n / n0 for name in live}
        limit = int(min(90, max(LIMIT, 1.5 * max(budget.values()))))
        texts = [fams[name](n) for name in live]
        res = variants_many(texts, limit=limit, stop=3)
        n_eval += len(texts)
        nxt = []
        for name, t, r in zip(live, texts, res):
            if r["exc"] == "Skipped":
                stats["prompt:call-graph:skipped-after-timeouts"] += 1
                continue
            w = float(limit) if r["exc"] == "Timeout" else r["wall"]
            series[name].append([n, w, r["n_parses"], r["n_blocks"], r["exc"]])
            case = {"kind": "call-graph", "family": name, "depth": n, "text": t}
            if r["exc"] not in (None, "ValueError", "SyntaxError", "Timeout"):
                ctx.fail(f"transpiler raised {r['exc']} (neither ValueError nor SyntaxError)", case, "firmware source, ValueError or SyntaxError", {k: r[k] for k in ("exc", "msg")}, key="exc-kind:" + str(r["exc"]))
            if r["audit"]:
                ctx.fail("transpiling performed a file / process / import / exec access (audit event)", case, "no audit event", r["audit"], key="audit:" + r["audit"][0][0])
            dup = duplicate_parses(r["parses"])
            if dup:
                stats["prompt:call-graph:a body parsed twice for one signature"] += 1
                if stats["prompt:call-graph:a body parsed twice for one signature"] <= 3:
                    ctx.disagree("the real parser parsed the body of a function twice for the same call signature (C11_variant_parsed_once holds of the model)",
                                 {"kind": "call-graph", "family": name, "depth": n, "text": t if len(t) < 4000 else t[:4000] + "...<cut>"},
                                 "every (function, forced signature) at most once", {"parsed more than once": dup[:5], "body parses": r["n_parses"]})
            rows = series[name]
            ratios = [round(b[1] / max(a[1], VAR_CLAMP), 2) for a, b in zip(rows, rows[1:])]
            slow = len(ratios) >= 2 and min(ratios[-2:]) > VAR_RATIO and w > budget[name]
            if slow and reported < 3:
                again = variants_alone(t, limit)
                w2 = float(limit) if again["exc"] == "Timeout" else again["wall"]
                if w2 > budget[name]:
                    reported += 1
                    lines = t.count("\n")
                    ctx.fail(f"transpiling does not terminate promptly: a {lines}-line script of {n + 1} helper functions calling each other (family {name}) takes "
                             f"{'more than ' if r['exc'] == 'Timeout' else ''}{w} s where depth {n0} takes {rows[0][1]} s; the time grows x{ratios[-2]}, x{ratios[-1]} per doubling of the depth "
                             f"(a linear transpiler doubles); again alone in a new process: {'more than ' if again['exc'] == 'Timeout' else ''}{w2} s",
                             case, f"at most {SLOW_REL} x the time at depth {n0} ({base[name]} s) x {n}/{n0} = {round(budget[name], 2)} s and a time ratio per doubling of at most {VAR_RATIO}",
                             {"series [depth, seconds, body parses (_parse_function), block parses (_parse_simple_lines), exception]": rows,
                              "time ratio per doubling": ratios, "again alone": {k: again[k] for k in ("exc", "wall", "n_parses", "n_blocks")}},
                             key="slow:call-graph")
                    continue
                stats["prompt:call-graph:slow-once-not-confirmed"] += 1
            if slow or r["exc"] == "Timeout":
                continue            # larger members would only run into the limit
            nxt.append(name)
        live = nxt
    for name, rows in series.items():
        ratios = [b[1] / max(a[1], VAR_CLAMP) for a, b in zip(rows, rows[1:])]
        stats["prompt:call-graph:" + ("ratio per doubling <= 5" if not ratios or max(ratios[-2:]) <= VAR_RATIO else f"ratio per doubling {round(max(ratios[-2:]), 1)}")] += 1
        if rows:
            stats["prompt:call-graph:body parses per helper at the largest depth <= 4" if rows[-1][2] <= 4 * (rows[-1][0] + 1) + 8 else "prompt:call-graph:body parses per helper at the largest depth > 4"] += 1
    stats["prompt:call-graph:families"] = len(fams)
    return n_eval
