"""C11 generators for the two clauses the expression streams do not reach:

* 'terminates promptly'  - pump strings derived from every regular expression of the inventory (harness/gen/regexes.py):
  for every unbounded repeat of every pattern, a line that reaches the repeat, feeds it a long run of characters of its
  set, and then continues with / is cut before / ends in something the rest of the pattern rejects - in every place a
  line can stand (top level, loop / if / def / try bodies, right-hand side of an assignment) and, for the patterns that
  are applied to an argument, in argument positions; plus scale families (many lines, long lines) measured by doubling.
* 'never mutates its input-independent state' - sessions: scripts that share literal texts, where some mutate what the
  literal folded to (append / remove / re-assignment / augmented assignment) and others read it (len, flash_pattern,
  glyph, index, loop bound), transpiled in one process in several orders and compared with the same script alone.
"""
from __future__ import annotations

import importlib.util
import re
from pathlib import Path

from harness import common as C

_spec = importlib.util.spec_from_file_location("c11_gen_regexes", C.VERIF / "harness" / "gen" / "regexes.py")
RX = importlib.util.module_from_spec(_spec)
_spec.loader.exec_module(RX)

MAXREPEAT = RX.sre_c.MAXREPEAT
PREFER = "a x0_/.\"(),=:-"


def load_inventory():
    return RX.inventory(C.REPO / "src" / "Reduino")


# --------------------------------------------------------------------------- strings from CPython's parse of a pattern
def members(op, av, flags):
    m, _ = RX.set_of(op, av, flags)
    return m


def pick(op, av, flags, avoid=""):
    m = members(op, av, flags)
    for ch in PREFER:
        if ord(ch) in m and ch not in avoid:
            return ch
    for c in sorted(m):
        if 32 < c < 127 and chr(c) not in avoid:
            return chr(c)
    return chr(min(m)) if m else ""


def repeats(items, path=()):
    """every unbounded repeat node, as a path of indices into the nested item lists"""
    out = []
    for i, (op, av) in enumerate(items):
        name = str(op)
        if name in ("MAX_REPEAT", "MIN_REPEAT"):
            lo, hi, body = av
            if hi == MAXREPEAT:
                out.append(path + (i,))
            out += repeats(list(body), path + (i,))
        elif name == "SUBPATTERN":
            out += repeats(list(av[3]), path + (i,))
        elif name == "BRANCH":
            for k, alt in enumerate(av[1]):
                out += repeats(list(alt), path + (i, ("alt", k)))
    return out


def render(items, flags, target=None, run="", stop=False):
    """a minimal text the items match; the repeat at path `target` is replaced by `run`.
    stop=True: cut the text right after the run (nothing of the rest of the pattern)."""
    out = []
    done = [False]

    def walk(items, path):
        for i, (op, av) in enumerate(items):
            if stop and done[0]:
                return
            name = str(op)
            here = path + (i,)
            on_path = target is not None and target[:len(here)] == here
            if name in ("LITERAL", "NOT_LITERAL", "ANY", "IN"):
                out.append(pick(op, av, flags))
            elif name in ("AT", "ASSERT", "ASSERT_NOT"):
                continue
            elif name in ("MAX_REPEAT", "MIN_REPEAT"):
                lo, hi, body = av
                if target == here:
                    out.append(run)
                    done[0] = True
                elif on_path:
                    for _ in range(max(lo, 1)):
                        walk(list(body), here)
                else:
                    for _ in range(lo):
                        walk(list(body), here)
            elif name == "SUBPATTERN":
                walk(list(av[3]), here)
            elif name == "BRANCH":
                k = 0
                if on_path and len(target) > len(here) and isinstance(target[len(here)], tuple):
                    k = target[len(here)][1]
                walk(list(av[1][k]), here + (("alt", k),))
            else:
                raise RX.Die(f"pump: construct {name}")
    walk(list(items), ())
    return "".join(out)


def node_at(items, path):
    cur = list(items)
    node = None
    for p in path:
        if isinstance(p, tuple):
            cur = list(node[1][1][p[1]])
            continue
        node = cur[p]
        name = str(node[0])
        if name in ("MAX_REPEAT", "MIN_REPEAT"):
            cur = list(node[1][2])
        elif name == "SUBPATTERN":
            cur = list(node[1][3])
    return node


def unit_choices(body, flags):
    """what one iteration of the repeat can be fed with: for a one-set body up to three characters of the set (a letter,
    a blank, a bracket - the overlaps with the neighbouring sets differ), for a group its minimal text and, when the
    group itself holds an unbounded repeat, one character of that inner set (the nested-quantifier pump)"""
    body = list(body)
    if len(body) == 1 and str(body[0][0]) in ("LITERAL", "NOT_LITERAL", "ANY", "IN"):
        m = members(body[0][0], body[0][1], flags)
        out = []
        for ch in ("a", " ", ")", "0", "/", ",", "\""):
            if ord(ch) in m and len(out) < 3:
                out.append(ch)
        return out or [pick(body[0][0], body[0][1], flags)]
    out = [render(body, flags)]
    for p in repeats(body):
        n = node_at(body, p)
        inner = list(n[1][2])
        if len(inner) == 1 and str(inner[0][0]) in ("LITERAL", "NOT_LITERAL", "ANY", "IN"):
            ch = pick(inner[0][0], inner[0][1], flags)
            if ch and ch not in out:
                out.append(ch)
    # every alternative of a branch on its own, and the characters two different items of the group both accept (the
    # ambiguity of (a|ab|b)* or (\w|_\w)* only shows on those)
    sets = []

    def scan(items):
        for op, av in items:
            name = str(op)
            if name in ("LITERAL", "NOT_LITERAL", "ANY", "IN"):
                sets.append(members(op, av, flags))
            elif name in ("MAX_REPEAT", "MIN_REPEAT"):
                scan(list(av[2]))
            elif name == "SUBPATTERN":
                scan(list(av[3]))
            elif name == "BRANCH":
                for alt in av[1]:
                    t = render(list(alt), flags)
                    if t and t not in out:
                        out.append(t)
                    scan(list(alt))
    scan(body)
    for ch in "_a0 .-/":
        if sum(1 for m in sets if ord(ch) in m) >= 2 and ch not in out:
            out.append(ch)
    return [u for u in out if u][:6]


SPOILERS = ["", "!", "(", "[0]", " + 1", "\x01"]


def pump_lines(entry, n):
    """[(label, line, (pre, unit, post))] for one inventory entry: every unbounded repeat x feed x continuation;
    line = pre + unit * (n // len(unit)) + post"""
    items, flags = list(entry["tree"]), entry["eflags"]
    out = []
    for path in repeats(items):
        node = node_at(items, path)
        for u in unit_choices(node[1][2], flags):
            reps = max(1, n // len(u))
            fpre, fpost = render(items, flags, path, "\x00").split("\x00", 1)
            cpre, cpost = render(items, flags, path, "\x00", stop=True).split("\x00", 1)
            for sp in SPOILERS:
                out.append((f"{entry['name']}@{'.'.join(str(p) for p in path)}:{u!r}:full+{sp!r}", (fpre, u, fpost + sp)))
                if sp:
                    out.append((f"{entry['name']}@{'.'.join(str(p) for p in path)}:{u!r}:cut+{sp!r}", (cpre, u, cpost + sp)))
    seen, res = set(), []
    for lab, (pre, u, post) in out:
        line = pre + u * max(1, n // len(u)) + post
        if line not in seen and "\n" not in line and "\r" not in line:
            seen.add(line)
            res.append((lab, line, (pre, u, post)))
    return res


# where a line can stand
LINE_POSITIONS = [
    ("top", "{L}\n"),
    ("loop", "while True:\n    {L}\n"),
    ("if", "n = 3\nif n > 1:\n    {L}\n"),
    ("def", "def f():\n    {L}\n    return 1\ny = f()\n"),
    ("for", "for i in range(3):\n    {L}\n"),
    ("try", "try:\n    {L}\nexcept Exception:\n    y = 0\n"),
    ("rhs", "h = {S}\n"),
    ("else", "n = 3\nif n > 1:\n    n = 2\nelse:\n    {L}\n"),
    # clause headers only meet their pattern in their structural context
    ("after-try", "try:\n    led.on()\n{L}\n    led.off()\n"),
    ("after-if", "n = 3\nif n > 1:\n    led.on()\n{L}\n    led.off()\n"),
    ("header", "{L}\n    led.on()\n"),
    ("after-try-in-loop", "while True:\n    try:\n        led.on()\n    {L}\n        led.off()\n"),
    ("after-if-in-def", "def f(n):\n    if n > 1:\n        led.on()\n    {L}\n        led.off()\n    return 1\ny = f(1)\n"),
]
N_PLAIN_POSITIONS = 8


def forced_positions(entry):
    """the structural contexts a pattern needs to be reached at all (decided from its text)"""
    pat = entry["pattern"]
    out = []
    if "except" in pat:
        out += ["after-try", "after-try-in-loop"]
    if "elif" in pat or "else" in pat:
        out += ["after-if", "after-if-in-def"]
    if pat.rstrip("$").rstrip().endswith((":\\s*", ":")):
        out.append("header")
    return out
# where an argument can stand (patterns applied to a piece of a line: pin names, identifiers)
ARG_POSITIONS = ["led = Led({A})\n", "x = analog_read({A})\n", "pin_mode({A}, OUTPUT)\n", "digital_write({A}, 1)\n", "btn = Button({A})\n",
                 "pot = Potentiometer({A})\n", "sv = Servo({A})\n", "us = Ultrasonic({A}, 8)\n", "bz = Buzzer({A})\n", "target({A})\n",
                 "target(\"{A}\")\n", "h = target({A})\n", "mo = DCMotor({A}, 4, 5)\n", "rgb = RGBLed({A}, 10, 11)\n",
                 "pin_mode(\"{A}\", OUTPUT)\n", "x = analog_read(\"{A}\")\n", "digital_write(\"{A}\", 1)\n", "led2 = Led(\"{A}\")\n", "y = digital_read(\"{A}\")\n",
                 "analog_write(\"{A}\", 10)\n"]

PUMP_HEADER = ("from Reduino import target\nfrom Reduino.Actuators import Led\nfrom Reduino.Utils import sleep\nfrom Reduino.Core import pin_mode, digital_write, analog_write, digital_read, analog_read, OUTPUT, INPUT\n"
               "from Reduino.Communication import SerialMonitor\nled = Led(13)\nmon = SerialMonitor(9600)\nxs = [1, 2]\n")


def pump_scripts(inv, n, positions=None, only=None):
    """[(meta, script text)]; meta = {regex, label, position, n, line}"""
    out = []
    for k, e in enumerate(inv):
        if only is not None and e["name"] not in only:
            continue
        lines = pump_lines(e, n)
        applied_to_line = e["module_level"] and e["name"].startswith("RE_")
        for j, (lab, line, parts) in enumerate(lines):
            if applied_to_line:
                pos = LINE_POSITIONS if positions is None else [LINE_POSITIONS[0]] + [LINE_POSITIONS[1 + (k + j + q) % (N_PLAIN_POSITIONS - 1)] for q in range(positions - 1)]
                if positions is not None:
                    pos = pos + [p for p in LINE_POSITIONS if p[0] in forced_positions(e) and p not in pos]
                for pname, tpl in pos:
                    body = tpl.replace("{L}", line.strip() if pname != "top" else line).replace("{S}", line.strip())
                    out.append(({"regex": e["name"], "label": lab, "position": pname, "n": n, "line": line, "parts": parts}, PUMP_HEADER + body))
            else:
                pos = ARG_POSITIONS if positions is None else [ARG_POSITIONS[(k + j + q) % len(ARG_POSITIONS)] for q in range(max(2, positions))]
                for tpl in pos:
                    out.append(({"regex": e["name"], "label": lab, "position": tpl.strip(), "n": n, "line": line, "parts": parts}, PUMP_HEADER + tpl.replace("{A}", line)))
    return out


# long runs that are not derived from a pattern: identifiers, digits, dots, brackets, quotes, operators - as the argument of
# every call-like statement and on both sides of an assignment (the class of C11-r1 whatever pattern is responsible)
RUN_ALPHABETS = ["a", "serial_port_", "9", "a.", "a_1", "(", "[", "((", "\"", "'", "a,", "a, ", " ", "\t", "-", "a-", "a/", "~", "\\", ":", "a:", "#", "=", "a=", ".", "a(", "f(", ")"]
RUN_FRAMES = ["target({R}())\n", "h = target({R}[0])\n", "target({R} + \"1\")\n", "target({R}\n", "target(port={R}())\n", "target('{R}', upload=False)\n",
              "sleep({R})\n", "sleep({R}())\n", "{R} = 1\n", "x = {R}\n", "x = {R}()\n", "{R}\n", "{R}.on()\n", "led.{R}()\n", "led.blink({R})\n",
              "led = Led({R})\n", "mon.write({R})\n", "mon.write(\"{R}\")\n", "mon.write(f\"{{{R}}}\")\n", "if {R}:\n    led.on()\n", "while {R}:\n    led.on()\n",
              "for {R} in range(3):\n    led.on()\n", "for i in range({R}):\n    led.on()\n", "def {R}():\n    return 1\n", "def f({R}):\n    return 1\n",
              "try:\n    led.on()\nexcept {R}:\n    led.off()\n", "try:\n    led.on()\nexcept Exception as {R}:\n    led.off()\n",
              "from Reduino.Actuators import {R}\n", "import {R}\n", "xs.append({R})\n", "x = xs[{R}]\n", "x = [{R}]\n", "x = len({R})\n",
              "lcd = LCD({R})\n", "us = Ultrasonic({R})\n", "x, y = {R}\n", "x += {R}\n", "# {R}\n", "led.on()  # {R}\n", "return {R}\n", "@{R}\ndef f():\n    return 1\n"]


def run_scripts(n, frames=None, alphabets=None):
    out = []
    for fi, fr in enumerate(frames or RUN_FRAMES):
        for ai, al in enumerate(alphabets or RUN_ALPHABETS):
            run = (al * (n // len(al) + 1))[:n]
            out.append(({"regex": "<none: generic run>", "label": f"frame {fi} x alphabet {al!r}", "position": fr.strip(), "n": n, "line": fr.replace("{R}", run).strip()},
                        PUMP_HEADER + fr.replace("{R}", run)))
    return out


# --------------------------------------------------------------------------- scale families (doubling)
def scale_families():
    """name -> function n -> script text; the size of the interesting part doubles"""
    H = PUMP_HEADER
    return {
        "many-assignments": lambda n: H + "".join(f"v{i} = {i}\n" for i in range(n)),
        "many-led-calls": lambda n: H + "led.on()\nled.off()\n" * (n // 2),
        "many-sleeps-in-loop": lambda n: H + "while True:\n" + "    led.toggle()\n    sleep(10)\n" * (n // 2),
        "chained-assignments": lambda n: H + "a0 = 1\n" + "".join(f"a{i + 1} = a{i} + 1\n" for i in range(n)),
        "many-ifs": lambda n: H + "n = 3\n" + "if n > 1:\n    led.on()\nelse:\n    led.off()\n" * (n // 4),
        "nested-ifs": lambda n: H + "n = 3\n" + "".join("    " * i + "if n > 1:\n" for i in range(min(n, 90))) + "    " * min(n, 90) + "led.on()\n",
        "many-functions": lambda n: H + "".join(f"def f{i}(a):\n    return a + {i}\n" for i in range(n // 2)) + "y = f0(1)\n",
        "many-lists": lambda n: H + "".join(f"l{i} = [1, 2, 3]\nl{i}.append({i})\n" for i in range(n // 2)),
        "long-list-literal": lambda n: H + "big = [" + ", ".join(str(i % 7) for i in range(n)) + "]\nm = len(big)\n",
        "long-string-literal": lambda n: H + "s = \"" + "ab " * (n // 3) + "\"\nmon.write(s)\n",
        "long-call-arguments": lambda n: H + "def g(*a):\n    return 1\ny = g(" + ", ".join("1" for _ in range(n)) + ")\n",
        "long-sum": lambda n: H + "y = " + " + ".join(["n0"] * min(n, 120)) + "\n",
        "many-comments": lambda n: H + "# note\n" * n + "led.on()\n",
        "long-comment": lambda n: H + "led.on()  # " + "x " * n + "\n",
        "many-blank-lines": lambda n: H + "\n" * n + "led.on()\n",
        "long-blank-line": lambda n: H + " " * n + "\nled.on()\n",
        "trailing-blanks": lambda n: H + "led.on()" + " " * n + "\n",
        "many-serial-writes": lambda n: H + "".join(f"mon.write(\"line {i}\")\n" for i in range(n)),
        "many-flash-patterns": lambda n: H + "p = [1, 0, 1]\n" + "led.flash_pattern(p, 10)\n" * n,
        "many-appends": lambda n: H + "p = [1]\n" + "p.append(1)\n" * n + "m = len(p)\n",
        "long-fstring": lambda n: H + "v = 1\nmon.write(f\"" + "{v} " * min(n, 2000) + "\")\n",
        "many-targets": lambda n: H + "target(\"COM3\")\n" * n,
        "crlf": lambda n: (H + "led.on()\nled.off()\n" * (n // 2)).replace("\n", "\r\n"),
    }


# --------------------------------------------------------------------------- sessions
LITERALS = ["[1, 0, 1]", "[1, 1, 1, 0]", "[3]", "[]", "[0, 0]", "[1, 0, 1, 0, 1, 0, 1, 1]", "[250, 100]", "[1,0,1]", "[1.5, 2]", "[True, False]",
            "[2 + 1, 4]", "[1, 2] + [3]", "[0] * 3", "(1, 0, 1)", "\"ab\"", "\"ab\" + \"c\"", "7", "2 ** 5", "3.5", "[[1, 2], [3]]"]
MUTATORS = ["{v}.append(0)\n{v}.append(1)\n", "{v}.append(7)\n", "{v}.remove(1)\n", "{v}.append(2)\n{v}.remove(2)\n{v}.append(9)\n",
            "{v} = {v} + [5]\n", "{v} += [4]\n", "{v}[0] = 9\n", "{v} = [9, 9]\n", "{v}.append({v}[0])\n",
            "if n > 1:\n    {v}.append(4)\n", "while n < 5:\n    {v}.append(6)\n    n = n + 1\n", "for i in range(2):\n    {v}.append(i)\n",
            "def grow():\n    {v}.append(3)\ngrow()\n", "{v} = {v} * 2\n", "{v}.append(len({v}))\n", "w2 = {v}\nw2.append(8)\n", "{v} = 5\n", "{v} += 1\n"]
READERS = ["m = len({v})\nmon.write(m)\n", "led.flash_pattern({v}, 100)\n", "led.flash_pattern({v})\n", "mon.write({v}[0])\n", "for i in range(len({v})):\n    led.toggle()\n",
           "m = len({v}) + 1\nsleep(m)\n", "lcd.glyph(0, {v})\n", "mon.write({v})\n", "sleep({v})\n", "k = {v}\nmon.write(len(k))\n",
           "if len({v}) > 3:\n    led.on()\n", "led.blink(len({v}), 2)\n", "mon.write(f\"{len({v})}\")\n", "q = max({v})\nmon.write(q)\n"]
SESSION_HEADER = ("from Reduino.Actuators import Led\nfrom Reduino.Communication import SerialMonitor\nfrom Reduino.Utils import sleep\nfrom Reduino.Displays import LCD\n"
                  "led = Led(13)\nmon = SerialMonitor(9600)\nlcd = LCD(rs=12, en=11, d4=5, d5=4, d6=3, d7=2)\nn = 3\n")
NAMES = ["steps", "xs", "p", "data"]


def session_scripts(rng, n_lit, n_mut, n_read):
    """{literal text: {"readers": [...], "mutators": [...]}} - scripts that start from the same literal text"""
    out = {}
    lits = LITERALS[:6] + rng.sample(LITERALS[6:], max(0, n_lit - 6)) if n_lit < len(LITERALS) else list(LITERALS)
    for li, lit in enumerate(lits):
        v = NAMES[li % len(NAMES)]
        rd = READERS if n_read >= len(READERS) else READERS[:3] + rng.sample(READERS[3:], n_read - 3)
        mu = MUTATORS if n_mut >= len(MUTATORS) else MUTATORS[:4] + rng.sample(MUTATORS[4:], n_mut - 4)
        readers = [SESSION_HEADER + f"{v} = {lit}\n" + r.replace("{v}", v) for r in rd]
        mutators = []
        for mi, m in enumerate(mu):
            r = rd[mi % len(rd)]
            # the mutating script may use another variable name: the literal text is what is shared
            v2 = v if mi % 3 else NAMES[(li + 1) % len(NAMES)]
            mutators.append(SESSION_HEADER + f"{v2} = {lit}\n" + m.replace("{v}", v2) + r.replace("{v}", v2))
        out[lit] = {"readers": readers, "mutators": mutators}
    # names in other roles: a script that binds a name to a constant, and scripts that use the same name without binding it
    # that way (function parameter, loop variable, tuple target, sensor value, or not bound at all) - whatever the second
    # kind is transpiled to alone, it must be transpiled to the same after the first
    definers, users = [], []
    role_names = ["k", "steps", "a"] if n_lit < len(LITERALS) else ["k", "steps", "a", "i", "xs", "data"]
    for v in role_names:
        for val in ("7", "[1, 0, 1]", "\"ab\"", "2.5", "True"):
            definers.append(SESSION_HEADER + f"{v} = {val}\nmon.write({v})\n")
        for u in ("def f({v}):\n    return {v} + 1\ny = f(2)\nmon.write(y)\n", "for {v} in range(3):\n    mon.write({v})\n", "{v}, w = 4, 5\nmon.write({v} + w)\n",
                  "sleep({v})\n", "mon.write({v})\n", "led.blink({v}, 2)\n", "m = len({v})\nmon.write(m)\n", "led.flash_pattern({v})\n", "y = {v} + 1\nmon.write(y)\n",
                  "if {v} > 1:\n    led.on()\n", "while {v} < 3:\n    led.toggle()\n", "{v} += 1\nmon.write({v})\n", "def g():\n    return {v}\nmon.write(g())\n",
                  "{v} = analog_read(\"A0\")\nmon.write({v} + 1)\n", "led2 = Led({v})\n", "mon.write(f\"{{v}}\")\n", "ys = [{v}, 1]\nmon.write(len(ys))\n"):
            users.append(SESSION_HEADER.replace("from Reduino.Displays import LCD\n", "from Reduino.Displays import LCD\nfrom Reduino.Core import analog_read\n") + u.replace("{v}", v))
    out["<names in other roles>"] = {"readers": users, "mutators": definers}
    return out


# names the transpiler treats specially, bound by a script in every way Python binds a name: the builtins the constant evaluator
# folds (its whitelist of name references), and names of the Reduino API.  Whatever such a script is transpiled to (most are
# rejected: the identifier is reserved in C++), the next script of the same process must not notice.
FOLDED_BUILTINS = {
    "len": ["len(\"abc\")", "len([1, 2, 3])"], "abs": ["abs(-5)", "abs(-2.5)"], "max": ["max(100, 250)", "max(3, 7, 5)"], "min": ["min(255, 300)", "min(9, 4)"],
    "int": ["int(\"13\")", "int(2.75)"], "float": ["float(\"2.5\")", "float(3)"], "bool": ["bool(2)", "bool(0)"], "str": ["str(12)", "str(2.5)"],
}
API_NAMES = ["sleep", "range", "Led", "LCD", "SerialMonitor", "print", "target", "led", "mon", "Servo", "map", "millis", "OUTPUT", "pin_mode"]
BINDERS = [
    "def {b}(a):\n    return a\ny = {b}(3)\nmon.write(y)\n", "def {b}(a, c):\n    return a\n", "def {b}():\n    return 1\nwhile True:\n    mon.write({b}())\n    sleep(100)\n",
    "{b} = 5\nmon.write({b})\n", "{b} = analog_read(\"A0\")\nmon.write({b})\n", "for {b} in range(3):\n    mon.write({b})\n", "def f({b}):\n    return {b} + 1\nmon.write(f(2))\n",
    "{b}, w = 1, 2\nmon.write(w)\n", "def g():\n    global {b}\n    {b} = 4\ng()\n", "import math as {b}\n", "from math import floor as {b}\n", "class {b}:\n    pass\n",
    "try:\n    {b} = 1\nexcept Exception:\n    {b} = 2\n", "{b} += 1\n", "del {b}\n", "if n > 1:\n    def {b}(a):\n        return a\n", "def outer():\n    def {b}(a):\n        return a\n    return {b}(1)\nmon.write(outer())\n",
    "{b} = [1, 2]\n{b}.append(3)\nmon.write(len({b}))\n", "{b} = lambda a: a\n", "def f(a, {b}=2):\n    return a\nmon.write(f(1))\n", "with open(\"x\") as {b}:\n    pass\n", "@{b}\ndef h():\n    return 1\nmon.write(h())\n",
]
FOLD_USES = ["p = {c}\nmon.write(p)\n", "mon.write({c})\n", "mon.write(f\"v{{c}}\")\n", "ys = [{c}, 1]\nmon.write(len(ys))\n", "if {c}:\n    led.on()\n", "def h():\n    return {c}\nmon.write(h())\n",
             "while True:\n    mon.write({c})\n    sleep(50)\n", "lcd.write(0, 0, {c})\n"]
FOLD_USES_NUM = ["sleep({c})\n", "led.set_brightness({c})\n", "led2 = Led({c})\n", "led.blink({c}, 2)\n", "for i in range({c}):\n    led.toggle()\n", "k = 0\nwhile k < {c}:\n    k = k + 1\n",
                 "q = {c} + 1\nsleep(q)\n", "led.flash_pattern([1, 0], {c})\n"]
SHADOW_HEADER = SESSION_HEADER.replace("from Reduino.Displays import LCD\n", "from Reduino.Displays import LCD\nfrom Reduino.Core import analog_read\n")


def shadow_scripts(rng, thorough):
    """[(definer, [user, ...]), ...]: a script that binds a specially treated name, and the scripts transpiled directly after it"""
    def all_uses(calls, numeric):
        body = "".join(u.replace("{c}", c) for c in calls for u in FOLD_USES[:4] + (FOLD_USES_NUM[:2] if numeric else []))
        return SHADOW_HEADER + body + "while True:\n" + "".join(f"    mon.write({c})\n" for c in calls) + "    sleep(50)\n"
    users = {}
    for b, calls in FOLDED_BUILTINS.items():
        numeric = b not in ("str",)
        us = [all_uses(calls, numeric)]
        uses = FOLD_USES + (FOLD_USES_NUM if numeric else [])
        if thorough:
            us += [SHADOW_HEADER + u.replace("{c}", c) for c in calls for u in uses]
        else:
            us += [SHADOW_HEADER + u.replace("{c}", rng.choice(calls)) for u in rng.sample(uses, 3)]
        users[b] = us
    fold_all = all_uses([c[0] for c in FOLDED_BUILTINS.values()], False) + ""
    fold_all = SHADOW_HEADER + "".join(f"v{i} = {c[i % 2]}\nmon.write(v{i})\n" for i, c in enumerate(FOLDED_BUILTINS.values())) + "led2 = Led(int(\"12\"))\nsleep(max(100, 250))\nled.set_brightness(min(255, 300))\n" \
        "while True:\n    sleep(abs(-20))\n    mon.write(len(\"abcd\"))\n    mon.write(str(7))\n    for i in range(3):\n        led.toggle()\n    if bool(1):\n        mon.write(float(2))\n"
    out = []
    for b in FOLDED_BUILTINS:
        forms = BINDERS if thorough else BINDERS[:9] + rng.sample(BINDERS[9:], 4)
        for d in forms:
            out.append((SHADOW_HEADER + d.replace("{b}", b), users[b] + [fold_all]))
    for b in API_NAMES:
        forms = BINDERS if thorough else BINDERS[:2] + [BINDERS[3]] + rng.sample(BINDERS[4:], 2)
        for d in forms:
            out.append((SHADOW_HEADER + d.replace("{b}", b), [fold_all]))
    return out


# the fragment of the sessions the Gallina model (Lang/FoldSession.v) speaks about: integer list displays, append / remove,
# len and flash_pattern
def model_session(rng, k):
    """a random session of k scripts as (python texts, wire form)"""
    lits = [[1, 0, 1], [1, 1], [0], [1, 0, 1, 0], [2, 3, 2]]
    texts, wire = [], []
    for _ in range(k):
        lit = rng.choice(lits[:3] if rng.random() < 0.7 else lits)
        v = rng.choice(["steps", "xs"])
        lines = [f"{v} = [{', '.join(str(x) for x in lit)}]"]
        w = [[0, v, list(lit)]]
        cur = list(lit)
        for _ in range(rng.randint(0, 4)):
            r = rng.random()
            if r < 0.45:
                x = rng.choice([0, 1, 2])
                lines.append(f"{v}.append({x})")
                w.append([1, v, x])
                cur.append(x)
            elif r < 0.6 and cur:
                x = rng.choice(cur)
                if len(cur) > 1:
                    lines.append(f"{v}.remove({x})")
                    w.append([2, v, x])
                    cur.remove(x)
            elif r < 0.8:
                lines.append(f"m = len({v})\nmon.write(m)")
                w.append([3, v])
            else:
                lines.append(f"led.flash_pattern({v}, 50)")
                w.append([4, v])
        lines.append(f"m2 = len({v})\nmon.write(m2)")
        w.append([3, v])
        lines.append(f"led.flash_pattern({v}, 100)")
        w.append([4, v])
        texts.append(SESSION_HEADER + "\n".join(lines) + "\n")
        wire.append(w)
    return texts, wire


# the fragment Lang/NameSession.v speaks about: top-level defs named like / unlike the foldable builtins, calls of len on string literals
def name_session(rng, k):
    texts, wire = [], []
    for _ in range(k):
        lines, w, j = [], [], 0
        for _ in range(rng.randint(1, 5)):
            r = rng.random()
            if r < 0.4:
                f = rng.choice(["len", "len", "str", "helper"])
                lines.append(rng.choice([f"def {f}(a):\n    return a", f"def {f}(a, b):\n    return a", f"def {f}():\n    return 1"]))
                w.append([0, f])
            else:
                n = rng.randint(1, 6)
                lines.append(f"m{j} = len(\"{'abcdef'[:n]}\")\nmon.write(m{j})")
                w.append([1, "len", n])
                j += 1
        texts.append(SESSION_HEADER + "\n".join(lines) + "\n")
        wire.append(w)
    return texts, wire


def observed_name_folds(cpp, wire_script):
    """per call of the script [folded?, lit]: folded = the global is declared with the literal as its initialiser"""
    out, j = [], 0
    for st in wire_script:
        if st[0] == 1:
            out.append([1 if re.search(r"(?m)^int m%d = %d;" % (j, st[2]), cpp) else 0, st[2]])
            j += 1
    return out


def observed_folds(cpp):
    """the folded observations of a model-fragment script, read off the firmware text: `m = 3;` / `m2 = 5;` initialisers and
    `__redu_pattern[] = {1, 0, 1}` arrays, in order of appearance"""
    out = []
    for m in re.finditer(r"(?m)^[ \t]+m2? = (\d+);|__redu_pattern\[\] = \{([^}]*)\}", cpp):
        if m.group(1) is not None:
            out.append([0, int(m.group(1))])
        else:
            out.append([1, [int(x) for x in m.group(2).replace(" ", "").split(",") if x]])
    return out
