"""C11 'terminates promptly' beyond one line: scripts whose PIECES REFER TO EACH OTHER (user functions calling user
functions), where the work of the transpiler is decided by how often a piece is parsed again, not by its length.

* fragment programs (Lang/VariantCost.v): defs `def hK(p0, ..): return t1 + .. + tn` (terms: parameters, literals of the
  four type labels, calls with parameters / literals as arguments - to earlier, later and the same function) and
  top-level calls with literal arguments; rendered to Python and encoded for the extracted model; the real parser's
  sequence of _parse_function invocations (recorded by a wrapper) must equal the model's.
* depth families for the time oracle (a wider class than the fragment): call chains x fan-out x what happens to the
  parameter (promoted to String / float / untouched, annotated, several parameters, calls in conditions / loops /
  arguments / nested calls, recursion, mutual recursion, forward calls, redefinition) - the depth doubles.
"""
from __future__ import annotations

LIT = {0: "7", 1: "2.5", 2: "True", 3: "\";\""}
LABEL = {"int": 0, "float": 1, "bool": 2, "String": 3}
HEAD = "from Reduino.Communication import SerialMonitor\nfrom Reduino.Actuators import Led\nfrom Reduino.Utils import sleep\nmon = SerialMonitor(9600)\nled = Led(13)\n"


# --------------------------------------------------------------------------- the model's fragment
def gen_program(rng, n_fn=None, style=None):
    """items: ("def", name, arity, [term]) | ("call", name, [ty]);  term: ("p", i) | ("l", ty) | ("c", f, [arg]);  arg: ("p", i) | ("l", ty)"""
    n = n_fn or rng.randint(1, 7)
    style = style or rng.choice(["chain", "dag", "dag", "any", "any", "promote"])
    arity = [rng.choice([1, 1, 1, 2, 2, 3]) if style != "chain" else 1 for _ in range(n)]
    tys = [0, 0, 1, 2, 3] if style != "promote" else [0, 3, 3, 1]
    items = []
    for k in range(n):
        terms = []
        n_terms = rng.randint(1, 5)
        for _ in range(n_terms):
            r = rng.random()
            if r < 0.45 and (k > 0 or style == "any"):
                if style == "chain":
                    f = k - 1
                elif style in ("dag", "promote"):
                    f = rng.randrange(0, k)
                else:
                    f = rng.choice([rng.randrange(0, k) if k else 0, rng.randrange(0, k) if k else 0, k, rng.randrange(0, n)])
                args = [("p", rng.randrange(arity[k])) if rng.random() < 0.7 else ("l", rng.choice(tys)) for _ in range(arity[f])]
                terms.append(("c", f, args))
            elif r < 0.75:
                terms.append(("p", rng.randrange(arity[k])))
            else:
                terms.append(("l", rng.choice(tys)))
        items.append(("def", k, arity[k], terms))
        # top-level calls between the defs (also of functions that are not defined yet)
        for _ in range(rng.choice([0, 0, 1, 2])):
            f = rng.randrange(0, n) if style == "any" and rng.random() < 0.25 else rng.randrange(0, k + 1)
            items.append(("call", f, [rng.choice(tys) for _ in range(arity[f])]))
    for _ in range(rng.randint(1, 4)):
        f = rng.randrange(0, n)
        items.append(("call", f, [rng.choice(tys) for _ in range(arity[f])]))
    return items


def chain_program(depth, fan, leaf_lit=3, tail=True):
    items = [("def", 0, 1, [("p", 0), ("l", leaf_lit)])]
    for k in range(1, depth + 1):
        items.append(("def", k, 1, [("c", k - 1, [("p", 0)])] * fan + ([("p", 0)] if tail else [])))
    items.append(("call", depth, [0]))
    return items


def render_term(t):
    if t[0] == "p":
        return f"p{t[1]}"
    if t[0] == "l":
        return LIT[t[1]]
    return f"h{t[1]}(" + ", ".join(f"p{a[1]}" if a[0] == "p" else LIT[a[1]] for a in t[2]) + ")"


def render(items, head=HEAD):
    out = [head]
    k = 0
    for it in items:
        if it[0] == "def":
            out.append(f"def h{it[1]}(" + ", ".join(f"p{i}" for i in range(it[2])) + "):\n    return " + " + ".join(render_term(t) for t in it[3]) + "\n")
        else:
            out.append(f"y{k} = h{it[1]}(" + ", ".join(LIT[t] for t in it[2]) + ")\n")
            k += 1
    return "".join(out)


def enc(items):
    w = []
    for it in items:
        if it[0] == "def":
            ts = []
            for t in it[3]:
                if t[0] == "p":
                    ts.append([0, t[1]])
                elif t[0] == "l":
                    ts.append([1, t[1]])
                else:
                    ts.append([2, t[1], [[0, a[1]] if a[0] == "p" else [1, a[1]] for a in t[2]]])
            w.append([0, it[1], it[2], ts])
        else:
            w.append([1, it[1], list(it[2])])
    return w


def dec_trace(m):
    """model output -> (out of fuel, [[name, None | [label codes]]])"""
    return bool(m[0]), [[e[0], None if not e[1] else list(e[1][0])] for e in m[1]]


def impl_trace(parses):
    """recorded (name, forced signature) of the real parser in the model's vocabulary; None when a label is outside it"""
    out = []
    for name, sg in parses:
        if not (name.startswith("h") and name[1:].isdigit()):
            return None
        if sg is not None and any(x not in LABEL for x in sg):
            return None
        out.append([int(name[1:]), None if sg is None else [LABEL[x] for x in sg]])
    return out


# --------------------------------------------------------------------------- depth families (time oracle)
def _chain(depth, fan, leaf, link, top="y = f{d}(7)\nmon.write(y)\n", params="v", args="v"):
    """f0 = leaf; fk's body = link with {c} = one call of f(k-1), {cs} = fan calls joined by +"""
    out = [HEAD, f"def f0({params}):\n{leaf}"]
    for k in range(1, depth + 1):
        call = f"f{k - 1}({args})"
        cs = " + ".join([call] * fan)
        out.append(f"def f{k}({params}):\n" + link.replace("{cs}", cs).replace("{c}", call).replace("{k}", str(k)))
    out.append(top.replace("{d}", str(depth)))
    return "".join(out)


def families():
    """name -> depth -> script text.  Every family is linear or quadratic work on a healthy transpiler."""
    F = {}
    for fan in (1, 2, 3):
        # the parameter is promoted to String in the body (the call signature (int,) is an alias of the stored variant)
        F[f"promoted-string-tail:fan{fan}"] = lambda d, fan=fan: _chain(d, fan, "    return v + \";\"\n", "    return {cs} + v\n")
        F[f"promoted-string-head:fan{fan}"] = lambda d, fan=fan: _chain(d, fan, "    return \"<\" + v\n", "    return {cs} + \":\" + v\n")
        # not promoted: the variant is stored under the requested signature
        F[f"int-sum:fan{fan}"] = lambda d, fan=fan: _chain(d, fan, "    return v + 1\n", "    return {cs} + v\n")
        F[f"float-sum:fan{fan}"] = lambda d, fan=fan: _chain(d, fan, "    return v * 0.5\n", "    return {cs} + v\n", top="y = f{d}(2.5)\nmon.write(y)\n")
    # called with two signatures at the top (two variants of every helper)
    F["two-signatures:fan2"] = lambda d: _chain(d, 2, "    return v + \";\"\n", "    return {cs} + v\n", top="y = f{d}(7)\nz = f{d}(2.5)\nw = f{d}(True)\nmon.write(y)\nmon.write(z)\n")
    F["two-parameters:fan2"] = lambda d: _chain(d, 2, "    return v + w + \";\"\n", "    return {cs} + w\n", top="y = f{d}(7, 2.5)\nmon.write(y)\n", params="v, w", args="v, w")
    F["annotated:fan3"] = lambda d: _chain(d, 3, "    return str(v) + \";\"\n", "    return {cs} + str(v)\n", params="v: int")
    F["annotated-str:fan2"] = lambda d: _chain(d, 2, "    return v + \";\"\n", "    return {cs} + v\n", params="v: str", top="y = f{d}(\"a\")\nz = f{d}(7)\nmon.write(y)\n")
    F["swapped-arguments:fan2"] = lambda d: _chain(d, 2, "    return v + w + \";\"\n", "    return {cs} + v\n", top="y = f{d}(7, 2.5)\nmon.write(y)\n", params="v, w", args="w, v")
    F["literal-arguments:fan3"] = lambda d: _chain(d, 3, "    return v + \";\"\n", "    return {cs} + v\n", args="{k}")
    # the calls stand in other places than a return sum
    F["assign-then-return:fan3"] = lambda d: _chain(d, 3, "    s = v + \";\"\n    return s\n", "    s = {cs}\n    s = s + v\n    return s\n")
    F["condition:fan2"] = lambda d: _chain(d, 2, "    return v + 1\n", "    if {c} > 3:\n        return {c} + 1\n    return v\n")
    F["loop-body:fan2"] = lambda d: _chain(d, 2, "    return v + 1\n", "    t = 0\n    for i in range(2):\n        t = t + {c}\n    while t > 100:\n        t = t - {c}\n    return t\n")
    F["nested-argument:fan1"] = lambda d: _chain(d, 1, "    return v + 1\n", "    return f0({c}) + v\n")
    F["device-argument:fan2"] = lambda d: _chain(d, 2, "    return v + 1\n", "    sleep({c})\n    mon.write({c})\n    return v + {k}\n")
    F["try-body:fan2"] = lambda d: _chain(d, 2, "    return v + \";\"\n", "    try:\n        s = {cs}\n    except Exception:\n        s = \"\"\n    return s + v\n")
    F["fstring:fan2"] = lambda d: _chain(d, 2, "    return f\"{v};\"\n", "    return {cs} + f\"{v}\"\n")

    def recursive(d):
        out = [HEAD]
        for k in range(d + 1):
            prev = f"f{k - 1}(v) + " if k else ""
            out.append(f"def f{k}(v):\n    if v < 1:\n        return 1\n    return {prev}f{k}(v - 1) + f{k}(v - 2) + v\n")
        out.append(f"y = f{d}(7)\nmon.write(y)\n")
        return "".join(out)
    F["recursive:fan2"] = recursive

    def mutual(d):
        out = [HEAD]
        for k in range(d + 1):
            nxt = (k + 1) % (d + 1)
            prv = (k - 1) % (d + 1)
            out.append(f"def f{k}(v):\n    if v < 1:\n        return 1\n    return f{nxt}(v - 1) + f{prv}(v - 1) + v\n")
        out.append("y = f0(7)\nmon.write(y)\n")
        return "".join(out)
    F["mutual-ring"] = mutual

    def forward(d):
        # every helper calls the NEXT one (defined later): the calls are resolved when the last def is reached
        out = [HEAD]
        for k in range(d, 0, -1):
            out.append(f"def f{k}(v):\n    return f{k - 1}(v) + f{k - 1}(v) + v\n")
        out.append("def f0(v):\n    return v + \";\"\n")
        out.append(f"y = f{d}(7)\nmon.write(y)\n")
        return "".join(out)
    F["forward-calls:fan2"] = forward

    def redefined(d):
        out = [HEAD, "def f0(v):\n    return v + \";\"\n"]
        for k in range(1, d + 1):
            out.append(f"def f{k}(v):\n    return f{k - 1}(v) + f{k - 1}(v) + v\n")
            out.append(f"y{k} = f{k}({k})\n")
            out.append(f"def f{k}(v):\n    return f{k - 1}(v) + \"!\" + f{k - 1}(v) + v\n")
        out.append(f"y = f{d}(7)\nmon.write(y)\n")
        return "".join(out)
    F["redefined:fan2"] = redefined

    def wide(d):
        # every helper calls ALL earlier ones
        out = [HEAD, "def f0(v):\n    return v + \";\"\n"]
        for k in range(1, d + 1):
            out.append(f"def f{k}(v):\n    return " + " + ".join(f"f{j}(v)" for j in range(k)) + " + v\n")
        out.append(f"y = f{d}(7)\nmon.write(y)\n")
        return "".join(out)
    F["calls-all-earlier"] = wide

    def main_loop(d):
        out = [_chain(d, 2, "    return v + \";\"\n", "    return {cs} + v\n", top=""), "n = 0\nwhile True:\n"]
        for k in range(0, d + 1):
            out.append(f"    mon.write(f{k}(n))\n")
        out.append("    n = n + 1\n    sleep(10)\n")
        return "".join(out)
    F["called-from-main-loop:fan2"] = main_loop

    # ---- other structure whose work is not decided by the length of a line: nesting inside re-parsed bodies, many
    # signatures of one helper, deep call nesting inside one expression, helpers passed through several levels
    def nested_blocks(d):
        # a helper whose body nests d blocks (one blank per level: the white-space guard of F-C11-blank-run-cubic), three signatures
        kinds = ["if v > {i}:", "for i{i} in range(2):", "while t < {i}:", "try:"]
        out = [HEAD, "def g(v):\n t = 0\n"]
        closers = []
        for i in range(d):
            k = kinds[i % 4]
            out.append(" " * (i + 1) + k.replace("{i}", str(i)) + "\n")
            if k == "try:":
                closers.append((i + 1, "except Exception:\n" + " " * (i + 2) + "t = t + 1\n"))
        out.append(" " * (d + 1) + "t = t + v\n")
        for ind, text in reversed(closers):
            out.append(" " * ind + text)
        out.append(" return t\n")
        out.append("a = g(7)\nb = g(2.5)\nc = g(True)\nmon.write(a)\n")
        return "".join(out)
    F["nested-blocks-in-helper"] = nested_blocks

    def many_signatures(d):
        labels = ["7", "2.5", "True", "\";\""]
        out = [HEAD, "def g(a, b, c):\n    return a + b + c\n"]
        for i in range(d * 2):
            out.append(f"y{i} = g({labels[i % 4]}, {labels[(i // 4) % 4]}, {labels[(i // 16) % 4]})\n")
        out.append("mon.write(y0)\n")
        return "".join(out)
    F["many-signatures-of-one-helper"] = many_signatures

    def deep_call(d):
        return HEAD + "def g(v):\n    return v + 1\ndef h(v):\n    return g(v) + g(v)\n" + "y = " + "h(" * d + "7" + ")" * d + "\nmon.write(y)\n"
    F["deep-nested-call-expression"] = deep_call

    def long_body(d):
        body = "".join(f"    t = t + g(v + {i})\n" for i in range(d * 4))
        return HEAD + "def g(v):\n    return v + 1\ndef h(v):\n    t = 0\n" + body + "    return t\n" + "a = h(7)\nb = h(2.5)\nc = h(True)\nmon.write(a)\n"
    F["long-helper-body-three-signatures"] = long_body

    def diamond(d):
        # every level has two helpers, each calling both helpers of the level below (2^d paths, 2d functions)
        out = [HEAD, "def a0(v):\n    return v + \";\"\ndef b0(v):\n    return \":\" + v\n"]
        for k in range(1, d + 1):
            out.append(f"def a{k}(v):\n    return a{k - 1}(v) + b{k - 1}(v) + v\n")
            out.append(f"def b{k}(v):\n    return b{k - 1}(v) + a{k - 1}(v) + v\n")
        out.append(f"y = a{d}(7)\nz = b{d}(2.5)\nmon.write(y)\n")
        return "".join(out)
    F["diamond-lattice"] = diamond

    def list_params(d):
        out = [HEAD, "xs = [1, 2, 3]\ndef f0(v):\n    return len(v) + 1\n"]
        for k in range(1, d + 1):
            out.append(f"def f{k}(v):\n    return f{k - 1}(v) + f{k - 1}(v)\n")
        out.append(f"y = f{d}(xs)\nmon.write(y)\n")
        return "".join(out)
    F["list-parameter:fan2"] = list_params
    return F
