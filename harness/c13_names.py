"""Near-miss names for C13: strings that a plausible normaliser, matcher or "did you mean" step maps to a
registered id although they are different strings.

The property quantifies over (registry + near-miss names)^2.  A near-miss is only useful to the search if
some realistic way of loosening the lookup would accept it, so the families are organised by the loosening
they target:

  sep      separator runs replaced / inserted / dropped         (env-name index, '-' vs '_' canonicalisation)
  case     case changed                                         (case-insensitive lookup)
  pad      blanks, control characters, invisible characters     (strip(), split())
  unicode  compatibility forms, case-folding specials, digits,  (NFKC/NFKD, casefold(), str.isdigit/int(),
           homoglyphs, combining marks                           confusable folding)
  decor    version / path / key / quote decorations             (split('@')[0], basename, "board=uno", shlex)
  glob     glob, regex and SQL-LIKE metacharacters              (fnmatch, re.match, LIKE)
  trunc    proper prefixes and suffixes, extensions, doubling   (startswith, substring test, re.match without $)
  edit     one deletion / substitution / transposition / doubling (difflib.get_close_matches)
  number   digit runs changed                                   (int() round trips, zero padding)

Everything is deterministic given the rng passed in."""
from __future__ import annotations

import re
import unicodedata

SEPS = ["_", "-", " ", ".", "--", "__", "-_", "_-", "/", ":", "+", "\t", "\u2010", "\u2212", "\u00a0", "\u00ad", ""]
BLANKS = [" ", "  ", "\t", "\n", "\r", "\r\n", "\x0b", "\x0c", "\x1c", "\x85", "\u00a0", "\u2003", "\u3000", "\x00",
          "\ufeff", "\u200b", "\u200d", "\u2060"]
FOLD_SPECIALS = {"k": "\u212a", "K": "\u212a", "s": "\u017f", "S": "\u017f", "i": "\u0131", "I": "\u0130",
                 "a": "\u00aa", "o": "\u00ba", "A": "\u212b", "u": "\u00b5"}
HOMOGLYPHS = {"a": "\u0430", "e": "\u0435", "o": "\u043e", "p": "\u0440", "c": "\u0441", "x": "\u0445", "y": "\u0443",
              "i": "\u0456", "A": "\u0391", "B": "\u0392", "E": "\u0395", "M": "\u041c", "T": "\u0422",
              "0": "O", "1": "l", "l": "1", "O": "0"}
DIGIT_FORMS = [0xFF10, 0x0660, 0x06F0, 0x0966, 0x1D7CE, 0x1D7D8]      # fullwidth, Arabic-Indic, ext. Arabic, Devanagari, math bold, math double-struck
SUPER = {"0": "\u2070", "1": "\u00b9", "2": "\u00b2", "3": "\u00b3", "4": "\u2074", "5": "\u2075", "6": "\u2076",
         "7": "\u2077", "8": "\u2078", "9": "\u2079"}


def fullwidth(s: str) -> str:
    return "".join(chr(ord(c) + 0xFEE0) if 0x21 <= ord(c) <= 0x7E else c for c in s)


def _runs(name):
    """maximal runs of non-alphanumerics: [(start, end)]"""
    return [(m.start(), m.end()) for m in re.finditer(r"[^A-Za-z0-9]+", name)]


def _boundaries(name):
    """positions between a letter and a digit, or a lower-case and an upper-case letter"""
    out = []
    for i in range(1, len(name)):
        a, b = name[i - 1], name[i]
        if a.isalnum() and b.isalnum() and ((a.isdigit() != b.isdigit()) or (a.islower() and b.isupper())):
            out.append(i)
    return out


def fam_sep(name, rng):
    out = []
    runs = _runs(name)
    for sep in SEPS:
        if runs:
            out.append(re.sub(r"[^A-Za-z0-9]+", lambda m: sep, name))            # every run
            for (a, b) in runs:
                out.append(name[:a] + sep + name[b:])                              # one run
    for i in _boundaries(name):
        for sep in ("_", "-", " ", "."):
            out.append(name[:i] + sep + name[i:])
    if len(name) > 1:
        i = rng.randrange(1, len(name))
        for sep in ("_", "-", " "):
            out.append(name[:i] + sep + name[i:])
    for sep in ("_", "-", ".", "/"):
        out += [sep + name, name + sep, sep + name + sep]
    return out


def fam_case(name, rng):
    out = [name.upper(), name.lower(), name.capitalize(), name.swapcase(), name.title(), name.casefold()]
    idx = [i for i, c in enumerate(name) if c.swapcase() != c]
    for i in ([idx[0], idx[-1], rng.choice(idx)] if idx else []):
        out.append(name[:i] + name[i].swapcase() + name[i + 1:])
    return out


def fam_pad(name, rng):
    out = []
    for w in BLANKS:
        out += [w + name, name + w, w + name + w]
    if len(name) > 1:
        i = rng.randrange(1, len(name))
        for w in (" ", "\t", "\n", "\u200b", "\u00ad", "\x00"):
            out.append(name[:i] + w + name[i:])
    return out


def fam_unicode(name, rng):
    out = [fullwidth(name)]
    i = rng.randrange(len(name)) if name else 0
    if name:
        out.append(name[:i] + fullwidth(name[i]) + name[i + 1:])
        out.append(name[:i + 1] + "\u0301" + name[i + 1:])                 # combining acute
        out.append(name + "\u0308")
        out.append(name[:i + 1] + "\ufe0f" + name[i + 1:])                 # variation selector
    for table in (FOLD_SPECIALS, HOMOGLYPHS):
        pos = [j for j, c in enumerate(name) if c in table]
        for j in ([pos[0], rng.choice(pos)] if pos else []):
            out.append(name[:j] + table[name[j]] + name[j + 1:])
        if pos:
            out.append("".join(table.get(c, c) for c in name))
    for lig, rep in (("fi", "\ufb01"), ("fl", "\ufb02"), ("ff", "\ufb00"), ("st", "\ufb06")):
        if lig in name:
            out.append(name.replace(lig, rep))
    dpos = [j for j, c in enumerate(name) if c.isdigit()]
    if dpos:
        for base in DIGIT_FORMS:
            out.append("".join(chr(base + int(c)) if c.isdigit() else c for c in name))
        j = rng.choice(dpos)
        out.append(name[:j] + SUPER[name[j]] + name[j + 1:])
        out.append(name[:j] + chr(0x2460 + int(name[j]) - 1) + name[j + 1:] if name[j] != "0" else name[:j] + "\u24ea" + name[j + 1:])
    for form in ("NFD", "NFKD", "NFC", "NFKC"):
        out.append(unicodedata.normalize(form, name))
    return out


def fam_decor(name, rng):
    out = [name + s for s in ("@1.0", "@^1", "@latest", "@", ":1", ":", "/1", "/", "#1", "#", "?x", ".json", ".", ",", ";",
                              ",nano", " nano", "=", "=1", "\\", "!", "&", "|x")]
    out += [s + name for s in ("env:", "board=", "board = ", "board:", "./", "../", "/", "boards/", "platformio/",
                                "atmelavr/", "atmelavr:", "atmelavr.", "atmelavr@", "~", "$", "@", "!", "-")]
    out += [a + name + b for a, b in (('"', '"'), ("'", "'"), ("[", "]"), ("(", ")"), ("{", "}"), ("<", ">"), ("`", "`"),
                                       ("${", "}"), ("%(", ")s"), ("{{", "}}"), ("b'", "'"), ("['", "']"))]
    return out


def fam_glob(name, rng):
    out = ["*", "?", "%", "_", ".*", ".+", "?" * len(name), "_" * len(name), "." * len(name), "[a-z]*", "**"]
    if name:
        out += [name[:-1] + "?", name[:-1] + "*", name[0] + "*", "*" + name[1:], "*" + name, name + "*", name[:-1] + ".",
                name[:-1] + "_", name[:-1] + "%", "%" + name[1:], name + "%", "%" + name + "%",
                name + "|zz", "zz|" + name, "^" + name + "$", "^" + name, name + "$", "(" + name + ")", "(?i)" + name,
                name[:-1] + "[" + name[-1] + "]", "[" + name[0] + "]" + name[1:], name + "?", name + "{1}", name + "+",
                "\\" + name, name[:-1] + "\\" + name[-1], re.escape(name) + "\\Z", "{" + name + ",zz}"]
        i = rng.randrange(len(name))
        out += [name[:i] + "." + name[i + 1:], name[:i] + "?" + name[i + 1:], name[:i] + "_" + name[i + 1:],
                name[:i] + "*" + name[i + 1:], name[:i] + ".*"]
    return out


def fam_trunc(name, rng):
    out = [name[:i] for i in range(len(name))] + [name[i:] for i in range(1, len(name))]
    out += [name + c for c in "x0_- sSa1"] + [c + name for c in "x0_a"]
    out += [name + name, name + "," + name, name + " " + name, name + "_" + name]
    if len(name) > 2:
        i, j = sorted(rng.sample(range(len(name) + 1), 2))
        out.append(name[i:j])
    return out


def fam_edit(name, rng):
    out = []
    if not name:
        return out
    n = len(name)
    for _ in range(3):
        i = rng.randrange(n)
        c = name[i]
        sub = chr(ord(c) + 1) if c.isalnum() and c not in "zZ9" else "q"
        out += [name[:i] + name[i + 1:], name[:i] + sub + name[i + 1:], name[:i] + c + name[i:]]
        if i + 1 < n and name[i] != name[i + 1]:
            out.append(name[:i] + name[i + 1] + name[i] + name[i + 2:])
    return out


def fam_number(name, rng):
    out = []
    for m in re.finditer(r"[0-9]+", name):
        a, b = m.span()
        v = int(m.group())
        for rep in (str(v + 1), str(max(v - 1, 0)), "0" + m.group(), m.group() + "0", "", str(v) + ".0", hex(v), "+" + m.group(),
                    m.group()[:-1], str(v * 2)):
            out.append(name[:a] + rep + name[b:])
    return out


FAMILIES = {"sep": fam_sep, "case": fam_case, "pad": fam_pad, "unicode": fam_unicode, "decor": fam_decor,
            "glob": fam_glob, "trunc": fam_trunc, "edit": fam_edit, "number": fam_number}
# families whose members collide with the original under one of the model's four normalisers
TWIN_FAMILIES = ("sep", "case", "pad")


def encodable(s: str) -> bool:
    try:
        s.encode("utf-8")
        return True
    except UnicodeEncodeError:
        return False


def near_miss_names(name, rng, families=None):
    """{family: sorted distinct variants != name}"""
    out = {}
    for fam, fn in FAMILIES.items():
        if families is not None and fam not in families:
            continue
        vs = {v for v in fn(name, rng) if v != name and encodable(v)}
        out[fam] = sorted(vs)
    return out
