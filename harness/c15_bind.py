"""C15 - a sensor NAME bound more than once: which declaration does read() / is_pressed() / measure_distance() use?

A *binding text* lists, in text order, the places where one sensor name occurs before the main loop and at the top level of the
main-loop body (coq/Device/DRebind.v):  ["D", slot] declaration on the pins of that slot, ["U"] a call written here,
["F", f] def of a function that makes the call, ["C", f] a call of that function.  Many texts (each with its own name, its own
functions) are laid out in one script, separated by marker prints; the firmware trace tells, for every executed call, which pin
was used.  Three comparisons:
  * correspondence: the extracted model's transpile-time discipline (lexical for Potentiometer.read(), last declaration for
    Button / Ultrasonic) predicts the pins of every text, inside and outside the guard;
  * oracle (inside the guard lex_ok / last_ok / last_ok_loop evaluated by the model): the pin used is the one of the declaration
    Python's name binding gives when the call is executed (reference interpreter below, cross-checked with the model's run_dyn);
    for a Button also: exactly one digitalRead per pass, every is_pressed() of the pass returns it, clicks = rising edges;
  * the listed findings (outside the guard) are replayed by the caller.
"""
from __future__ import annotations

import itertools

from harness import fw

PASSES = 3
POT_PINS = ["A0", "A1", "A2", "A3", "A4", "A6", "A7"]        # A5 is the gate of the big sketches; any pin may be shared by names
HDR = ["from Reduino.Sensors import Button", "from Reduino.Sensors import Potentiometer",
       "from Reduino.Sensors import Ultrasonic", "from Reduino.Communication import SerialMonitor",
       "from Reduino.Utils import sleep", "", "mon = SerialMonitor(9600)"]


# ---------------------------------------------------------------------------------------------- texts
def python_binding(text, n=PASSES):
    """reference: Python looks a name up when the call is executed.  -> (slots used before the loop, [slots per pass]); None: unbound"""
    cur, defined = None, set()
    pre = []

    def walk(items, out):
        nonlocal cur
        for it in items:
            if it[0] == "D":
                cur = it[1]
            elif it[0] == "U":
                out.append(cur)
            elif it[0] == "F":
                defined.add(it[1])
            elif it[0] == "C":
                out.append(cur if it[1] in defined else None)
    walk(text["setup"], pre)
    passes = []
    for _ in range(n):
        out = []
        walk(text["loop"], out)
        passes.append(out)
    return pre, passes


def well_formed(text):
    """valid Python that the transpiler can be expected to accept: every executed call finds the name bound and the function
    defined; a def stands below a declaration (its body names the sensor); at least one call in the loop"""
    seen_decl, defined = False, set()
    for it in text["setup"]:
        if it[0] == "D":
            seen_decl = True
        elif it[0] == "F":
            if not seen_decl or it[1] in defined:
                return False
            defined.add(it[1])
        elif it[0] == "C" and it[1] not in defined:
            return False
        elif it[0] == "U" and not seen_decl:
            return False
    if any(it[0] == "F" for it in text["loop"]):
        return False
    if any(it[0] == "C" and it[1] not in defined for it in text["loop"]):
        return False
    if not any(it[0] in ("U", "C") for it in text["loop"]):
        return False
    pre, passes = python_binding(text, 2)
    return None not in pre and all(None not in p for p in passes)


SETUP_SHAPES = [
    [], [["D", 0]], [["D", 0], ["D", 1]], [["D", 0], ["U"]], [["D", 0], ["U"], ["D", 1]], [["D", 0], ["U"], ["D", 1], ["U"]],
    [["D", 0], ["D", 1], ["U"]], [["D", 0], ["F", 0]], [["D", 0], ["F", 0], ["C", 0]], [["D", 0], ["D", 1], ["F", 0]],
    [["D", 0], ["D", 1], ["F", 0], ["C", 0], ["U"]], [["D", 0], ["F", 0], ["D", 1]], [["D", 0], ["F", 0], ["D", 1], ["C", 0]],
    [["D", 0], ["F", 0], ["D", 1], ["F", 1]], [["D", 0], ["U"], ["D", 1], ["F", 0], ["C", 0]], [["D", 0], ["D", 1], ["D", 0]],
    [["D", 0], ["U"], ["D", 1], ["U"], ["D", 0], ["U"]], [["D", 0], ["F", 0], ["C", 0], ["D", 1], ["U"], ["F", 1], ["C", 1]],
]
LOOP_SHAPES = [
    [["U"]], [["U"], ["U"]], [["C", 0]], [["U"], ["C", 0]], [["C", 0], ["C", 1]], [["D", 2], ["U"]], [["D", 2], ["U"], ["U"]],
    [["D", 2], ["D", 3], ["U"]], [["D", 2], ["C", 0]], [["D", 2], ["U"], ["C", 0]], [["U"], ["D", 2], ["U"]], [["U"], ["D", 2]],
    [["C", 0], ["D", 2], ["C", 0]], [["D", 2], ["U"], ["D", 3], ["U"]], [["D", 0], ["U"]], [["D", 1], ["U"], ["C", 1]],
]
# which hardware the four declaration slots name: all different / re-declared on the same pins / back to the first
SLOT_MAPS = [[0, 1, 2, 3], [0, 0, 0, 0], [0, 1, 0, 1], [0, 0, 1, 1], [0, 1, 1, 2], [0, 1, 2, 0]]


def gen_texts(rng, thorough):
    """every shape pair (curated: re-declared before the loop, at the loop top, both, with reads in between, helper functions
    defined before / after a re-declaration, declarations below calls inside the loop) with slot maps rotated, plus seeded random
    item sequences"""
    out, seen = [], set()

    def add(setup, loop, smap, family):
        t = {"setup": [list(i) for i in setup], "loop": [list(i) for i in loop], "slots": list(smap), "family": family}
        key = repr((t["setup"], t["loop"], t["slots"]))
        if key in seen or not well_formed(t):
            return
        seen.add(key)
        out.append(t)

    n = 0
    for s in SETUP_SHAPES:
        for lp in LOOP_SHAPES:
            maps = SLOT_MAPS if thorough else [SLOT_MAPS[0], SLOT_MAPS[1 + n % (len(SLOT_MAPS) - 1)]]
            for m in maps:
                add(s, lp, m, "curated")
            n += 1
    alpha_s = [["D", 0], ["D", 1], ["U"], ["F", 0], ["F", 1], ["C", 0], ["C", 1]]
    alpha_l = [["D", 2], ["D", 3], ["D", 0], ["U"], ["C", 0], ["C", 1]]
    want = len(out) + (1500 if thorough else 120)
    tries = 0
    while len(out) < want and tries < 40000:
        tries += 1
        s = [rng.choice(alpha_s) for _ in range(rng.randint(1, 6))]
        lp = [rng.choice(alpha_l) for _ in range(rng.randint(1, 5))]
        add(s, lp, rng.choice(SLOT_MAPS), "random")
    return out


def model_key(text, slot, by_decl):
    """the number by which the model names a declaration (it compares them for equality only): the hardware number of the slot map;
    for a Button 10 * hardware + slot - two declarations on one pin still differ in their on_click handler"""
    if slot is None:
        return -1
    return 10 * text["slots"][slot] + slot if by_decl else text["slots"][slot]


def wire_of(text, by_decl=False, n=PASSES):
    enc = {"D": lambda it: [0, model_key(text, it[1], by_decl)], "U": lambda it: [1], "F": lambda it: [2, it[1]], "C": lambda it: [3, it[1]]}
    return [4, n, [enc[i[0]](i) for i in text["setup"]], [enc[i[0]](i) for i in text["loop"]]]


# ---------------------------------------------------------------------------------------------- hardware per kind
def hw_key(kind, idx, hw):
    """the number by which the trace names hardware hw (0..3) of text #idx of a sketch.
    pot: the analog pin (shared between texts); button: the digital pin; ultrasonic: trig * 1000 + echo."""
    if hw is None or hw < 0:
        return -1
    if kind == "pot":
        return 14 + int(POT_PINS[(idx + hw) % len(POT_PINS)][1:])
    if kind == "button":
        return 30 + 4 * idx + hw
    t = 30 + 8 * idx + 2 * hw
    return t * 1000 + t + 1


def decl_src(kind, name, idx, hw, handler):
    if kind == "pot":
        return f'{name} = Potentiometer("{POT_PINS[(idx + hw) % len(POT_PINS)]}")'
    if kind == "button":
        return f"{name} = Button({30 + 4 * idx + hw}" + (f", on_click={handler})" if handler else ")")
    t = 30 + 8 * idx + 2 * hw
    return f"{name} = Ultrasonic({t}, {t + 1})"


CALL = {"pot": "read", "button": "is_pressed", "ultra": "measure_distance"}


def script_of(kind, texts):
    """-> source; text #i uses the name s{i}, the functions f{i}_{f}, the handler k{i} (buttons)"""
    pre, loop = [], []
    for i, t in enumerate(texts):
        name = f"s{i:03d}"
        # every declaration slot has its own on_click handler: the one that runs tells which declaration the poll was built from
        if kind == "button":
            for slot in sorted({it[1] for it in t["setup"] + t["loop"] if it[0] == "D"}):
                pre += [f"def k{i:03d}_{slot}():", f'    mon.write("click {i} {slot}")']
        pre.append(f'mon.write("##t {i}")')
        loop.append(f'    mon.write("##t {i}")')
        for region, items, ind in ((pre, t["setup"], ""), (loop, t["loop"], "    ")):
            for it in items:
                if it[0] == "D":
                    region.append(ind + decl_src(kind, name, i, t["slots"][it[1]], f"k{i:03d}_{it[1]}" if kind == "button" else None))
                elif it[0] == "U":
                    region.append(f"{ind}mon.write({name}.{CALL[kind]}())")
                elif it[0] == "F":
                    region += [f"def f{i}_{it[1]}():", f"    return {name}.{CALL[kind]}()"]
                else:
                    region.append(f"{ind}mon.write(f{i}_{it[1]}())")
    return "\n".join(HDR + pre + ["while True:"] + loop) + "\n"


def input_of(kind, texts, rng_levels):
    L = ["clock0 5"]
    if kind == "pot":
        for p in POT_PINS:
            L.append(f"ar {14 + int(p[1:])} " + " ".join(str((100 * int(p[1:]) + k) % 1024) for k in range(40)))
    elif kind == "button":
        for i, t in enumerate(texts):
            for hw in sorted(set(t["slots"])):
                L.append(f"dr {30 + 4 * i + hw} " + " ".join(map(str, rng_levels[(i, hw)])))
    else:
        for i, t in enumerate(texts):
            for hw in sorted(set(t["slots"])):
                L.append(f"pi {31 + 8 * i + 2 * hw} {500 + 100 * hw + i}")
    return "\n".join(L) + "\n"


def button_levels(rng, texts):
    """scripted levels per (text, hardware slot).  A name whose first and last declaration name different pins is kept inside the
    guard of C15_rebound_button_other_pin_partial: the first declaration's pin reads pressed in setup(), or the polled pin reads
    released in pass 0 (alternating); everything else is random"""
    lv = {}
    for i, t in enumerate(texts):
        for hw in set(t["slots"]):
            lv[(i, hw)] = [rng.randint(0, 1) for _ in range(PASSES + 2)]
        order = [it for it in t["setup"] + t["loop"] if it[0] == "D"]
        if order:
            first, last = t["slots"][order[0][1]], t["slots"][order[-1][1]]
            if first != last:
                if i % 2:
                    lv[(i, first)][0] = 1
                else:
                    lv[(i, last)][0] = 0
    return lv


# ---------------------------------------------------------------------------------------------- trace -> observations
def split_texts(events, ntexts):
    """-> (setup chunks, [pass chunks...]) ; chunk[i] = the events between marker i and the next; head = events of a pass before
    the first marker (the button polls)"""
    phases, cur = [], None
    for e in events:
        if e == "M setup" or e.startswith("M loop "):
            cur = {"head": [], "chunks": [[] for _ in range(ntexts)], "at": None}
            phases.append(cur)
        elif e == "M end":
            cur = None
        elif cur is not None:
            if e.startswith("S ##t "):
                cur["at"] = int(e[6:])
            elif cur["at"] is None:
                cur["head"].append(e)
            elif 0 <= cur["at"] < ntexts:
                cur["chunks"][cur["at"]].append(e)
    return phases[0] if phases else None, phases[1:]


def observe(kind, idx, text, chunk, head):
    """the hardware keys used by the calls of one text in one phase, in order -> (keys, values printed, problems)"""
    keys, vals, bad = [], [], []
    if kind == "pot":
        for e in chunk:
            f = e.split(" ")
            if f[0] == "AR":
                keys.append(int(f[1]))
            elif f[0] == "S":
                vals.append(e[2:])
    elif kind == "ultra":
        trig = None
        for e in chunk:
            f = e.split(" ")
            if f[0] == "DW" and f[2] == "1":
                trig = int(f[1])
            elif f[0] == "PI":
                keys.append((trig or 0) * 1000 + int(f[1]))
                if int(f[4]) == 0:
                    bad.append("an echo timed out (the scripted echoes are all positive)")
            elif f[0] == "S":
                vals.append(e[2:])
    else:
        mine = [e.split(" ") for e in head if e.startswith("DR ") and 30 + 4 * idx <= int(e.split(" ")[1]) < 34 + 4 * idx]
        vals = [e[2:] for e in chunk if e.startswith("S ") and not e.startswith("S click")]
        keys = [int(f[1]) for f in mine]
    return keys, vals, bad


def run_family(kind, texts, rng):
    """-> list per text: None (not run) | {"ok": False, "why"} | {"ok": True, "setup": (keys, vals), "passes": [(keys, vals, head DR, clicks)]}"""
    per = 100
    out = [None] * len(texts)
    jobs = []
    for at in range(0, len(texts), per):
        part = texts[at:at + per]
        lv = button_levels(rng, part) if kind == "button" else None
        jobs.append((at, part, script_of(kind, part), input_of(kind, part, lv)))
    tr = fw.transpile_many([j[2] for j in jobs])
    runs, where = [], []
    for j, t in zip(jobs, tr):
        if not t.get("ok"):
            # one text may be what the transpiler rejects: run the texts of this batch one by one
            for k, tx in enumerate(j[1]):
                lv = button_levels(rng, [tx]) if kind == "button" else None
                src = script_of(kind, [tx])
                t1 = fw.transpile_many([src])[0]
                if not t1.get("ok"):
                    out[j[0] + k] = {"ok": False, "why": f"transpile raised {t1.get('exc')}: {t1.get('msg')}", "script": src}
                else:
                    runs.append({"cpp": t1["cpp"], "input": input_of(kind, [tx], lv), "loops": PASSES})
                    where.append((j[0] + k, [tx], src))
            continue
        runs.append({"cpp": t["cpp"], "input": j[3], "loops": PASSES})
        where.append((j[0], j[1], j[2]))
    for (at, part, src), r in zip(where, fw.run_sketches(runs)):
        if not r["compiled"] or r["rc"] != 0:
            why = "emitted C++ does not compile: " + r["compile_log"][-400:] if not r["compiled"] else f"sketch exit status {r['rc']}"
            for k in range(len(part)):
                out[at + k] = {"ok": False, "why": why, "script": src if len(part) == 1 else script_of(kind, [part[k]])}
            continue
        setup, passes = split_texts(r["events"], len(part))
        for k, tx in enumerate(part):
            out[at + k] = result_of(kind, tx, k, setup, passes)
            out[at + k]["script"] = src
    return out


def result_of(kind, tx, k, setup, passes):
    res = {"ok": True, "problems": []}
    ks, vs, bad = observe(kind, k, tx, setup["chunks"][k], setup["head"]) if setup else ([], [], ["no setup phase"])
    res["setup"] = (ks, vs)
    res["setup_dr"] = [e for e in (setup["chunks"][k] + setup["head"] if setup else []) if e.startswith("DR ")
                       and 30 + 4 * k <= int(e.split(" ")[1]) < 34 + 4 * k] if kind == "button" else []
    res["problems"] += bad
    res["passes"] = []
    for ph in passes:
        ks, vs, bad = observe(kind, k, tx, ph["chunks"][k], ph["head"])
        drv = [int(e.split(" ")[2]) for e in ph["head"] if e.startswith("DR ") and 30 + 4 * k <= int(e.split(" ")[1]) < 34 + 4 * k]
        clicks = [int(e.split(" ")[3]) for e in ph["head"] if e.startswith(f"S click {k} ")]
        res["passes"].append((ks, vs, drv, clicks))
        res["problems"] += bad
    res["index_in_sketch"] = k
    return res


def single_case(kind, text, rng):
    """the replayable form of one text: its own script + mock input"""
    lv = button_levels(rng, [text]) if kind == "button" else None
    return {"binding": {"kind": kind, "text": {k: text[k] for k in ("setup", "loop", "slots")}},
            "script": script_of(kind, [text]), "mock_input": input_of(kind, [text], lv), "loops": PASSES}


def expected_keys(kind, text, slots_used, idx):
    """declaration slots -> observable keys"""
    return [hw_key(kind, idx, text["slots"][s]) if s is not None else -1 for s in slots_used]


def lexical_binding(text, n=PASSES):
    """harness copy of the lexical discipline (used as the guard when the model could not be built; cross-checked otherwise)"""
    cur, fenv = None, {}

    def walk(items, out):
        nonlocal cur
        for it in items:
            if it[0] == "D":
                cur = it[1]
            elif it[0] == "U":
                out.append(cur)
            elif it[0] == "F":
                fenv[it[1]] = cur
            else:
                out.append(fenv.get(it[1]))
    pre, lp = [], []
    walk(text["setup"], pre)
    walk(text["loop"], lp)
    return pre, [list(lp) for _ in range(n)]


def last_binding(text, n=PASSES):
    ds = [it[1] for it in text["setup"] + text["loop"] if it[0] == "D"]
    last = ds[-1] if ds else None
    cnt = lambda items: sum(1 for it in items if it[0] in ("U", "C"))
    return [last] * cnt(text["setup"]), [[last] * cnt(text["loop"]) for _ in range(n)]


def hw_of(text, run, by_decl=False):
    """declaration slots -> the model's numbers"""
    f = lambda l: [model_key(text, s, by_decl) for s in l]
    return f(run[0]), [f(p) for p in run[1]]


def in_guard(kind, text):
    """lex_ok / last_ok / last_ok_loop of Device/DRebind.v, computed by the harness (two passes decide)"""
    by_decl = kind == "button"
    d = hw_of(text, python_binding(text, 2), by_decl)
    if kind == "pot":
        return hw_of(text, lexical_binding(text, 2)) == d
    la = hw_of(text, last_binding(text, 2), by_decl)
    return la == d if kind == "ultra" else la[1] == d[1]


def replay_case(case):
    """re-runs the stored script of one text with its stored mock input -> list of (key, what, expected, observed)"""
    b = case["binding"]
    t = fw.transpile_many([case["script"]])[0]
    if not t.get("ok"):
        return [("not-transpiled", f"transpile raised {t.get('exc')}: {t.get('msg')}", "accepted", t.get("exc"))]
    r = fw.run_sketches([{"cpp": t["cpp"], "input": case["mock_input"], "loops": case.get("loops", PASSES)}])[0]
    if not r["compiled"] or r["rc"] != 0:
        return [("not-run", "the emitted C++ did not compile / run", "runs", r.get("compile_log", "")[-300:])]
    return judge(b["kind"], b["text"], result_of(b["kind"], b["text"], 0, *split_texts(r["events"], 1)), 0)


def judge(kind, text, res, idx):
    """the statement's relation for one text inside the guard -> list of (key, what, expected, observed)"""
    F = []
    pre, passes = python_binding(text, PASSES)
    what = {"pot": "read() did analogRead on pin {o}; the potentiometer the name is bound to when the call runs is declared on pin {e}",
            "ultra": "measure_distance() triggered / listened on pins {o}; the sensor the name is bound to when the call runs is on {e} (trig*1000+echo)",
            "button": "the button is sampled on pin {o} in this pass; the Button the name is bound to while loop() runs is declared on pin {e}"}[kind]
    if kind != "button":
        exp = expected_keys(kind, text, pre, idx)
        if res["setup"][0] != exp:
            F.append((kind + "-pin", "before the loop: " + what.format(o=res["setup"][0], e=exp), exp, res["setup"][0]))
    for k, (keys, vals, drv, clicks) in enumerate(res["passes"]):
        exp = expected_keys(kind, text, passes[k], idx)
        if kind == "button":
            want_pin = sorted(set(exp))
            if len(keys) != 1:
                F.append(("sample-count", f"pass {k}: the button name is sampled {len(keys)} times (digitalRead on pins {keys}); exactly once is required",
                          1, len(keys)))
            elif [keys[0]] != want_pin:
                F.append(("button-pin", f"pass {k}: " + what.format(o=keys[0], e=want_pin), want_pin, keys))
            elif any(v != str(drv[0]) for v in vals):
                F.append(("stale-sample", f"pass {k}: is_pressed() returned {vals}; the sample of this pass is {drv[0]}", drv[0], vals))
        elif keys != exp:
            F.append((kind + "-pin", f"pass {k}: " + what.format(o=keys, e=exp), exp, keys))
    if kind == "button" and not F:
        # clicks: rising edges of the polled pin's sampled signal; the start-up sample counts when it was taken on that pin,
        # otherwise (guard) pass 0 is the start-up and must not click
        sig = [p[2][0] for p in res["passes"]]
        polled = res["passes"][0][0][0] if res["passes"] else None
        sdr = [e.split(" ") for e in res["setup_dr"]]
        own = [int(f[2]) for f in sdr if int(f[1]) == polled]
        prev = own[-1] if own else None
        for k, (keys, vals, drv, clicks) in enumerate(res["passes"]):
            want = 0 if prev is None else int(sig[k] == 1 and prev == 0)
            if len(clicks) != want:
                F.append(("click-edge", f"pass {k}: on_click ran {len(clicks)} times; sampled signal of pin {polled}: start-up "
                          f"{'sample ' + str(own[-1]) if own else 'not sampled on this pin'}, passes {sig} -> {want} expected", want, len(clicks)))
                break
            bound = sorted(set(passes[k]))
            if clicks and [clicks[0]] != bound:
                F.append(("click-handler", f"pass {k}: the on_click handler of declaration #{clicks[0]} of the name ran; the Button the name is bound to "
                          f"while loop() runs is declaration #{bound} (its handler must run)", bound, clicks))
                break
            prev = sig[k]
    return F
