"""Shared machinery of units C19_servo and C19_motor (property C19): abstract scalar values,
wire / JSON encodings, normal forms of model and implementation outputs, the per-op
correspondence comparison, statistics, and the generic unit driver.

A case is a triple (cls, ctor_args, ops) with cls in {"servo", "motor"}; ops are tuples
(method_name, arg...).  Abstract scalars: int / bool / Fraction (a Python float) / None (a
non-number) / ABSENT (an omitted optional argument).
"""
from __future__ import annotations

from fractions import Fraction as Fr

from harness import common as C


class _Absent:
    def __repr__(self):
        return "ABSENT"


ABSENT = _Absent()      # an omitted optional argument

TOL = 1e-9

SERVO_OPS = {"write": 0, "write_us": 1, "read": 2, "read_us": 3}
MOTOR_OPS = {"set_speed": 0, "backward": 1, "stop": 2, "coast": 3, "invert": 4, "ramp": 5, "run_for": 6,
             "get_speed": 7, "get_applied_speed": 8, "is_inverted": 9, "get_mode": 10}
MODES = ["coast", "drive", "brake"]
KINDS = ["ValueError", "TypeError"]
IMPL = {"servo": "c19_servo_impl.py", "motor": "c19_motor_impl.py"}


# --------------------------------------------------------------------------
# values
# --------------------------------------------------------------------------

def W(v):
    """abstract value -> wire pynum"""
    if isinstance(v, bool):
        return [2, v]
    if isinstance(v, int):
        return [0, v]
    if isinstance(v, Fr):
        return [1, v]
    if v is None:
        return [3]
    raise TypeError(repr(v))


def WX(v):
    """abstract float (Fraction = finite, or a Python float special) -> wire xfloat"""
    if isinstance(v, Fr):
        return [0, v]
    if isinstance(v, float):
        if v != v:
            return [1]
        if v == float("inf"):
            return [2]
        if v == float("-inf"):
            return [3]
    raise TypeError(repr(v))


def WXA(v):
    """abstract speed argument -> wire xarg: (0 pynum) for int / bool / finite float / None, (1 xfloat) for an IEEE special"""
    if isinstance(v, float):
        return [1, WX(v)]
    return [0, W(v)]


def is_special(v):
    return isinstance(v, float)


def m_x(w):
    """wire xfloat -> normal form shared with i_val"""
    if w[0] == 0:
        return m_q(w[1])
    return ("x", ["", "nan", "inf", "-inf"][w[0]])


def Wopt(v):
    return [] if v is ABSENT else [W(v)]


def J(v):
    """abstract value -> tagged JSON value for the implementation runner"""
    if v is ABSENT:
        return None
    if isinstance(v, bool):
        return ["b", v]
    if isinstance(v, int):
        return ["i", v]
    if isinstance(v, Fr):
        return ["f", v.numerator, v.denominator]
    if v is None:
        return ["o"]
    if isinstance(v, float):            # IEEE specials / -0.0 (implementation-only stream)
        return ["x", repr(v)]
    if isinstance(v, str):
        return ["s", v]
    raise TypeError(repr(v))


def show(v):
    if v is ABSENT:
        return "<omitted>"
    if isinstance(v, Fr):
        return repr(float(v))
    if isinstance(v, float):
        return f"float({repr(v)!r})"
    return repr(v)


def num(v):
    """numeric value of an abstract scalar (None if not a number)"""
    if v is None or v is ABSENT or isinstance(v, (float, str)):
        return None
    return Fr(int(v)) if isinstance(v, (bool, int)) else v


def fnum(v):
    """numeric value of an abstract scalar as a float (exact: arguments are dyadic), None for a non-number"""
    q = num(v)
    if q is None or abs(q) > 2 ** 1000:       # beyond the float range: not a number the models talk about
        return None
    return q.numerator / q.denominator


def arg_class(v):
    if v is ABSENT:
        return "omitted"
    if isinstance(v, bool):
        return "bool"
    if isinstance(v, int):
        return "int"
    if isinstance(v, Fr):
        return "float-whole" if v.denominator == 1 else "float-frac"
    if v is None:
        return "None"
    return "special"


def wire_case(case):
    cls, ctor, ops = case
    table = SERVO_OPS if cls == "servo" else MOTOR_OPS
    wops = [[table[o[0]]] + [W(a) for a in o[1:]] for o in ops]
    if cls == "servo":
        return [0, [Wopt(a) for a in ctor], wops]
    return [1, [W(a) for a in ctor], wops]


def json_case(case):
    cls, ctor, ops = case
    return {"cls": cls, "ctor": [J(a) for a in ctor], "ops": [[o[0]] + [J(a) for a in o[1:]] for o in ops]}


def from_json_case(j):
    def val(t):
        if t is None:
            return ABSENT
        return {"i": lambda: int(t[1]), "b": lambda: bool(t[1]), "o": lambda: None, "f": lambda: Fr(t[1], t[2]),
                "x": lambda: float(t[1].strip("'\"")), "s": lambda: t[1]}[t[0]]()
    return (j["cls"], [val(a) for a in j["ctor"]], [tuple([o[0]] + [val(a) for a in o[1:]]) for o in j["ops"]])


def witness_case(w):
    """known-finding witness -> abstract case.  {"cls":..., "ctor":[...], "ops":[[name, args...]]} with floats as
    {"f":[num,den]}, IEEE specials as {"x":"nan"|"inf"|"-inf"}, omitted as "ABSENT", None as null."""
    def val(x):
        if x == "ABSENT":
            return ABSENT
        if isinstance(x, dict):
            if "x" in x:
                return float(x["x"])
            return Fr(x["f"][0], x["f"][1])
        return x
    return (w["cls"], [val(a) for a in w["ctor"]], [tuple([o[0]] + [val(a) for a in o[1:]]) for o in w["ops"]])


def show_case(case):
    cls, ctor, ops = case
    if cls == "servo":
        names = ["pin", "min_angle", "max_angle", "min_pulse_us", "max_pulse_us"]
        head = "Servo(" + ", ".join(f"{n}={show(a)}" for n, a in zip(names, ctor) if a is not ABSENT) + ")"
    else:
        head = "DCMotor(" + ", ".join(show(a) for a in ctor) + ")"
    return [head] + [f".{o[0]}(" + ", ".join(show(a) for a in o[1:]) + ")" for o in ops]


def replayable(case):
    return {"calls": show_case(case), "json": json_case(case)}


# --------------------------------------------------------------------------
# normal forms of outputs
# --------------------------------------------------------------------------

EXACT = [False]     # set by compare_case(exact=True): the model computes in binary64 (Host/DCMotorFloat.v), no tolerance


def m_q(w):
    # the model's exact rational, rounded once to binary64 (error 1e-16, tolerance is 1e-9; 0 stays 0);
    # in exact mode the rational itself (a Fraction compares exactly with a Python float)
    if EXACT[0]:
        return ("f", Fr(w[0], w[1]))
    return ("f", w[0] / w[1])


def m_pynum(w):
    t = w[0]
    if t == 0:
        return ("i", w[1])
    if t == 1:
        return m_q(w[1])
    if t == 2:
        return ("b", bool(w[1]))
    return ("o",)


def i_val(t):
    k = t[0]
    if k == "f":
        return ("f", t[1] / t[2])       # exact: the runner sends float.as_integer_ratio()
    if k == "i":
        return ("i", t[1])
    if k == "b":
        return ("b", bool(t[1]))
    if k == "o":
        return ("o",)
    if k == "s":
        return ("s", t[1])
    if k == "t":
        return ("t", tuple(i_val(x) for x in t[1]))
    if k == "x":
        return ("x", t[1])
    return ("?", t[1])


def fval(t):
    """float-valued observation -> float (None if it is not a finite float)"""
    v = i_val(t)
    return v[1] if v[0] == "f" else None


def close(a: float, b: float) -> bool:
    return abs(a - b) <= TOL * max(1, abs(a), abs(b))


def le(a, b, scale=1):
    return a <= b + TOL * max(1, abs(a), abs(b), scale)


def same(a, b) -> bool:
    """ints, bools, strings, None exact; floats to 1e-9 relative + absolute"""
    if a[0] != b[0]:
        return False
    if a[0] == "f":
        return a[1] == b[1] if EXACT[0] else close(a[1], b[1])
    if a[0] == "t":
        return len(a[1]) == len(b[1]) and all(same(x, y) for x, y in zip(a[1], b[1]))
    return a == b


def m_servo_snap(w):
    return {"pin": m_pynum(w[0]), "_min_angle": m_q(w[1]), "_max_angle": m_q(w[2]), "_min_pulse": m_q(w[3]),
            "_max_pulse": m_q(w[4]), "_current_angle": m_q(w[5]), "_current_pulse": m_q(w[6])}


def m_motor_snap(w):
    return {"pins": ("t", tuple(m_pynum(x) for x in w[0])), "_speed": m_q(w[1]), "_inverted": ("b", bool(w[2])),
            "_mode": ("s", MODES[w[3]]), "_applied_speed": m_q(w[4])}


def m_ret(w):
    t = w[0]
    if t == 0:
        return ("o",)
    if t == 1:
        return m_q(w[1])
    if t == 2:
        return ("b", bool(w[1]))
    return ("s", MODES[w[1]])


def m_events(cls, w):
    out = []
    for e in w:
        if cls == "servo":
            out.append(("lvl", m_q(e[1]), m_q(e[2])))
        elif e[0] == 0:
            out.append(("lvl", m_q(e[1]), m_q(e[2]), ("s", MODES[e[3]])))
        else:
            out.append(("sleep", m_q(e[1])))
    return out


def i_events(evs):
    out = []
    for e in evs:
        if e[0] == "sleep":
            v = i_val(e[1])
            if v[0] in ("i", "b"):          # run_for hands its argument to sleep unconverted
                v = ("f", float(int(v[1])))
            out.append(("sleep", v))
        else:
            out.append(("lvl",) + tuple(i_val(x) for x in e[1:]))
    return out


def zero_noise(model_applied, impl_applied, model_mode, impl_mode) -> bool:
    """The one place where exact rationals and binary64 may legitimately take different branches: on one side the
    applied speed is exactly 0 (mode coast) while on the other side the computation left a non-zero residue below
    1e-9 (mode drive), e.g. 0.1 + (-0.1/20)*20 in floats, or a ramp step that is exactly 0.0 in floats and 1e-17 over
    the rationals.  The property allows it ('to float rounding')."""
    if EXACT[0] or model_applied[0] != "f" or impl_applied[0] != "f":
        return False
    a, b = model_applied[1], impl_applied[1]
    return ((model_mode == ("s", "coast") and impl_mode == ("s", "drive") and a == 0 and 0 < abs(b) <= TOL)
            or (impl_mode == ("s", "coast") and model_mode == ("s", "drive") and b == 0 and 0 < abs(a) <= TOL))


# --------------------------------------------------------------------------
# correspondence
# --------------------------------------------------------------------------

class Stats:
    def __init__(self):
        self.ops = {}
        self.outcomes = {}
        self.ctor = {}
        self.lengths = {}
        self.args = {}
        self.nontrivial = set()
        self.steps = 0
        self.cases = 0
        self.compared = 0
        self.zero_noise = 0
        self.oracle_checks = 0
        self.streams = {}

    def bump(self, d, k, n=1):
        d[k] = d.get(k, 0) + n


def compare_case(ctx, st: Stats, case, m, r, exact=False):
    """model output m (wire) vs implementation output r (JSON) for one case; reports the first difference.
    exact=True: the model side was computed in binary64 - every float is compared for equality (no tolerance,
    no zero-residue allowance)."""
    EXACT[0] = bool(exact)
    try:
        return _compare_case(ctx, st, case, m, r, " [binary64 model, exact comparison]" if exact else "")
    finally:
        EXACT[0] = False


def _compare_case(ctx, st: Stats, case, m, r, tag):
    cls = case[0]
    label = show_case(case)

    def bad(what, mo, io):
        ctx.disagree(f"{cls}{tag}: {what}", replayable(case), mo, io)
        return False

    if m == [2]:
        return bad("model could not decode the case (harness bug)", m, None)
    mc = m[0]
    if mc[0] == 1:
        if r["ctor"][0] != "raise" or r["ctor"][1] != KINDS[mc[1]]:
            return bad("constructor outcome", "raises " + KINDS[mc[1]], r["ctor"])
        return True
    if r["ctor"][0] != "ok":
        return bad("constructor outcome", "accepts", r["ctor"])
    snap_of = m_servo_snap if cls == "servo" else m_motor_snap
    msnap = snap_of(mc[1])
    isnap = {k: i_val(v) for k, v in r["ctor"][1].items()}
    if set(msnap) != set(isnap):
        return bad("attribute set after construction", sorted(msnap), sorted(isnap))
    for k in msnap:
        if not same(msnap[k], isnap[k]):
            return bad(f"attribute {k} after construction", msnap[k], isnap[k])
    if len(m) - 1 != len(r["steps"]):
        return bad("number of steps", len(m) - 1, len(r["steps"]))
    ghost = 0
    for i, (ms, rs) in enumerate(zip(m[1:], r["steps"])):
        op = case[2][i]
        at = f"step {i} {label[i + 1]}"
        st.compared += 1
        mres = "ok" if ms[0] == 0 else "raise"
        if mres != rs["res"]:
            return bad(f"{at}: outcome", (mres, m_ret(ms[1]) if ms[0] == 0 else KINDS[ms[1]]), (rs["res"], rs["ret"]))
        msnap = snap_of(ms[2])
        isnap = {k: i_val(v) for k, v in rs["snap"].items()}
        noisy = cls == "motor" and zero_noise(msnap["_applied_speed"], isnap.get("_applied_speed", ("?",)),
                                              msnap["_mode"], isnap.get("_mode", ("?",)))
        if ms[0] == 1:
            if rs["ret"] != KINDS[ms[1]]:
                return bad(f"{at}: exception kind", KINDS[ms[1]], rs["ret"])
        else:
            mr, ir = m_ret(ms[1]), i_val(rs["ret"])
            if not same(mr, ir) and not (noisy and op[0] == "get_mode"):
                return bad(f"{at}: return value", mr, ir)
        if set(msnap) != set(isnap):
            return bad(f"{at}: attribute set", sorted(msnap), sorted(isnap))
        for k in msnap:
            if not same(msnap[k], isnap[k]) and not (noisy and k == "_mode"):
                return bad(f"{at}: attribute {k}", msnap[k], isnap[k])
        mev, iev = m_events(cls, ms[3]), i_events(rs["events"])
        if len(mev) != len(iev):
            return bad(f"{at}: number of events (sleeps + level events)", mev, iev)
        for a, b in zip(mev, iev):
            ok = a[0] == b[0] and len(a) == len(b) and all(same(x, y) for x, y in zip(a[1:], b[1:]))
            if not ok and cls == "motor" and a[0] == "lvl" == b[0] and len(b) == 4 and same(a[1], b[1]) \
                    and same(a[2], b[2]) and zero_noise(a[2], b[2], a[3], b[3]):
                ok = True
                st.zero_noise += 1
            if not ok:
                return bad(f"{at}: event", a, b)
        if noisy:
            st.zero_noise += 1
        if cls == "motor":
            # ghost "last successful command" of the model vs the one derived from the real outcomes
            if rs["res"] == "ok":
                if op[0] in ("stop", "run_for"):
                    ghost = 1
                elif op[0] in ("set_speed", "backward", "coast", "invert", "ramp"):
                    ghost = 0
            if ms[2][5] != ghost:
                return bad(f"{at}: ghost last-command of the model vs history", ms[2][5], ghost)
    return True


# --------------------------------------------------------------------------
# running the real classes
# --------------------------------------------------------------------------

def run_impl(cls, cases, real_sleep=False):
    """the real class on all cases: one runner process per chunk, chunks in parallel"""
    from concurrent.futures import ThreadPoolExecutor
    if not cases:
        return []
    n = max(1, min(C.NPROC, 8, len(cases) // 200 + 1))
    size = (len(cases) + n - 1) // n
    parts = [cases[i:i + size] for i in range(0, len(cases), size)]
    with ThreadPoolExecutor(max_workers=n) as ex:
        outs = list(ex.map(lambda part: C.run_impl(IMPL[cls], {"cases": [json_case(c) for c in part], "real_sleep": real_sleep},
                                                   timeout=900), parts))
    return [r for o in outs for r in o]


def account(st: Stats, case, r):
    """distribution bookkeeping for one executed case"""
    cls = case[0]
    st.cases += 1
    st.bump(st.lengths, len(case[2]))
    st.bump(st.ctor, cls + ":" + (r["ctor"][0] if r["ctor"][0] == "ok" else r["ctor"][1]))
    for a in case[1]:
        st.bump(st.args, "ctor:" + arg_class(a))
    prev = r["ctor"][1] if r["ctor"][0] == "ok" else None
    for op, rs in zip(case[2], r["steps"]):
        st.steps += 1
        st.bump(st.ops, cls + "." + op[0])
        st.bump(st.outcomes, cls + "." + op[0] + ":" + ("ok" if rs["res"] == "ok" else rs["ret"]))
        for a in op[1:]:
            st.bump(st.args, arg_class(a))
        if not op[0].startswith(("get", "is_", "read")) and (rs["res"] == "raise" or rs["snap"] != prev or rs["events"]):
            st.nontrivial.add((cls, repr(sorted(prev.items())), repr(op)))
        prev = rs["snap"]


def probe_oracle(ctx, oracle, case, r, **kw):
    """evaluate an oracle on one case with a throw-away context; returns its failures"""
    probe = C.Ctx(ctx.id if hasattr(ctx, "id") else ctx, "quick", 0)
    probe.findings = []
    oracle(probe, Stats(), case, r, **kw)
    return probe.failures


def distribution(st: Stats) -> dict:
    return {"cases": st.cases, "streams": st.streams, "sequence_lengths": {str(k): v for k, v in sorted(st.lengths.items())},
            "constructor_outcomes": st.ctor, "ops": dict(sorted(st.ops.items())),
            "outcomes": dict(sorted(st.outcomes.items())), "argument_kinds": dict(sorted(st.args.items())),
            "op_results_compared_with_model": st.compared,
            "oracle_invariant_evaluations": st.oracle_checks,
            "float_zero_residue_steps_tolerated": st.zero_noise}
