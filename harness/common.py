"""Shared machinery of the Reduino proof checks.

One run of ``./check Cxx`` does, in this order (DESIGN.md section 2):

  1. regenerate coq/Gen/*.v from /repo's working tree        (gen_tables.py)
  2. build the Coq cone of coq/Props/Cxx.v (full .vo), static gate, and
     re-run coqc on the property file to collect Print Assumptions
  3. extract the executable model (coq/Wire/CxxW.v : run : wv -> wv) to OCaml
  4. property module: correspondence model-vs-implementation, property oracle
     on the implementation, replay of listed known findings
  5. verdict + evidence/Cxx.json
"""
from __future__ import annotations

import fcntl
import hashlib
import json
import os
import random
import re
import shutil
import subprocess
import sys
import time
from fractions import Fraction
from pathlib import Path

VERIF = Path(__file__).resolve().parents[1]
REPO = Path(os.environ.get("REDUINO_REPO", "/repo"))
COQ = VERIF / "coq"
BUILD = VERIF / "build"
# evidence/ describes runs against /repo itself; a run against a scratch copy (REDUINO_REPO=..., used to try
# the checks on seeded changes) must not overwrite it
EVID = VERIF / "evidence" if str(REPO) == "/repo" else BUILD / "evidence-scratch"
REPLAYS = BUILD / "replays" if str(REPO) == "/repo" else BUILD / "replays-scratch"
PY = "/venv/bin/python"
NPROC = os.cpu_count() or 4

FORBIDDEN = re.compile(
    r"\b(Admitted|admit|Axiom|Axioms|Parameter|Parameters|Conjecture|Conjectures|"
    r"Admit Obligations|bypass_check|native_compute)\b|Unset\s+Guard|Unset\s+Positivity|"
    r"Unset\s+Universe|type-in-type|impredicative-set"
)


def impl_env(extra: dict | None = None) -> dict:
    env = dict(os.environ)
    env["PYTHONPATH"] = str(REPO / "src")
    env.setdefault("PYTHONHASHSEED", "0")
    env["REDUINO_VERIF"] = "1"
    env["PYTHONDONTWRITEBYTECODE"] = "1"
    if extra:
        env.update(extra)
    return env


def sh(cmd, cwd=None, timeout=900, env=None, input=None):
    p = subprocess.run(
        cmd, cwd=cwd, timeout=timeout, env=env, input=input,
        stdout=subprocess.PIPE, stderr=subprocess.STDOUT, text=True,
        shell=isinstance(cmd, str),
    )
    return p.returncode, p.stdout


# --------------------------------------------------------------------------
# wire values: nested lists of ints  <->  s-expressions
# --------------------------------------------------------------------------

def to_sexp(v) -> str:
    if isinstance(v, bool):
        return "1" if v else "0"
    if isinstance(v, int):
        return str(v)
    if isinstance(v, Fraction):
        return f"({v.numerator} {v.denominator})"
    if isinstance(v, str):
        return "(" + " ".join(str(ord(c)) for c in v) + ")"
    if isinstance(v, (list, tuple)):
        return "(" + " ".join(to_sexp(x) for x in v) + ")"
    raise TypeError(f"cannot encode {v!r}")


def from_sexp(s: str):
    toks = s.replace("(", " ( ").replace(")", " ) ").split()
    pos = 0

    def rd():
        nonlocal pos
        t = toks[pos]
        pos += 1
        if t == "(":
            out = []
            while toks[pos] != ")":
                out.append(rd())
            pos += 1
            return out
        return int(t)

    v = rd()
    if pos != len(toks):
        raise ValueError("trailing tokens in " + s[:80])
    return v


def wstr(v) -> str:
    """decode a wire list of code points"""
    return "".join(chr(c) for c in v)


def wq(v) -> Fraction:
    return Fraction(v[0], v[1])


# --------------------------------------------------------------------------
# Coq build
# --------------------------------------------------------------------------

class BuildLock:
    def __enter__(self):
        BUILD.mkdir(exist_ok=True)
        self.f = open(BUILD / ".lock", "w")
        fcntl.flock(self.f, fcntl.LOCK_EX)
        return self

    def __exit__(self, *a):
        fcntl.flock(self.f, fcntl.LOCK_UN)
        self.f.close()


def coq_sources():
    return sorted(str(p.relative_to(COQ)) for p in COQ.rglob("*.v") if ".coq-native" not in str(p))


def write_if_changed(path: Path, text: str) -> bool:
    if path.exists() and path.read_text() == text:
        return False
    path.parent.mkdir(parents=True, exist_ok=True)
    path.write_text(text)
    return True


def regenerate_tables():
    """Run the translator against /repo's working tree (fail-closed)."""
    rc, out = sh([PY, str(VERIF / "harness" / "gen_tables.py")], env=impl_env(), timeout=300)
    return rc == 0, out


def static_gate():
    bad = []
    for rel in coq_sources():
        txt = (COQ / rel).read_text()
        # strip comments (non-nested approximation is enough: forbidden words in
        # comments are also rejected unless inside (* ... *) on one line)
        stripped = re.sub(r"\(\*.*?\*\)", "", txt, flags=re.S)
        for m in FORBIDDEN.finditer(stripped):
            bad.append(f"{rel}: {m.group(0)}")
    return bad


def make_project():
    srcs = coq_sources()
    text = "-Q . RV\n-arg -w -arg -notation-overridden,-deprecated-hint-without-locality,-deprecated-instance-without-locality\n" + "\n".join(srcs) + "\n"
    changed = write_if_changed(COQ / "_CoqProject", text)
    if changed or not (COQ / "Makefile").exists():
        rc, out = sh(["coq_makefile", "-f", "_CoqProject", "-o", "Makefile"], cwd=COQ)
        if rc != 0:
            raise RuntimeError("coq_makefile failed: " + out)


def coq_make(targets, timeout=1500):
    """make the given .vo targets (relative to coq/); returns (ok, log)."""
    make_project()
    cmd = ["timeout", str(timeout), "make", f"-j{NPROC}"] + list(targets)
    rc, out = sh(cmd, cwd=COQ, timeout=timeout + 30)
    return rc == 0, out


THM_RE = re.compile(r"^\s*(Theorem|Lemma|Corollary|Example|Fact|Proposition)\s+([A-Za-z0-9_']+)", re.M)
PA_RE = re.compile(r"^\s*Print Assumptions\s+([A-Za-z0-9_'.]+)\s*\.", re.M)


def check_props_file(prop_id: str):
    """Compile Props/<id>.v directly, collecting theorem names and axioms.

    Returns dict(ok, theorems=[{name, accepted, axioms}], log, failed_at)"""
    rel = f"Props/{prop_id}.v"
    src = (COQ / rel).read_text()
    names = [m.group(2) for m in THM_RE.finditer(src)]
    pa_names = [m.group(1) for m in PA_RE.finditer(src)]
    cmd = ["timeout", "600", "coqc", "-Q", ".", "RV", "-w",
           "-notation-overridden,-deprecated-hint-without-locality,-deprecated-instance-without-locality", rel]
    rc, out = sh(cmd, cwd=COQ, timeout=640)
    records = []
    cur = None
    in_ax = False      # inside an "Axioms:" block (Coq prints the axiom names at column 0 on the following lines)
    for line in out.splitlines():
        if line.strip() == "Closed under the global context":
            cur = []
            in_ax = False
            records.append(cur)
        elif line.startswith("Axioms:"):
            cur = [line[len("Axioms:"):].strip()] if line[len("Axioms:"):].strip() else []
            in_ax = True
            records.append(cur)
        elif in_ax and cur is not None and re.match(r"^[A-Za-z_][\w.']*\s*($|:)", line):
            cur.append(line.strip())
        elif cur is not None and records and line.startswith(" ") and cur is records[-1] and (cur or line.strip()):
            if cur is not None and line.strip() and not line.startswith("File"):
                cur.append(line.strip())
        else:
            cur = None
    axioms = {}
    for i, n in enumerate(pa_names):
        if i < len(records):
            axioms[n] = records[i]
    failed_line = None
    if rc != 0:
        m = re.search(r'line (\d+)', out)
        failed_line = int(m.group(1)) if m else 0
    theorems = []
    for m in THM_RE.finditer(src):
        name = m.group(2)
        line = src.count("\n", 0, m.start()) + 1
        nxt = src.find("\nTheorem", m.end())
        accepted = rc == 0 or (failed_line is not None and name in axioms)
        theorems.append({"name": name, "accepted": bool(accepted), "axioms": axioms.get(name), "line": line})
    return {"ok": rc == 0 and len(pa_names) >= 1 and all(n in axioms for n in pa_names),
            "theorems": theorems, "log": out[-4000:], "failed_line": failed_line,
            "unprinted": [n for n in names if n not in pa_names and n.split(".")[-1] not in pa_names]}


def run_coqchk(units, timeout=2400):
    """Independent re-check of the compiled property files and everything they depend on (thorough tier).
    Returns dict(ok, axioms=[...], summary=text)."""
    mods = [f"RV.Props.{u}" for u in units]
    rc, out = sh(["timeout", str(timeout), "coqchk", "-silent", "-o", "-Q", ".", "RV"] + mods, cwd=COQ, timeout=timeout + 30)
    summ = out[out.find("CONTEXT SUMMARY"):] if "CONTEXT SUMMARY" in out else out[-1500:]
    axioms, cur = [], None
    for line in summ.splitlines():
        if line.startswith("* "):
            cur = line[2:].split(":")[0]
            rest = line.split(":", 1)[1].strip() if ":" in line else ""
            if cur == "Axioms" and rest and rest != "<none>":
                axioms.append(rest)
        elif cur == "Axioms" and line.strip():
            axioms.append(line.strip())
    bad = [k for k in ("type-in-type", "unsafe (co)fixpoints", "positivity is assumed")
           if re.search(re.escape(k) + r"[^\n]*:\s*(?!<none>)\S", summ)]
    return {"ok": rc == 0 and not bad, "rc": rc, "axioms": axioms, "unsafe": bad, "summary": summ[-1200:]}


# --------------------------------------------------------------------------
# extraction + OCaml driver
# --------------------------------------------------------------------------

DRIVER_ML = r'''
(* generic line driver: one s-expression per line in, one per line out.
   Integers are converted between decimal text and the extracted inductive Z
   through Zarith (I/O glue only; the model computes on the inductive type). *)
module ZA = Z
open Model
let rec pos_of_z (n : ZA.t) : positive =
  if ZA.equal n ZA.one then XH
  else if ZA.is_even n then XO (pos_of_z (ZA.shift_right n 1))
  else XI (pos_of_z (ZA.shift_right n 1))
let z_of_zarith (n : ZA.t) : z =
  if ZA.sign n = 0 then Z0 else if ZA.sign n > 0 then Zpos (pos_of_z n) else Zneg (pos_of_z (ZA.neg n))
let rec zarith_of_pos = function
  | XH -> ZA.one
  | XO p -> ZA.shift_left (zarith_of_pos p) 1
  | XI p -> ZA.succ (ZA.shift_left (zarith_of_pos p) 1)
let zarith_of_z = function Z0 -> ZA.zero | Zpos p -> zarith_of_pos p | Zneg p -> ZA.neg (zarith_of_pos p)
let tokenize (s : string) : string list =
  let b = Buffer.create 16 and out = ref [] in
  let flush () = if Buffer.length b > 0 then (out := Buffer.contents b :: !out; Buffer.clear b) in
  String.iter (fun c -> match c with
    | '(' -> flush (); out := "(" :: !out
    | ')' -> flush (); out := ")" :: !out
    | ' ' | '\t' | '\r' | '\n' -> flush ()
    | c -> Buffer.add_char b c) s;
  flush (); List.rev !out
let rec parse toks = match toks with
  | "(" :: rest -> let (items, rest') = parse_list rest [] in (WL items, rest')
  | ")" :: _ -> failwith "unexpected )"
  | t :: rest -> (WI (z_of_zarith (ZA.of_string t)), rest)
  | [] -> failwith "eof"
and parse_list toks acc = match toks with
  | ")" :: rest -> (List.rev acc, rest)
  | _ -> let (v, rest) = parse toks in parse_list rest (v :: acc)
let rec print b = function
  | WI z -> Buffer.add_string b (ZA.to_string (zarith_of_z z))
  | WL l -> Buffer.add_char b '(';
      List.iteri (fun i v -> if i > 0 then Buffer.add_char b ' '; print b v) l;
      Buffer.add_char b ')'
let () =
  try while true do
    let line = input_line stdin in
    if String.trim line <> "" then begin
      let (v, _) = parse (tokenize line) in
      let r = Model.run v in
      let b = Buffer.create 256 in print b r; print_endline (Buffer.contents b)
    end
  done with End_of_file -> ()
'''


def tree_hash(paths) -> str:
    h = hashlib.sha256()
    for p in sorted(paths):
        h.update(str(p).encode())
        h.update(Path(p).read_bytes())
    return h.hexdigest()


def build_model(prop_id: str, wire_module: str | None = None):
    # prop_id may be a unit name such as "C19_led"
    """Extract RV.Wire.<id>W.run and compile the driver.  Returns path of binary."""
    wire_module = wire_module or f"{prop_id}W"
    d = BUILD / "extract" / prop_id
    d.mkdir(parents=True, exist_ok=True)
    vo = COQ / "Wire" / f"{wire_module}.vo"
    stamp = d / "stamp"
    key = hashlib.sha256(vo.read_bytes()).hexdigest() + hashlib.sha256(DRIVER_ML.encode()).hexdigest()
    exe = d / "model"
    if exe.exists() and stamp.exists() and stamp.read_text() == key:
        return exe
    (d / "extract.v").write_text(
        "Require Import ExtrOcamlBasic.\n"
        f"From RV Require Wire.{wire_module}.\n"
        "Extraction Language OCaml.\n"
        "Set Extraction Optimize.\n"
        f'Extraction "model.ml" RV.Wire.{wire_module}.run.\n'
    )
    rc, out = sh(["timeout", "300", "coqc", "-Q", str(COQ), "RV", "extract.v"], cwd=d, timeout=330)
    if rc != 0:
        raise RuntimeError("extraction failed:\n" + out)
    (d / "driver.ml").write_text(DRIVER_ML)
    rc, out = sh(["ocamlfind", "ocamlopt", "-w", "-a", "-package", "zarith", "-linkpkg",
                  "model.mli", "model.ml", "driver.ml", "-o", "model"], cwd=d, timeout=300)
    if rc != 0:
        raise RuntimeError("ocaml build failed:\n" + out)
    stamp.write_text(key)
    return exe


def run_model(exe: Path, cases, chunk=None, timeout=900):
    """cases: list of wire values.  Returns list of wire values."""
    if not cases:
        return []
    chunk = chunk or max(1, (len(cases) + NPROC - 1) // NPROC)
    parts = [cases[i:i + chunk] for i in range(0, len(cases), chunk)]
    procs = []
    for part in parts:
        p = subprocess.Popen([str(exe)], stdin=subprocess.PIPE, stdout=subprocess.PIPE,
                             stderr=subprocess.PIPE, text=True,
                             preexec_fn=lambda: __import__("resource").setrlimit(
                                 __import__("resource").RLIMIT_STACK,
                                 (__import__("resource").RLIM_INFINITY, __import__("resource").RLIM_INFINITY)))
        procs.append((p, part))
    import threading
    results = [None] * len(procs)

    def work(i, p, part):
        data = "\n".join(to_sexp(c) for c in part) + "\n"
        try:
            out, err = p.communicate(data, timeout=timeout)
        except subprocess.TimeoutExpired:
            p.kill()
            out, err = "", "timeout"
        results[i] = (out, err, p.returncode)

    ths = [threading.Thread(target=work, args=(i, p, part)) for i, (p, part) in enumerate(procs)]
    for t in ths:
        t.start()
    for t in ths:
        t.join()
    outs = []
    for (p, part), (out, err, rc) in zip(procs, results):
        lines = [l for l in out.splitlines() if l.strip()]
        if rc != 0 or len(lines) != len(part):
            raise RuntimeError(f"model driver failed rc={rc} got {len(lines)}/{len(part)} lines: {err[:500]}")
        outs.extend(from_sexp(l) for l in lines)
    return outs


# --------------------------------------------------------------------------
# known findings
# --------------------------------------------------------------------------

def load_findings(prop_id: str):
    f = VERIF / "known_findings.json"
    if not f.exists():
        return []
    data = json.loads(f.read_text())
    return [e for e in data.get("findings", []) if e.get("property") == prop_id]


def merge_findings():
    """known_findings.d/*.json (one file per work package) -> known_findings.json (the one committed file the checks read)."""
    d = VERIF / "known_findings.d"
    items = []
    for p in sorted(d.glob("*.json")):
        items += json.loads(p.read_text())
    f = VERIF / "known_findings.json"
    head = {"comment": "Genuine defects of Jackhammer9/Reduino recorded rather than repaired (kind=finding), keyed by witness, and repaired ones (kind=fixed, suppress nothing). Assembled from known_findings.d/*.json by ./check manifest; never written by a check run.",
            "findings": items}
    f.write_text(json.dumps(head, indent=1, ensure_ascii=False) + "\n")
    return len(items)


# --------------------------------------------------------------------------
# run context
# --------------------------------------------------------------------------

class Ctx:
    def __init__(self, prop_id: str, tier: str, seed: int):
        self.id = prop_id
        self.tier = tier
        self.seed = seed
        self.rng = random.Random(f"{prop_id}:{seed}")
        self.t0 = time.time()
        self.proof = {"ok": False, "theorems": [], "log": "", "stage": "not-run"}
        self.tie_broken: list[dict] = []      # model/implementation disagreements
        self.failures: list[dict] = []        # property failures on the implementation (inside guard)
        self.known_lines: list[str] = []
        self.coverage: dict = {}
        self.assumptions: list[str] = []
        self.exe = None
        self.exes: dict = {}
        self.units = [prop_id]
        self.findings = load_findings(prop_id)
        self.notes: list[str] = []

    # ---- stage 1-3
    def prepare(self, wire=True, extra_targets=(), units=None):
        """units: names U with coq/Props/U.v (theorems) and, if wire, coq/Wire/UW.v (run : wv -> wv)."""
        self.units = list(units or [self.id])
        wire_units = self.units if wire is True else (list(wire) if wire else [])
        with BuildLock():
            ok, out = regenerate_tables()
            if not ok:
                last = out.strip().splitlines()[-1] if out.strip() else "translator failed"
                self.proof = {"ok": False, "theorems": [], "log": out[-3000:], "stage": "translator",
                              "what": "translator (harness/gen) failed, fail-closed: " + last}
                return False
            bad = static_gate()
            if bad:
                self.proof = {"ok": False, "theorems": [], "log": "\n".join(bad), "stage": "static-gate",
                              "what": "forbidden construct in development: " + "; ".join(bad[:5])}
                return False
            targets = [f"Props/{u}.vo" for u in self.units] + [f"Wire/{u}W.vo" for u in wire_units] + list(extra_targets)
            ok, out = coq_make(targets)
            if not ok:
                m = re.findall(r'File "\./([^"]+)", line (\d+)[^\n]*\n(?:.*\n)*?Error:?\s*(.*)', out)
                where = f"{m[0][0]}:{m[0][1]}: {m[0][2][:300]}" if m else out[-600:]
                self.proof = {"ok": False, "theorems": [], "log": out[-4000:], "stage": "make",
                              "what": "Coq build failed at " + where}
                # the models may still be executable even when a proof broke
                for u in wire_units:
                    try:
                        ok2, _ = coq_make([f"Wire/{u}W.vo"])
                        if ok2:
                            self.exes[u] = build_model(u)
                    except Exception:
                        pass
                self.exe = self.exes.get(self.units[0])
                return False
            allres = {"ok": True, "theorems": [], "log": "", "stage": "props"}
            for u in self.units:
                res = check_props_file(u)
                allres["theorems"] += res["theorems"]
                allres["log"] += res["log"][-1500:]
                if not res["ok"]:
                    allres["ok"] = False
                    bad_t = [t["name"] for t in res["theorems"] if not t["accepted"]]
                    allres.setdefault("what", f"Props/{u}.v no longer checks (line {res.get('failed_line')}; first unaccepted: {bad_t[:1]})")
            if allres["ok"] and self.tier == "thorough" and os.environ.get("VERIF_NO_COQCHK") != "1":
                chk = run_coqchk(self.units)
                allres["coqchk"] = chk
                if not chk["ok"]:
                    allres["ok"] = False
                    allres["what"] = "coqchk rejected the compiled property files: " + chk["summary"][-300:]
            self.proof = allres
            for u in wire_units:
                self.exes[u] = build_model(u)
            self.exe = self.exes.get(self.units[0])
            return allres["ok"]

    def model(self, cases, unit=None, **kw):
        exe = self.exes.get(unit) if unit else self.exe
        if exe is None:
            raise RuntimeError("model executable unavailable")
        return run_model(exe, cases, **kw)

    # ---- reporting
    def disagree(self, what: str, case, model_out, impl_out):
        self.tie_broken.append({"what": what, "case": case, "model": model_out, "impl": impl_out})

    def fail(self, what: str, case, expected=None, observed=None, key=None):
        """a property failure on the real implementation, on an input inside the guard"""
        self.failures.append({"what": what, "case": case, "expected": expected, "observed": observed, "key": key})

    def known(self, what: str):
        line = f"KNOWN-FINDING: property={self.id} {what}"
        self.known_lines.append(line)

    # ---- verdict
    def finish(self, level="proof"):
        REPLAYS.mkdir(parents=True, exist_ok=True)
        EVID.mkdir(parents=True, exist_ok=True)
        out_lines = []
        violations = 0
        for l in self.known_lines:
            out_lines.append(l)
        proof_ok = bool(self.proof.get("ok"))
        if self.failures:
            seen = set()
            for i, f in enumerate(self.failures):
                k = f.get("key") or f["what"]
                if k in seen:
                    continue
                seen.add(k)
                if len(seen) > 5:
                    break
                path = REPLAYS / f"{self.id}_{self.tier}_{self.seed}_{len(seen)}.json"
                path.write_text(json.dumps({"property": self.id, "kind": "property-failure-on-implementation",
                                            "proof_ok": proof_ok, "tie_broken": len(self.tie_broken),
                                            **f}, indent=1, default=str))
                out_lines.append(f"VIOLATION property={self.id} replay={path}")
                violations += 1
        elif not proof_ok or self.tie_broken:
            path = REPLAYS / f"{self.id}_{self.tier}_{self.seed}_unproved.json"
            path.write_text(json.dumps({
                "property": self.id, "kind": "no-longer-shown-to-hold",
                "broken_proof": None if proof_ok else {"stage": self.proof.get("stage"), "what": self.proof.get("what"),
                                                        "log_tail": self.proof.get("log", "")[-2000:]},
                "broken_correspondence": self.tie_broken[:5],
                "n_disagreements": len(self.tie_broken),
                "search": "property oracle on the implementation found no failing input at this budget",
            }, indent=1, default=str))
            out_lines.append(f"VIOLATION property={self.id} replay={path} no-failing-input-found")
            violations += 1
        thms = self.proof.get("theorems", [])
        cov = {
            "obligations": max(1, len(thms)),
            "discharged": sum(1 for t in thms if t["accepted"]),
            "checker_cmd": "cd /verif/coq && make " + " ".join(f"Props/{u}.vo" for u in self.units) + " && coqc -Q . RV Props/<unit>.v   (full .vo build, Coq 8.16.1 kernel; Print Assumptions after every theorem)",
            "theorems": [{"name": t["name"], "accepted": t["accepted"], "axioms": t["axioms"]} for t in thms],
            "proof_stage": self.proof.get("stage"),
            "coqchk": ({"ok": self.proof["coqchk"]["ok"], "axioms_of_loaded_libraries": self.proof["coqchk"]["axioms"],
                        "cmd": "coqchk -silent -o -Q . RV " + " ".join(f"RV.Props.{u}" for u in self.units)}
                       if self.proof.get("coqchk") else "thorough tier only"),
            "correspondence_disagreements": len(self.tie_broken),
            "oracle_failures": len(self.failures),
            "known_findings_replayed": self.known_lines,
        }
        cov.update(self.coverage)
        cov.setdefault("trusted_base", [])
        cov.setdefault("evaluations", 0)
        cov.setdefault("distinct_nontrivial", 0)
        cov.setdefault("rule", "")
        cov.setdefault("samples", [])
        ev = {
            "property_id": self.id, "tier": self.tier, "seed": self.seed, "level": level,
            "coverage": cov, "assumptions": self.assumptions, "wall_s": round(time.time() - self.t0, 2),
            "violations": violations,
        }
        (EVID / f"{self.id}.json").write_text(json.dumps(ev, indent=1, default=str) + "\n")
        for l in out_lines:
            print(l)
        print(f"[{self.id}] tier={self.tier} seed={self.seed} theorems={cov['discharged']}/{cov['obligations']} "
              f"evaluations={cov['evaluations']} disagreements={len(self.tie_broken)} failures={len(self.failures)} "
              f"wall={ev['wall_s']}s -> {'VIOLATION' if violations else 'ok'}")
        return 1 if violations else 0


COMMON_TRUSTED = [
    "Coq 8.16.1 kernel (coqc full .vo build; vm_compute used by finite-domain lemmas; no native_compute)",
    "Print Assumptions output per theorem is copied into coverage.theorems[].axioms ([] = Closed under the global context)",
    "extraction: ExtrOcamlBasic only (its Extract Inductive for bool, option, list, prod, unit, sumbool, sumor); no Extract Constant; Z/positive/Q stay inductive",
    "harness/common.py DRIVER_ML (s-expression line driver, Zarith used only for decimal I/O), ocamlfind ocamlopt 4.13.1",
    "harness/gen_tables.py translator (imports /repo's current modules, prints tables into coq/Gen/*.v, fail-closed)",
]


def run_impl(script: str, payload, timeout=600, env_extra=None, python=PY):
    """Run harness/impl/<script> on the real implementation (subprocess, PYTHONPATH=/repo/src)."""
    p = subprocess.run([python, str(VERIF / "harness" / "impl" / script)], input=json.dumps(payload),
                       stdout=subprocess.PIPE, stderr=subprocess.PIPE, text=True, timeout=timeout,
                       env=impl_env(env_extra), cwd=str(BUILD))
    if p.returncode != 0:
        raise RuntimeError(f"implementation runner {script} failed rc={p.returncode}: {p.stderr[-1500:]}")
    out = p.stdout
    # conda may print a warning line first
    i = min([k for k in (out.find("["), out.find("{")) if k >= 0] or [0])
    return json.loads(out[i:])
