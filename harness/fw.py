"""Firmware side: transpile with the real Reduino, compile the emitted C++ against the
mock Arduino core (/verif/mock), run it with scripted inputs, return the event trace."""
from __future__ import annotations

import hashlib
import os
import shutil
import subprocess
import tempfile
from concurrent.futures import ThreadPoolExecutor
from pathlib import Path

from harness import common as C

MOCK = C.VERIF / "mock"
FWB = C.BUILD / "fw"
CXXFLAGS = ["-std=gnu++17", "-O0", "-w", f"-I{MOCK}"]
SAN = ["-fsanitize=address,undefined", "-fno-omit-frame-pointer", "-g"]


def _mock_hash():
    h = hashlib.sha256()
    for p in sorted(MOCK.glob("*")):
        h.update(p.name.encode())
        h.update(p.read_bytes())
    return h.hexdigest()[:16]


def ensure_core(san=False) -> Path:
    FWB.mkdir(parents=True, exist_ok=True)
    tag = _mock_hash() + ("_san" if san else "")
    obj = FWB / f"mock_core_{tag}.o"
    if obj.exists():
        return obj
    with C.BuildLock():
        if obj.exists():
            return obj
        cxx = "clang++" if san else "g++"
        cmd = [cxx] + CXXFLAGS + (SAN if san else []) + ["-c", str(MOCK / "mock_core.cpp"), "-o", str(obj) + ".tmp"]
        rc, out = C.sh(cmd, timeout=300)
        if rc != 0:
            raise RuntimeError("mock core failed to compile:\n" + out)
        os.replace(str(obj) + ".tmp", obj)
        for old in FWB.glob("mock_core_*.o"):
            if tag.split("_")[0] not in old.name:
                old.unlink()
    return obj


def transpile_many(sources, timeout_each=20, env_extra=None, chunk=200):
    """real parse+emit; returns list of {"ok","cpp"} / {"ok":False,"exc","msg"}"""
    out = []
    for i in range(0, len(sources), chunk):
        part = sources[i:i + chunk]
        out += C.run_impl("transpile_impl.py", {"sources": part, "timeout": timeout_each},
                          timeout=timeout_each * len(part) + 60, env_extra=env_extra)
    return out


def _one(job, core, san, workdir):
    d = Path(tempfile.mkdtemp(dir=workdir))
    try:
        (d / "sketch.cpp").write_text(job["cpp"])
        cxx = "clang++" if san else "g++"
        cmd = [cxx] + CXXFLAGS + (SAN if san else []) + list(job.get("cxxflags", [])) + ["sketch.cpp", str(core), "-o", "sketch"]
        try:
            p = subprocess.run(cmd, cwd=d, stdout=subprocess.PIPE, stderr=subprocess.STDOUT, text=True, timeout=180)
        except subprocess.TimeoutExpired:
            return {"compiled": False, "compile_log": "compiler timeout", "events": [], "rc": None, "stderr": ""}
        if p.returncode != 0:
            return {"compiled": False, "compile_log": p.stdout[-3000:], "events": [], "rc": None, "stderr": ""}
        if job.get("compile_only"):
            return {"compiled": True, "compile_log": "", "events": [], "rc": None, "stderr": ""}
        env = {"PATH": os.environ.get("PATH", ""), "REDU_LOOPS": str(job.get("loops", 0)),
               "ASAN_OPTIONS": "detect_leaks=0:abort_on_error=0:exitcode=99", "UBSAN_OPTIONS": "print_stacktrace=0:halt_on_error=1:exitcode=98"}
        if job.get("input"):
            (d / "input.txt").write_text(job["input"])
            env["REDU_INPUT"] = str(d / "input.txt")
        env.update(job.get("env", {}))
        try:
            r = subprocess.run([str(d / "sketch")], cwd=d, env=env, stdout=subprocess.PIPE, stderr=subprocess.PIPE,
                               timeout=job.get("run_timeout", 20))
            rc, so, se = r.returncode, r.stdout.decode("utf-8", "replace"), r.stderr.decode("utf-8", "replace")
        except subprocess.TimeoutExpired as e:
            rc, so, se = "timeout", (e.stdout or b"").decode("utf-8", "replace"), ""
        return {"compiled": True, "compile_log": "", "events": so.splitlines(), "rc": rc, "stderr": se[-3000:]}
    finally:
        shutil.rmtree(d, ignore_errors=True)


def run_sketches(jobs, san=False, workers=None):
    """jobs: [{"cpp": text, "input": text, "loops": n, "env": {...}, "compile_only": bool}]"""
    if not jobs:
        return []
    core = ensure_core(san)
    workdir = Path(tempfile.mkdtemp(prefix="run-", dir=FWB))
    try:
        with ThreadPoolExecutor(max_workers=workers or C.NPROC) as ex:
            return list(ex.map(lambda j: _one(j, core, san, workdir), jobs))
    finally:
        shutil.rmtree(workdir, ignore_errors=True)


def split_phases(events):
    """-> (pre, setup_events, [loop pass events...]); 'M' marks removed."""
    pre, setup, loops, cur = [], None, [], None
    for e in events:
        if e == "M setup":
            setup = []
            cur = setup
        elif e.startswith("M loop "):
            cur = []
            loops.append(cur)
        elif e == "M end":
            cur = None
        elif cur is None and setup is None:
            pre.append(e)
        elif cur is not None:
            cur.append(e)
    return pre, setup or [], loops


def split_cases(events, marker="S ##case "):
    """split a batched trace at serial marker lines '##case <id>' -> {id: [events]}"""
    out, cur = {}, None
    for e in events:
        if e.startswith(marker):
            cur = e[len(marker):].strip()
            out[cur] = []
        elif cur is not None:
            out[cur].append(e)
    return out


def pyrun_many(jobs, timeout_each=10, chunk=100):
    """CPython reference traces: jobs [{"src","input","loops"}] -> [{"events","exc"}]"""
    out = []
    for i in range(0, len(jobs), chunk):
        part = jobs[i:i + chunk]
        out += C.run_impl("pyrun_impl.py", {"jobs": part, "timeout": timeout_each}, timeout=timeout_each * len(part) + 60)
    return out
