"""Translator plug-in for C02: regenerates coq/Gen/InferTables.v from the current
Reduino.transpile.parser (fail-closed).  Tables:
  builtin_ret_labels : _BUILTIN_CALL_RETURN_TYPES   (call name -> result label), in dict order
  annotation_labels  : the mapping of _annotation_to_type_label, probed on the names the model knows
"""
import ast


def generate(api):
    from Reduino.transpile import parser as P
    tbl = getattr(P, "_BUILTIN_CALL_RETURN_TYPES", None)
    if not isinstance(tbl, dict) or not tbl:
        api.die("_BUILTIN_CALL_RETURN_TYPES is not a non-empty dict")
    rows = []
    for k, v in tbl.items():
        if not isinstance(k, str) or not isinstance(v, str) or not k.isidentifier():
            api.die("_BUILTIN_CALL_RETURN_TYPES has an entry that is not identifier -> str")
        if v not in ("int", "float", "bool", "String", "void"):
            api.die(f"_BUILTIN_CALL_RETURN_TYPES[{k!r}] = {v!r} is not a scalar label")
        rows.append("(" + api.ctext(k) + ", " + api.ctext(v) + ") (* " + k + " -> " + v + " *)")
    out = [api.HEADER.replace("gen_tables.py", "gen/c02_infer.py")]
    out.append("Definition builtin_ret_labels : list (text * text) := " + api.clist(rows) + ".\n\n")
    # annotation names -> label (probe of the real function; None annotation first)
    fn = getattr(P, "_annotation_to_type_label", None)
    if fn is None:
        api.die("_annotation_to_type_label missing")
    names = ["int", "float", "bool", "str", "String", "None", "void", "list", "object"]
    rows = []
    for n in names:
        lab = fn(ast.parse(n, mode="eval").body)
        if not isinstance(lab, str):
            api.die("_annotation_to_type_label does not return str")
        rows.append("(" + api.ctext(n) + ", " + api.ctext(lab) + ") (* " + n + " -> " + lab + " *)")
    none_lab = fn(None)
    if not isinstance(none_lab, str):
        api.die("_annotation_to_type_label(None) does not return str")
    out.append("Definition annotation_labels : list (text * text) := " + api.clist(rows) + ".\n\n")
    out.append("Definition annotation_missing_label : text := " + api.ctext(none_lab) + ".\n")
    api.write_if_changed(api.GEN / "InferTables.v", "".join(out))
