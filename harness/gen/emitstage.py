"""Translator plug-in for C08 (emitter stage): coq/Gen/EmitStage.v from the CURRENT emitter.

For every IR node kind of harness/impl/c08_impl.py ROWS (constructors and statement methods) the real parser
builds the node of the fully spelled call; then every field that carries a parameter is replaced, one at a
time, directly in the dataclass (the parser is not involved) by None / 0 / 0.0 / False / "" / 7 / 7.5 / True /
a sentinel C expression, the program is emitted by the real emit() and the lines the node contributes are compared:

* presence test of the field: PAlways (None is not accepted / not nullable), PNotNone (no falsy constant is
  emitted like None), PTruthy (some falsy constant is emitted exactly like None);
* ef_falsy_def: a falsy constant is emitted exactly like the parameter's signature default although it differs from it;
* slots: the emitted lines that contain the sentinel (own sentinel cut out, device name normalised), hashed, once
  for every presence pattern (None / sentinel) of the other nullable fields of the node.

Fail-closed (api.die) on a node kind that no longer exists, a baseline call the parser no longer accepts, a
field the dataclass no longer has."""
from __future__ import annotations

import collections
import dataclasses
import hashlib
import importlib.util
import itertools
from pathlib import Path

FALSY = [0, 0.0, False, ""]
MAX_PATTERNS = 16


def _load(name):
    p = Path(__file__).resolve().parents[1] / "impl" / (name + ".py")
    spec = importlib.util.spec_from_file_location(name + "_for_emitstage", p)
    m = importlib.util.module_from_spec(spec)
    spec.loader.exec_module(m)
    return m


def _props():
    import sys
    root = str(Path(__file__).resolve().parents[2])
    if root not in sys.path:
        sys.path.insert(0, root)
    from harness.props import c08 as P
    return P


def added_lines(cpp, base):
    have = collections.Counter(base.splitlines())
    out = []
    for ln in cpp.splitlines():
        if have.get(ln, 0) > 0:
            have[ln] -= 1
        else:
            out.append(ln.strip())
    return out


def sentinel(field):
    return "__S_%s__" % field


def _split_args(text):
    """split at top-level commas (parentheses, brackets, quotes respected)"""
    out, cur, depth, q = [], "", 0, None
    for ch in text:
        if q:
            cur += ch
            if ch == q:
                q = None
            continue
        if ch in "\"'":
            q = ch
            cur += ch
        elif ch in "([{":
            depth += 1
            cur += ch
        elif ch in ")]}":
            depth -= 1
            cur += ch
        elif ch == "," and depth == 0:
            out.append(cur)
            cur = ""
        else:
            cur += ch
    out.append(cur)
    return out


def slot_text(line, own, others):
    """the place of the field's value in an emitted line: the line with the own value cut out (hole), the values
    of the other fields masked by their names; when the value sits inside a call, the sibling arguments that are not
    plain integer literals are blanked, so the place does not depend on how OTHER arguments happen to be written"""
    t = line
    for f, s in others.items():
        t = t.replace(s, "\u00ab" + f + "\u00bb")
    i = t.find(own)
    # outermost enclosing call of the (first) occurrence
    depth, start = 0, None
    for k in range(i - 1, -1, -1):
        ch = t[k]
        if ch == ")":
            depth += 1
        elif ch == "(":
            if depth == 0:
                start = k
            else:
                depth -= 1
    if start is None:
        return t.replace(own, "\u00ab\u00bb")
    # matching close of the outermost call
    depth, end = 0, len(t)
    for k in range(start, len(t)):
        if t[k] == "(":
            depth += 1
        elif t[k] == ")":
            depth -= 1
            if depth == 0:
                end = k
                break
    args = _split_args(t[start + 1:end])
    shown = []
    for a in args:
        a = a.strip()
        if own in a:
            shown.append(a.replace(own, "\u00ab\u00bb"))
        elif a.lstrip("-").isdigit():
            shown.append(a)
        else:
            shown.append("_")
    return t[:start + 1] + ", ".join(shown) + t[end:].replace(own, "\u00ab\u00bb")


def slot_id(line, own, others):
    t = slot_text(line, own, others)
    return hashlib.sha1(t.encode()).hexdigest()[:10], t


def probe_table(api=None, die=None):
    """-> {kind: {"row":..., "fields": {field: {"test", "slots": [[id..]..], "slot_text": {id: text}, "falsy_def", "collide_none": [...]}}}}"""
    from Reduino.transpile.parser import parse
    from Reduino.transpile.emitter import emit
    import Reduino.transpile.ast as A
    impl = _load("c08_impl")
    P = _props()
    die = die or (api.die if api else (lambda m: (_ for _ in ()).throw(RuntimeError(m))))
    table = {}
    for row, spec in impl.ROWS.items():
        kind = spec["node"]
        if kind in ("expr", "serial_read") or not spec["fields"]:
            continue
        if not hasattr(A, kind):
            die(f"emitstage: IR node kind {kind} (row {row}) no longer exists in Reduino.transpile.ast")
        cls = getattr(A, kind)
        sig = impl.signature_of(spec["target"])
        dflt = {p[0]: (p[2], p[3]) for p in sig}
        # the fully spelled call (keywords where the handler reads them, positions for the positional-only readers)
        pre = "\n".join(spec["pre"])
        base_src = (pre + "\n") if pre else "\n"
        full = None
        for style in ("kw", "pos"):
            if style == "kw":
                args = ", ".join(f"{p[0]}={P.literal(row, p[0])}" for p in sig if p[0] in spec["fields"] and not (kind == "LCDDecl" and p[0] == "i2c_addr"))
            else:
                pk = [p for p in sig if p[1] == "pk" and p[0] in spec["fields"]]
                ko = [p for p in sig if p[1] == "ko" and p[0] in spec["fields"]]
                args = ", ".join([P.literal(row, p[0]) for p in pk] + [f"{p[0]}={P.literal(row, p[0])}" for p in ko])
            try:
                prog = parse(base_src + spec["call"].format(a=args) + "\n")
            except Exception:  # noqa: BLE001
                continue
            hits = [n for n in impl.all_nodes(prog) if type(n).__name__ == kind and getattr(n, "name", None) == "dev"]
            if hits:
                full = hits[-1]
                break
        if full is None:
            die(f"emitstage: the parser accepts no fully spelled call of row {row}")
        fnames = {f.name for f in dataclasses.fields(cls)}
        for p, f in spec["fields"].items():
            if f not in fnames:
                die(f"emitstage: IR node {kind} has no field {f} (row {row}, parameter {p})")
        is_decl = row.endswith(".__init__")
        try:
            base_cpp = emit(parse(base_src))
        except Exception as e:  # noqa: BLE001
            die(f"emitstage: declaration lines of row {row} no longer transpile: {e}")

        def block(node):
            try:
                prog = parse(base_src)
                if is_decl:
                    # a declaration node goes where the parser puts it: re-parse is not possible for a hand-made node,
                    # so the node is swapped into the program the parser built for the baseline call
                    prog = parse(base_src + spec["call"].format(a=args) + "\n")
                    done = [False]

                    def swap(lst):
                        for i, n in enumerate(lst):
                            if type(n).__name__ == kind and getattr(n, "name", None) == "dev":
                                lst[i] = node
                                done[0] = True
                    swap(prog.global_decls)
                    swap(prog.setup_body)
                    swap(prog.loop_body)
                    if not done[0]:
                        return ("exc", "no-place")
                else:
                    prog.setup_body.append(node)
                return ("ok", tuple(added_lines(emit(prog), base_cpp)))
            except Exception as e:  # noqa: BLE001
                return ("exc", type(e).__name__)

        fields = {}
        pf = list(spec["fields"].items())
        nullable = []
        for p, f in pf:
            if dflt.get(p, (False, None)) == (True, None) and block(dataclasses.replace(full, **{f: None}))[0] == "ok":
                nullable.append(f)
        sentinelable = []
        for p, f in pf:
            b = block(dataclasses.replace(full, **{f: sentinel(f)}))
            if b[0] == "ok" and any(sentinel(f) in ln for ln in b[1]):
                sentinelable.append(f)
        for p, f in pf:
            b_none = block(dataclasses.replace(full, **{f: None})) if f in nullable else ("exc", "not-nullable")
            collide_none, falsy_def = [], False
            has_d, d = dflt.get(p, (False, None))
            if isinstance(d, dict) and "float" in d:
                d = d["float"][0] / d["float"][1]
            b_def = block(dataclasses.replace(full, **{f: d})) if has_d and d is not None and isinstance(d, (int, float, bool)) else None
            for z in FALSY:
                bz = block(dataclasses.replace(full, **{f: z}))
                if bz[0] != "ok":
                    continue
                if b_none[0] == "ok" and bz == b_none:
                    collide_none.append(repr(z))
                if b_def is not None and b_def[0] == "ok" and bz == b_def and not (isinstance(z, (int, float, bool)) and z == d):
                    falsy_def = True
            b_seven = block(dataclasses.replace(full, **{f: 7}))
            b_sent = block(dataclasses.replace(full, **{f: sentinel(f)}))
            if b_none[0] != "ok":
                test = "PAlways"
            elif not collide_none:
                test = "PNotNone"
            elif b_seven == b_none and b_sent == b_none:
                test = "PUnread"          # no value of the field changes the emitted text in this configuration
            elif collide_none == ["0"] and block(dataclasses.replace(full, **{f: False})) not in (b_none, ("exc", "x")):
                test = "PNoneAsZero"      # None is written as the integer 0 (`x if x is not None else 0`)
            else:
                test = "PTruthy"
            # slots under every presence pattern of the other nullable fields
            others_null = [g for g in nullable if g != f]
            pats = list(itertools.product([False, True], repeat=len(others_null)))[:MAX_PATTERNS]
            sent_all = {g: sentinel(g) for g in sentinelable}
            slots, slot_texts = [], {}
            for pat in pats:
                # a sentinel is not a legal value of label / list fields: those stay at their baseline value
                repl = {g: sentinel(g) for g in sentinelable}
                if f not in sentinelable:
                    slots.append([])
                    continue
                for g, absent in zip(others_null, pat):
                    if absent:
                        repl[g] = None
                b = block(dataclasses.replace(full, **repl))
                ids = []
                if b[0] == "ok":
                    for ln in b[1]:
                        if sentinel(f) in ln:
                            i, t = slot_id(ln, sentinel(f), {g: s for g, s in sent_all.items() if g != f})
                            if i not in ids:
                                ids.append(i)
                            slot_texts[i] = t
                slots.append(ids)
            fields[f] = {"param": p, "test": test, "slots": slots, "slot_text": slot_texts, "falsy_def": falsy_def,
                         "collide_none": collide_none, "nullable": f in nullable}
        if kind in table:
            die(f"emitstage: IR node kind {kind} is used by two rows")
        table[kind] = {"row": row, "fields": fields}
    return table


def generate(api):
    table = probe_table(api)
    out = ["(* GENERATED by harness/gen/emitstage.py from /repo (direct IR probes of transpile/emitter.py) - do not edit, not committed *)\n"
           "From Coq Require Import ZArith List Bool.\nFrom RV Require Import Base.Wire Base.Text Lang.EmitTypes.\nImport ListNotations.\nOpen Scope Z_scope.\n\n"]
    rows = []
    for kind in sorted(table):
        fs = []
        for f, e in table[kind]["fields"].items():
            slots = "[" + "; ".join("[" + "; ".join(api.ctext(i) for i in ids) + "]" for ids in e["slots"]) + "]"
            note = " | ".join(t.replace("*)", "* )").replace("(*", "( *").replace('"', "'").replace("\u00ab", "<").replace("\u00bb", ">") for t in e["slot_text"].values())[:300]
            fs.append(f"mkef {api.ctext(f)} (* {f} *) {e['test']} {slots} {'true' if e['falsy_def'] else 'false'}\n     (* {note} *)")
        rows.append("(" + api.ctext(kind) + " (* " + kind + " *),\n   " + api.clist(fs).replace("\n", "\n   ") + ")")
    out.append("Definition emit_table : list (text * list efield) := " + api.clist(rows) + ".\n")
    api.write_if_changed(api.GEN / "EmitStage.v", "".join(out))
