"""Translator plug-in for C07 (statement recognisers): writes coq/Gen/LineRx.v from the CURRENT /repo.

  * every module-level RE_* pattern of Reduino.transpile.parser, translated from its parsed form
    (re._parser.parse) into the regex type of coq/Lang/Rx.v.  Only the constructs that occur today
    are accepted (literals, sets, \\s \\w \\d, ., *, +, ?, lazy variants, groups, ^ at the start and $ at
    the end, and the one look-behind prefix `(?<!\\.)\\b` of RE_TARGET_INLINE); anything else aborts.
  * the dispatch chain of _parse_simple_lines: the statements of its `while i < len(snippet)` loop, in
    source order, as a list of steps (import filter, `line == "break"`, `line.startswith("return")`,
    `m = RE_X.match(line)` with or without the `if name in <device set>` guard, the finditer search, the
    ast-based assignment handler, the expression tail).  A statement of any other shape aborts.

Fail-closed (api.die)."""
from __future__ import annotations

import ast
import inspect
import re
import textwrap

try:                                    # Python >= 3.11
    import re._parser as sre_parse
    import re._constants as sre_c
except ImportError:                     # pragma: no cover
    import sre_parse
    import sre_constants as sre_c


def pattern_names(P):
    return sorted(n for n in dir(P) if n.startswith("RE_") and isinstance(getattr(P, n), re.Pattern))


# --------------------------------------------------------------------------------------------- regex -> Rx.v
def _cc_items(api, name, av):
    neg = False
    items = []
    for op, a in av:
        if op is sre_c.NEGATE:
            neg = True
        elif op is sre_c.LITERAL:
            items.append(f"IRange {a} {a}")
        elif op is sre_c.RANGE:
            items.append(f"IRange {a[0]} {a[1]}")
        elif op is sre_c.CATEGORY:
            if a is sre_c.CATEGORY_NOT_SPACE and len(av) == 1:        # \S on its own = [^\s]
                return "RC (CC true [ISpace])"
            cat = {sre_c.CATEGORY_SPACE: "ISpace", sre_c.CATEGORY_WORD: "IWord", sre_c.CATEGORY_DIGIT: "IDigit"}.get(a)
            if cat is None:
                api.die(f"linerx: {name}: character category {a} is not modelled")
            items.append(cat)
        else:
            api.die(f"linerx: {name}: set item {op} is not modelled")
    if not neg and items == ["ISpace"]:
        return "rsp"
    if not neg and items == ["IWord"]:
        return "rword"
    return f"RC (CC {'true' if neg else 'false'} [{'; '.join(items)}])"


def _par(t):
    return t if re.fullmatch(r"\w+", t) else "(" + t + ")"


def _seq(api, name, sub, top=False):
    """-> list of Coq rx terms for a parsed sequence (groups are spliced in)"""
    out = []
    n = len(sub)
    for idx, (op, av) in enumerate(sub):
        if op is sre_c.AT:
            if top and ((av is sre_c.AT_BEGINNING and idx == 0) or (av is sre_c.AT_END and idx == n - 1)):
                continue
            api.die(f"linerx: {name}: anchor {av} at position {idx} is not modelled")
        elif op is sre_c.LITERAL:
            out.append(f"lit {av}")
        elif op is sre_c.NOT_LITERAL:
            out.append(f"RC (CC true [IRange {av} {av}])")
        elif op is sre_c.ANY:
            out.append("rany")
        elif op is sre_c.IN:
            out.append(_cc_items(api, name, av))
        elif op in (sre_c.MAX_REPEAT, sre_c.MIN_REPEAT):
            lo, hi, body = av
            inner = _term(api, name, body)
            if (lo, hi) == (0, sre_c.MAXREPEAT):
                out.append(f"RStar {_par(inner)}")
            elif (lo, hi) == (1, sre_c.MAXREPEAT):
                out.append(f"rplus {_par(inner)}")
            elif (lo, hi) == (0, 1):
                out.append(f"ropt {_par(inner)}")
            else:
                api.die(f"linerx: {name}: repeat {{{lo},{hi}}} is not modelled")
        elif op is sre_c.SUBPATTERN:
            group, add_flags, del_flags, body = av
            if add_flags or del_flags:
                api.die(f"linerx: {name}: inline flags are not modelled")
            out += _seq(api, name, body)
        elif op is sre_c.BRANCH:
            alts = [_term(api, name, b) for b in av[1]]
            t = alts[-1]
            for a in reversed(alts[:-1]):
                t = f"RAlt ({a}) ({t})"
            out.append(t)
        else:
            api.die(f"linerx: {name}: regex construct {op} is not modelled")
    return out


def _term(api, name, sub, top=False):
    items = _seq(api, name, sub, top)
    if len(items) == 1 and not top:
        return items[0]
    return "cat_list [" + "; ".join(items) + "]"


def translate(api, name, pat, search=False):
    if pat.flags & ~re.UNICODE:
        api.die(f"linerx: {name}: flags {pat.flags} are not modelled")
    parsed = list(sre_parse.parse(pat.pattern, pat.flags))
    if search:
        # exactly (?<!\.)\b followed by a literal word character
        if (len(parsed) < 3 or parsed[0][0] is not sre_c.ASSERT_NOT or parsed[0][1][0] != -1
                or list(parsed[0][1][1]) != [(sre_c.LITERAL, 46)]
                or parsed[1] != (sre_c.AT, sre_c.AT_BOUNDARY)
                or parsed[2][0] is not sre_c.LITERAL or not re.match(r"\w", chr(parsed[2][1]))):
            api.die(f"linerx: {name}: expected the prefix (?<!\\.)\\b<word character>")
        body = parsed[2:]
        if any(op is sre_c.AT for op, _ in body):
            api.die(f"linerx: {name}: anchors inside a searched pattern are not modelled")
        return _term(api, name, body)
    if not parsed or parsed[0] != (sre_c.AT, sre_c.AT_BEGINNING) or parsed[-1] != (sre_c.AT, sre_c.AT_END):
        api.die(f"linerx: {name}: expected a pattern of the form ^...$")
    return _term(api, name, parsed, top=True)


def leading_ident_group(pat):
    """the pattern starts with ^\\s*([A-Za-z_]\\w*) as group 1"""
    parsed = list(sre_parse.parse(pat.pattern, pat.flags))
    want_ws = (sre_c.MAX_REPEAT, (0, sre_c.MAXREPEAT, [(sre_c.IN, [(sre_c.CATEGORY, sre_c.CATEGORY_SPACE)])]))
    if len(parsed) < 3 or parsed[0] != (sre_c.AT, sre_c.AT_BEGINNING):
        return False
    if (parsed[1][0], parsed[1][1][0], parsed[1][1][1], list(parsed[1][1][2])) != (want_ws[0], 0, sre_c.MAXREPEAT, want_ws[1][2]):
        return False
    g = parsed[2]
    if g[0] is not sre_c.SUBPATTERN or g[1][0] != 1:
        return False
    body = list(g[1][3])
    return (len(body) == 2
            and body[0] == (sre_c.IN, [(sre_c.RANGE, (65, 90)), (sre_c.RANGE, (97, 122)), (sre_c.LITERAL, 95)])
            and body[1][0] is sre_c.MAX_REPEAT and body[1][1][0] == 0 and body[1][1][1] == sre_c.MAXREPEAT
            and list(body[1][1][2]) == [(sre_c.IN, [(sre_c.CATEGORY, sre_c.CATEGORY_WORD)])])


# --------------------------------------------------------------------------------------------- the chain
def _is_match_call(node, var="line"):
    """RE_X.match(line) -> 'RE_X'"""
    if (isinstance(node, ast.Call) and isinstance(node.func, ast.Attribute) and node.func.attr == "match"
            and isinstance(node.func.value, ast.Name) and node.func.value.id.startswith("RE_")
            and len(node.args) == 1 and isinstance(node.args[0], ast.Name) and node.args[0].id == var and not node.keywords):
        return node.func.value.id
    return None


def _ends_with_continue(body):
    return bool(body) and isinstance(body[-1], ast.Continue)


def _group1_vars(body):
    """names bound to m.group(1) by the leading assignments of an `if m:` body"""
    out = set()

    def is_g1(v):
        return (isinstance(v, ast.Call) and isinstance(v.func, ast.Attribute) and v.func.attr == "group"
                and isinstance(v.func.value, ast.Name) and v.func.value.id == "m"
                and len(v.args) == 1 and isinstance(v.args[0], ast.Constant) and v.args[0].value == 1)
    for st in body:
        if not isinstance(st, ast.Assign) or len(st.targets) != 1:
            continue
        t, v = st.targets[0], st.value
        if isinstance(t, ast.Name) and is_g1(v):
            out.add(t.id)
        elif isinstance(t, ast.Tuple) and isinstance(v, ast.Tuple) and len(t.elts) == len(v.elts):
            for a, b in zip(t.elts, v.elts):
                if isinstance(a, ast.Name) and is_g1(b):
                    out.add(a.id)
    return out


def _import_helper_pattern(api, P, fname):
    """the helper `fname(lines, start)` decides with ONE pattern on _strip_inline_comment(lines[start]).strip()
    whether the line is an import (None = not an import) -> that pattern's name"""
    fn = getattr(P, fname, None)
    if fn is None:
        api.die(f"linerx: helper {fname} not found")
    body = [st for st in ast.parse(textwrap.dedent(inspect.getsource(fn))).body[0].body
            if not (isinstance(st, ast.Expr) and isinstance(st.value, ast.Constant))]
    if len(body) < 2 or ast.unparse(body[0]) != "text = _strip_inline_comment(lines[start]).strip()":
        api.die(f"linerx: {fname}: expected `text = _strip_inline_comment(lines[start]).strip()` first")
    st = body[1]
    name = None
    if isinstance(st, ast.If) and isinstance(st.test, ast.UnaryOp) and isinstance(st.test.op, ast.Not) and not st.orelse:
        name = _is_match_call(st.test.operand, var="text")
    if name is None or len(st.body) != 1 or ast.unparse(st.body[0]) != "return None":
        api.die(f"linerx: {fname}: expected `if not RE_X.match(text): return None`")
    for later in body[2:]:
        for sub in ast.walk(later):
            if isinstance(sub, ast.Return) and (sub.value is None or ast.unparse(sub.value) == "None"):
                api.die(f"linerx: {fname}: a second `return None` (the line would be handed on although the pattern matched)")
    return name


TAIL = {"benign_eq": [], "benign_rx": [], "rejects": False, "expr_failure_rejects": False}


def _tail_facts(api, expr_if, rest):
    """what the end of the loop does with a line that no recogniser took: `rest` = the statements after
    `if expr_node is not None:`.  Two shapes are read: the unrepaired one (hook call; i += 1 - the line is dropped)
    and `if line == "..." or RE_X.match(line): ... continue` followed by `raise ValueError(...)`."""
    facts = {"benign_eq": [], "benign_rx": [], "rejects": False, "expr_failure_rejects": False}
    # inside the expression branch: what happens when _to_c_expr refuses the expression
    for st in ast.walk(expr_if):
        if isinstance(st, ast.Try) and st.body and ast.unparse(st.body[0]) == "expr_c = _to_c_expr(line, vars, ctx)":
            hb = st.handlers[0].body if len(st.handlers) == 1 else []
            facts["expr_failure_rejects"] = (len(hb) == 1 and isinstance(hb[0], ast.Raise) and hb[0].exc is not None
                                             and ast.unparse(hb[0].exc).startswith("ValueError("))
    if (len(rest) == 2 and ast.unparse(rest[0]).startswith("_verif_note_ignored(") and ast.unparse(rest[1]) == "i += 1"):
        return facts
    if len(rest) == 2 and isinstance(rest[0], ast.If) and not rest[0].orelse and _ends_with_continue(rest[0].body) \
            and isinstance(rest[1], ast.Raise) and rest[1].exc is not None and ast.unparse(rest[1].exc).startswith("ValueError("):
        test = rest[0].test
        vals = test.values if isinstance(test, ast.BoolOp) and isinstance(test.op, ast.Or) else [test]
        for v in vals:
            name = _is_match_call(v)
            if name is not None:
                facts["benign_rx"].append(name)
            elif (isinstance(v, ast.Compare) and ast.unparse(v.left) == "line" and len(v.ops) == 1 and isinstance(v.ops[0], ast.Eq)
                  and isinstance(v.comparators[0], ast.Constant) and isinstance(v.comparators[0].value, str)):
                facts["benign_eq"].append(v.comparators[0].value)
            else:
                api.die("linerx: _parse_simple_lines: unexpected test in the no-device-meaning branch of the tail: " + ast.unparse(v)[:80])
        facts["rejects"] = True
        return facts
    api.die("linerx: _parse_simple_lines: unexpected tail after the expression-statement branch")


def extract_chain(api, P):
    """-> list of steps: ("imports", [names]) | ("eq", text) | ("prefix", text) | ("rx", name, guard_set or None)
       | ("search", name) | ("assign",) | ("tail",)"""
    src = textwrap.dedent(inspect.getsource(P._parse_simple_lines))
    fn = ast.parse(src).body[0]
    loops = [st for st in fn.body if isinstance(st, ast.While)]
    if len(loops) != 1:
        api.die("linerx: _parse_simple_lines: expected exactly one top-level while loop")
    loop = loops[0]
    if ast.unparse(loop.test) != "i < len(snippet)":
        api.die("linerx: _parse_simple_lines: the main loop is no longer `while i < len(snippet)`")
    body = list(loop.body)
    # prelude: raw / stripped / line, the two blank/comment tests
    prelude = ["raw = snippet[i]", "stripped = _strip_inline_comment(raw)", "line = stripped.strip()"]
    for want in prelude:
        if not body or ast.unparse(body[0]) != want:
            api.die(f"linerx: _parse_simple_lines: expected `{want}` at the head of the loop")
        body.pop(0)
    for want in ("not line", "not line or line.startswith('#')"):
        st = body.pop(0)
        if not (isinstance(st, ast.If) and ast.unparse(st.test) == want and _ends_with_continue(st.body) and not st.orelse):
            api.die(f"linerx: _parse_simple_lines: expected `if {want}: ... continue`")
    steps = []
    k = 0
    while k < len(body):
        st = body[k]
        # if RE_A.match(line) or RE_B.match(line) ...: continue
        if isinstance(st, ast.If) and isinstance(st.test, ast.BoolOp) and isinstance(st.test.op, ast.Or):
            names = [_is_match_call(v) for v in st.test.values]
            if None in names or not _ends_with_continue(st.body) or st.orelse or len(st.body) != 2:
                api.die("linerx: _parse_simple_lines: unexpected shape of the import filter")
            steps.append(("imports", names))
            k += 1
            continue
        if isinstance(st, ast.If) and isinstance(st.test, ast.Compare) and ast.unparse(st.test.left) == "line" \
                and len(st.test.ops) == 1 and isinstance(st.test.ops[0], ast.Eq) \
                and isinstance(st.test.comparators[0], ast.Constant) and isinstance(st.test.comparators[0].value, str):
            if not _ends_with_continue(st.body) or st.orelse:
                api.die("linerx: _parse_simple_lines: a `line == ...` branch does not end with continue")
            steps.append(("eq", st.test.comparators[0].value))
            k += 1
            continue
        if isinstance(st, ast.If) and isinstance(st.test, ast.Call) and ast.unparse(st.test.func) == "line.startswith" \
                and len(st.test.args) == 1 and isinstance(st.test.args[0], ast.Constant):
            if not _ends_with_continue(st.body) or st.orelse:
                api.die("linerx: _parse_simple_lines: a `line.startswith(...)` branch does not end with continue")
            steps.append(("prefix", st.test.args[0].value))
            k += 1
            continue
        if isinstance(st, ast.Assign) and len(st.targets) == 1 and isinstance(st.targets[0], ast.Name):
            tgt = st.targets[0].id
            nxt = body[k + 1] if k + 1 < len(body) else None
            name = _is_match_call(st.value)
            # import_end = _import_end(snippet, i); if import_end is not None: i = import_end; continue
            if (isinstance(st.value, ast.Call) and isinstance(st.value.func, ast.Name) and ast.unparse(st.value).endswith("(snippet, i)")
                    and isinstance(nxt, ast.If) and ast.unparse(nxt.test) == f"{tgt} is not None" and not nxt.orelse
                    and [ast.unparse(x) for x in nxt.body] == [f"i = {tgt}", "continue"]):
                steps.append(("imports", [_import_helper_pattern(api, P, st.value.func.id)]))
                k += 2
                continue
            if tgt == "m" and name is not None:
                if not (isinstance(nxt, ast.If) and ast.unparse(nxt.test) == "m" and not nxt.orelse):
                    api.die(f"linerx: _parse_simple_lines: `m = {name}.match(line)` is not followed by `if m:`")
                if _ends_with_continue(nxt.body):
                    steps.append(("rx", name, None))
                else:
                    g1 = _group1_vars(nxt.body)
                    last = nxt.body[-1]
                    ok = (isinstance(last, ast.If) and not last.orelse and isinstance(last.test, ast.Compare)
                          and isinstance(last.test.left, ast.Name) and last.test.left.id in g1
                          and len(last.test.ops) == 1 and isinstance(last.test.ops[0], ast.In)
                          and isinstance(last.test.comparators[0], ast.Name) and _ends_with_continue(last.body)
                          and all(isinstance(s, ast.Assign) for s in nxt.body[:-1]))
                    if not ok:
                        api.die(f"linerx: _parse_simple_lines: the handler of {name} is neither unguarded (ends with continue) nor "
                                f"`name = m.group(1)...; if name in <set>: ... continue`")
                    if not leading_ident_group(getattr(P, name)):
                        api.die(f"linerx: {name}: guarded handler, but the pattern does not start with ^\\s*([A-Za-z_]\\w*)")
                    steps.append(("rx", name, last.test.comparators[0].id))
                k += 2
                continue
            if ast.unparse(st.value).startswith("list(RE_") and ast.unparse(st.value).endswith(".finditer(line))"):
                name = st.value.args[0].func.value.id
                if not (isinstance(nxt, ast.If) and ast.unparse(nxt.test) == tgt and _ends_with_continue(nxt.body) and not nxt.orelse):
                    api.die(f"linerx: _parse_simple_lines: the finditer search of {name} is not followed by `if {tgt}: ... continue`")
                steps.append(("search", name))
                k += 2
                continue
            if ast.unparse(st.value).startswith("_handle_assignment_ast(line,"):
                if not (isinstance(nxt, ast.If) and ast.unparse(nxt.test) == f"{tgt} is not None" and _ends_with_continue(nxt.body) and not nxt.orelse):
                    api.die("linerx: _parse_simple_lines: unexpected shape around _handle_assignment_ast")
                steps.append(("assign",))
                k += 2
                continue
        if isinstance(st, ast.Try) and ast.unparse(st.body[0]) == "expr_node = ast.parse(line, mode='eval').body":
            rest = body[k + 1:]
            if not (rest and isinstance(rest[0], ast.If) and ast.unparse(rest[0].test) == "expr_node is not None"):
                api.die("linerx: _parse_simple_lines: unexpected tail after the expression-statement branch")
            TAIL.clear()
            TAIL.update(_tail_facts(api, rest[0], rest[1:]))
            steps.append(("tail",))
            k = len(body)
            continue
        api.die("linerx: _parse_simple_lines: statement of an unexpected shape in the dispatch loop: " + ast.unparse(st)[:80])
    if not steps or steps[-1] != ("tail",):
        api.die("linerx: _parse_simple_lines: the dispatch loop does not end with the expression-statement tail")
    return steps


def guard_sets(steps):
    out = []
    for s in steps:
        if s[0] == "rx" and s[2] is not None and s[2] not in out:
            out.append(s[2])
    return out


def generate(api):
    import Reduino.transpile.parser as P
    names = pattern_names(P)
    if not names:
        api.die("linerx: no RE_* pattern found in Reduino.transpile.parser")
    steps = extract_chain(api, P)
    searched = {s[1] for s in steps if s[0] == "search"}
    ids = {n: i for i, n in enumerate(names)}
    out = ["(* GENERATED by harness/gen/linerx.py from /repo - do not edit, not committed *)\n",
           "From Coq Require Import ZArith List.\nFrom RV Require Import Base.Wire Base.Text Lang.Rx Lang.LineDispatch.\nImport ListNotations.\nOpen Scope Z_scope.\n\n"]
    for n in names:
        pat = getattr(P, n)
        if n in searched:
            out.append(f"(* searched with finditer; prefix (?<!\\.)\\b checked by the translator *)\nDefinition {n}_body : rx := {translate(api, n, pat, search=True)}.\n")
        else:
            out.append(f"Definition {n} : rx := {translate(api, n, pat)}.\n")
    out.append("\n(* id (position in the sorted list of names) -> pattern; searched patterns by their body *)\n")
    out.append("Definition rx_table : list (Z * rx) := [\n  " + ";\n  ".join(
        f"({ids[n]}, {n}{'_body' if n in searched else ''})" for n in names) + "\n].\n")
    sets = guard_sets(steps)
    out.append(f"\n(* device-name sets the guarded handlers look at, in order of first use: {', '.join(sets)} *)\n")
    out.append(f"Definition n_guard_sets : nat := {len(sets)}.\n")
    lines = []
    for s in steps:
        if s[0] == "imports":
            lines.append("StImports [" + "; ".join(f"({ids[n]}, {n})" for n in s[1]) + "]")
        elif s[0] == "eq":
            lines.append(f"StEq {api.ctext(s[1])}")
        elif s[0] == "prefix":
            lines.append(f"StPrefix {api.ctext(s[1])}")
        elif s[0] == "rx":
            g = "None" if s[2] is None else f"(Some {sets.index(s[2])}%nat)"
            lines.append(f"StRx {ids[s[1]]} {s[1]} {g}")
        elif s[0] == "search":
            lines.append(f"StSearch {ids[s[1]]} {s[1]}_body")
        elif s[0] == "assign":
            lines.append("StAssign")
        elif s[0] == "tail":
            lines.append("StTail")
    out.append("\n(* the dispatch loop of _parse_simple_lines, in source order *)\nDefinition chain : list step := [\n  " + ";\n  ".join(lines) + "\n].\n")
    out.append("\n(* the end of the loop: lines without a meaning on the device (compared / matched), and whether anything else - "
               "and an expression _to_c_expr refuses - raises *)\n")
    out.append("Definition tail_benign_eq : list text := [" + "; ".join(api.ctext(t) for t in TAIL["benign_eq"]) + "].\n")
    for n in TAIL["benign_rx"]:
        if n not in ids:
            api.die(f"linerx: tail pattern {n} is not a module-level RE_* pattern")
    out.append("Definition tail_benign_rx : list (Z * rx) := [" + "; ".join(f"({ids[n]}, {n})" for n in TAIL["benign_rx"]) + "].\n")
    out.append(f"Definition tail_rejects : bool := {'true' if TAIL['rejects'] else 'false'}.\n")
    out.append(f"Definition tail_expr_failure_rejects : bool := {'true' if TAIL['expr_failure_rejects'] else 'false'}.\n")
    api.write_if_changed(api.GEN / "LineRx.v", "".join(out))
