"""Translator plug-in (C11): coq/Gen/NestDepth.v - the interpreter frames parse() and emit() need per level of block
nesting, per block statement and per simple statement, MEASURED on the current /repo source.

The probe (harness/c11_nest.py: stack_need) runs the real parse() / emit() under sys.setprofile and records the deepest
Python frame above the caller - the quantity CPython's recursion limit bounds.  For every block slot (if / elif / else /
while / for / try / except bodies, the main loop, a function body) a ladder of that slot is measured at two depths: the
difference divided by the difference of the depths is the slot's frames per level (it must divide evenly); the constants of
the simple statements and of the block headers come from one further ladder each.  The fit is then re-checked on ladders
of other depths and of mixed slots, with a fat and a thin leaf: any deviation from the linear model aborts (fail-closed) -
the theorems of Props/C11.v about the two stages are statements about exactly these constants.

emit_guarded: whether the real emit() reports exhausted nesting as ValueError (parse() does, through
_nesting_as_value_error) - observed by giving emit() fewer frames than it was measured to need (probe_guard).
"""
from __future__ import annotations

import importlib.util
from pathlib import Path

D1, D2 = 14, 18


def _nest():
    p = Path(__file__).resolve().parents[1] / "c11_nest.py"
    spec = importlib.util.spec_from_file_location("c11_nest_for_gen", p)
    m = importlib.util.module_from_spec(spec)
    spec.loader.exec_module(m)
    return m


def model_need(stage, tree):
    """the Gallina need_prog of Lang/NestDepth.v, in Python (used for the fail-closed re-check and by the oracle)"""
    def need(t):
        if t[0] == "L":
            return stage["leaf"][t[1]]
        k = t[1]
        return max(stage["header"][k], stage["frames"][k] + max([need(x) for x in t[2]] + [0]))
    return max([stage["head"]] + [need(t) for t in tree])


def measure(api, N):
    def both(tree, what):
        r = N.needs_of_text(N.render(tree))
        if r["parse"] != "ok" or r["emit"] != "ok":
            api.die(f"nestdepth: the probe script '{what}' is not transpiled: parse {r['parse']}, emit {r['emit']}")
        return r["need_parse"], r["need_emit"]

    slots, leaves = N.SLOTS, N.LEAVES
    IF = slots.index("if")
    head = both([], "prelude only")
    frames = [[None] * len(slots), [None] * len(slots)]
    # frames per level of the inner slots (leaf 1 = led.toggle())
    first = {}
    for k, slot in enumerate(slots):
        if slot in ("main", "def"):
            continue
        a = both(N.ladder([slot], D1, 1), f"{slot} x {D1}")
        b = both(N.ladder([slot], D2, 1), f"{slot} x {D2}")
        first[k] = a
        for side in (0, 1):
            if (b[side] - a[side]) % (D2 - D1) != 0:
                api.die(f"nestdepth: {('parse', 'emit')[side]} needs {a[side]} / {b[side]} frames on {slot}-ladders of depth {D1} / {D2}: not linear in the depth")
            frames[side][k] = (b[side] - a[side]) // (D2 - D1)
    c1 = [first[IF][side] - D1 * frames[side][IF] for side in (0, 1)]        # constant of leaf 1 (if the header does not dominate: re-checked below)
    for k, slot in enumerate(slots):
        if slot in ("main", "def"):
            n = both(N.ladder([slot, "if"], D1, 1), f"{slot} + if x {D1 - 1}")
            for side in (0, 1):
                frames[side][k] = n[side] - (D1 - 1) * frames[side][IF] - c1[side]
    # constants of the simple statements
    leaf = [[None] * len(leaves), [None] * len(leaves)]
    for i, text in enumerate(leaves):
        if text in N.NEEDS_LOOP:
            pat, kk = ["while"], slots.index("while")
            base = [D1 * frames[side][kk] for side in (0, 1)]
        elif text in N.NEEDS_DEF:
            pat = ["def", "if"]
            base = [frames[side][slots.index("def")] + (D1 - 1) * frames[side][IF] for side in (0, 1)]
        else:
            pat = ["if"]
            base = [D1 * frames[side][IF] for side in (0, 1)]
        n = both(N.ladder(pat, D1, i), f"{pat[0]}-ladder x {D1} around {text}")
        for side in (0, 1):
            leaf[side][i] = n[side] - base[side]
    # thinnest leaf of each stage (usable anywhere) - the body the header constants are measured with
    free = [i for i, t in enumerate(leaves) if t not in N.NEEDS_LOOP and t not in N.NEEDS_DEF]
    thin = [min(free, key=lambda i: (leaf[side][i], i)) for side in (0, 1)]
    for side in (0, 1):
        if leaf[side][thin[side]] != min(leaf[side]):
            api.die("nestdepth: the thinnest simple statement needs a loop / function around it (header constants would not be exact)")
    header = [[None] * len(slots), [None] * len(slots)]
    for k, slot in enumerate(slots):
        for side in (0, 1):
            if slot in ("main", "def"):
                n = both(N.ladder([slot], 1, thin[side]), f"{slot} x 1")[side]
                header[side][k] = n
            else:
                n = both(N.ladder([slot], D1, thin[side]), f"{slot} x {D1} around the thinnest leaf")[side]
                header[side][k] = n - (D1 - 1) * frames[side][k]
    stages = [{"head": head[side], "frames": frames[side], "header": header[side], "leaf": leaf[side]} for side in (0, 1)]
    # fail-closed re-check of the linear model on other ladders
    fat = [max(free, key=lambda i: (leaf[side][i], -i)) for side in (0, 1)]
    checks = [(["if", "for", "try"], 9, thin[0]), (["elif", "while", "except", "else"], 23, fat[0]), (["main", "for", "if"], 11, thin[1]),
              (["def", "try", "else"], 20, fat[1]), (["for"], 3, 1), (["else", "if"], 27, 1)]
    for pat, d, lf in checks:
        tree = N.ladder(pat, d, lf)
        got = both(tree, f"re-check {pat} x {d}")
        want = (model_need(stages[0], _index(tree, slots)), model_need(stages[1], _index(tree, slots)))
        if got != want:
            api.die(f"nestdepth: the linear stack model does not fit the code: ladder {pat} x {d} around '{leaves[lf]}' needs (parse, emit) = {got} frames, the fitted constants give {want}")
    return stages


def probe_guard(api, N):
    """does emit() report exhausted nesting as ValueError (guarded like parse() by _nesting_as_value_error) or does the
    RecursionError escape?  Observed on the real emit(), 1 .. many frames short of its own need, on ladders of several slots
    around thin and fat statements and on the prelude alone.  Anything but a uniform answer aborts (fail-closed)."""
    probes = [(["if"], 14, 1, 1), (["try", "for"], 18, N.LEAVES.index("rgb.off()"), 3), (["def", "while"], 9, N.LEAVES.index("motor.stop()"), 1),
              (["main", "else"], 12, 0, 7), ([], 0, 0, 1), (["if"], 30, 1, 200), (["except", "elif"], 21, N.LEAVES.index("motor.backward()"), 2)]
    kinds = []
    for pat, d, leaf, short in probes:
        r = N.emit_when_short(N.render(N.ladder(pat, d, leaf) if d else []), short)
        if r["parse"] is not None or r["need_emit"] is None:
            api.die(f"nestdepth: the guard probe {pat} x {d} is not accepted by parse(): {r['parse']}")
        kinds.append(r["emit"])
    if all(k == "ValueError" for k in kinds):
        return True
    if all(k == "RecursionError" for k in kinds):
        return False
    api.die("nestdepth: emit() with fewer interpreter frames than it needs ends in " + str(kinds)
            + " on the seven guard probes - neither uniformly ValueError (guarded) nor uniformly RecursionError (unguarded)")


def _index(tree, slots):
    return [t if t[0] == "L" else ["B", slots.index(t[1]), _index(t[2], slots)] for t in tree]


def generate(api):
    N = _nest()
    stages = measure(api, N)
    guarded = probe_guard(api, N)

    def zl(xs):
        return "[" + "; ".join(str(x) if x >= 0 else f"({x})" for x in xs) + "]"

    def st(s):
        return f"mkstage {s['head']} {zl(s['frames'])}\n  {zl(s['header'])}\n  {zl(s['leaf'])}"

    out = ["(* GENERATED by harness/gen/nestdepth.py from /repo (deepest interpreter frame of the real parse() / emit() on block\n"
           "   ladders, measured with sys.setprofile) - do not edit, not committed *)\n"
           "From Coq Require Import ZArith List.\nFrom RV Require Import Base.Wire Lang.NestDepth.\nImport ListNotations.\nOpen Scope Z_scope.\n\n"]
    out.append("(* block slots, in table order *)\nDefinition nest_slots : list text := "
               + api.clist([api.ctext(s) + " (* " + s + " *)" for s in N.SLOTS]) + ".\n\n")
    out.append("(* simple statements, in table order *)\nDefinition nest_leaves : list text := "
               + api.clist([api.ctext(s) + " (* " + s.replace("*)", "* )") + " *)" for s in N.LEAVES]) + ".\n\n")
    out.append("(* prelude, frames per level of each slot, header constant of each slot, constant of each simple statement *)\n")
    out.append("Definition parse_stage : stage :=\n  " + st(stages[0]) + ".\n\n")
    out.append("Definition emit_stage : stage :=\n  " + st(stages[1]) + ".\n\n")
    out.append("(* does emit() turn its own RecursionError / MemoryError into ValueError (observed: the real emit() with 1 .. 200 frames\n"
               "   less than it needs, seven probes)? *)\n")
    out.append("Definition emit_guarded : bool := " + ("true" if guarded else "false") + ".\n")
    api.write_if_changed(api.GEN / "NestDepth.v", "".join(out))
