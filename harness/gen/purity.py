"""Translator plug-in (C10): coq/Gen/PuritySites.v - what the current parser.py / emitter.py / ast.py do that can make
emit() depend on earlier emit() calls of the same Program, or a parse() depend on an earlier REJECTED parse().

  lazy_sites         every lazily evaluated expression (generator expression, map/filter/zip/iter/reversed/enumerate, a call of a
                     generator function of the module) with the way it is consumed: class 1 = consumed on the spot by an eager
                     consumer (str.join, any, all, sum, min, max, sorted, list, tuple, set, dict, frozenset, next, x.extend / x.update,
                     the iterable of a for / comprehension, an unpacking assignment, *args, an `in` test); class 0 = it ESCAPES
                     (argument of any other call - e.g. an IR-node constructor -, bound to a name, stored, returned, yielded)
  node_lazy_args     IR-node constructor calls of parser.py (the classes of ast.py) that take a lazy value - directly or through a
                     local name bound to one - as an argument: (node class, field, line)
  emit_arg_mutations statements of emitter.py that change an object reached through an attribute / getattr(..) or through a local name bound to
                     such a part (aliases, loop variables over them): node.field = ..., node.field.append(..), part = getattr(ast, "x"); part.pop(),
                     del node.field, setattr(..) - emit() changing the Program it was given.  (The emitter's own per-call tables are locals
                     created by display / constructor and parameters: not flagged.)
  guard_sites        re-entrancy guards `R.add(k) ... R.remove(k) / R.discard(k)` on a set: where the set lives (0 = an object of the
                     current call: a local / a parameter / something fetched from ctx; 1 = a module-level object) and how the key is
                     released (0 = in a `finally` block; 1 = by a statement that an exception skips)

Syntactic, fail-closed (api.die): the guard of _ensure_function_variant must be found.
"""
from __future__ import annotations

import ast
from pathlib import Path

FILES = ["parser.py", "emitter.py", "ast.py"]
LAZY_BUILTINS = {"map", "filter", "zip", "iter", "reversed", "enumerate"}
EAGER = {"join", "any", "all", "sum", "min", "max", "sorted", "list", "tuple", "set", "dict", "frozenset", "next", "extend", "update",
         "union", "intersection", "difference", "issubset", "issuperset", "isdisjoint", "fromkeys"}
MUTATORS = {"append", "extend", "insert", "pop", "remove", "sort", "clear", "update", "add", "discard", "setdefault", "reverse", "popitem",
            "__setitem__", "__delitem__", "__setattr__"}


def _parents(tree):
    par = {}
    for n in ast.walk(tree):
        for c in ast.iter_child_nodes(n):
            par[c] = n
    return par


def _enclosing_fn(n, par):
    while n in par:
        n = par[n]
        if isinstance(n, (ast.FunctionDef, ast.AsyncFunctionDef)):
            return n
    return None


def _fn_name(n, par):
    f = _enclosing_fn(n, par)
    return f.name if f is not None else "<module>"


def _generator_functions(tree):
    out = set()
    for fn in ast.walk(tree):
        if isinstance(fn, (ast.FunctionDef, ast.AsyncFunctionDef)):
            stack = list(fn.body)
            while stack:
                x = stack.pop()
                if isinstance(x, (ast.Yield, ast.YieldFrom)):
                    out.add(fn.name)
                    break
                if isinstance(x, (ast.FunctionDef, ast.AsyncFunctionDef, ast.Lambda, ast.ClassDef)):
                    continue
                stack.extend(ast.iter_child_nodes(x))
    return out


def _is_lazy(n, genfns):
    if isinstance(n, ast.GeneratorExp):
        return True
    if isinstance(n, ast.Call) and isinstance(n.func, ast.Name) and (n.func.id in LAZY_BUILTINS or n.func.id in genfns):
        return True
    return False


def _callee(call):
    f = call.func
    if isinstance(f, ast.Attribute):
        return f.attr
    if isinstance(f, ast.Name):
        return f.id
    return None


def _consumed_on_the_spot(n, par, genfns):
    p = par.get(n)
    if isinstance(p, ast.Call) and n in p.args:
        name = _callee(p)
        return name in EAGER or name in LAZY_BUILTINS      # wrapped by another lazy builtin: that one has its own row
    if isinstance(p, (ast.For, ast.AsyncFor, ast.comprehension)) and p.iter is n:
        return True
    if isinstance(p, ast.Assign) and p.value is n and all(isinstance(t, (ast.Tuple, ast.List)) for t in p.targets):
        return True
    if isinstance(p, ast.Starred):
        return True
    if isinstance(p, ast.Compare) and n in p.comparators and all(isinstance(o, (ast.In, ast.NotIn)) for o in p.ops):
        return True
    if isinstance(p, ast.YieldFrom):
        return True
    return False


def _root_name(e):
    while isinstance(e, (ast.Attribute, ast.Subscript)):
        e = e.value
    if isinstance(e, ast.Call):          # ctx.setdefault("k", set()).add(..): the receiver is fetched from ctx
        return _root_name(e.func)
    return e.id if isinstance(e, ast.Name) else None


def _locals_of(fn):
    names = {a.arg for a in fn.args.posonlyargs + fn.args.args + fn.args.kwonlyargs}
    if fn.args.vararg:
        names.add(fn.args.vararg.arg)
    if fn.args.kwarg:
        names.add(fn.args.kwarg.arg)
    globs = set()
    for n in ast.walk(fn):
        if isinstance(n, ast.Global):
            globs |= set(n.names)
        elif isinstance(n, ast.Name) and isinstance(n.ctx, ast.Store):
            names.add(n.id)
    return names - globs


def analyse(src_dir: Path, die):
    lazy, node_args, mutations, guards = [], [], [], []
    ir_classes = set()
    trees = {}
    for f in FILES:
        p = src_dir / f
        if not p.exists():
            die(f"purity: {f} not found in {src_dir}")
        trees[f] = ast.parse(p.read_text(encoding="utf-8"), str(p))
    for n in trees["ast.py"].body:
        if isinstance(n, ast.ClassDef):
            ir_classes.add(n.name)
    if "LCDGlyph" not in ir_classes or "Program" not in ir_classes:
        die("purity: ast.py no longer defines Program / LCDGlyph - the walker does not understand the IR module")
    for f, tree in trees.items():
        par = _parents(tree)
        genfns = _generator_functions(tree)
        module_names = set()
        for n in tree.body:
            if isinstance(n, (ast.Assign, ast.AnnAssign)):
                for t in (n.targets if isinstance(n, ast.Assign) else [n.target]):
                    for x in ast.walk(t):
                        if isinstance(x, ast.Name):
                            module_names.add(x.id)
        # ---- lazy values
        lazy_bound = {}          # (function, name) -> line of a binding to a lazy value
        for n in ast.walk(tree):
            if _is_lazy(n, genfns):
                ok = _consumed_on_the_spot(n, par, genfns)
                lazy.append({"file": f, "fn": _fn_name(n, par), "line": n.lineno, "class": 1 if ok else 0,
                             "text": ast.unparse(par.get(n, n))[:110]})
                p = par.get(n)
                if isinstance(p, (ast.Assign, ast.AnnAssign)) and p.value is n:
                    for t in (p.targets if isinstance(p, ast.Assign) else [p.target]):
                        if isinstance(t, ast.Name):
                            lazy_bound[(_fn_name(n, par), t.id)] = n.lineno
        # ---- IR-node constructors taking a lazy value
        if f == "parser.py":
            for n in ast.walk(tree):
                if isinstance(n, ast.Call) and isinstance(n.func, ast.Name) and n.func.id in ir_classes:
                    fields = [(f"#{i}", a) for i, a in enumerate(n.args)] + [(k.arg or "**", k.value) for k in n.keywords]
                    for fname, v in fields:
                        hit = _is_lazy(v, genfns) or (isinstance(v, ast.Name) and (_fn_name(n, par), v.id) in lazy_bound)
                        if hit:
                            node_args.append({"node": n.func.id, "field": fname, "line": n.lineno, "text": ast.unparse(v)[:90]})
        # ---- emit() changing what it was given
        if f == "emitter.py":
            def _is_part(e, aliases):
                """an expression that denotes (a part of) an object the function was given: x.attr, getattr(x, ..), alias, alias[...]"""
                if isinstance(e, ast.Attribute):
                    return True
                if isinstance(e, ast.Call) and isinstance(e.func, ast.Name) and e.func.id == "getattr":
                    return True
                if isinstance(e, ast.Name):
                    return e.id in aliases
                if isinstance(e, ast.Subscript):
                    return _is_part(e.value, aliases)
                return False
            for fn in ast.walk(tree):
                if not isinstance(fn, (ast.FunctionDef, ast.AsyncFunctionDef)):
                    continue
                # local names bound to a part of such an object (two rounds: aliases of aliases, loop variables over aliases)
                aliases = set()
                for _round in range(3):
                    for n in ast.walk(fn):
                        if isinstance(n, ast.Assign) and len(n.targets) == 1 and isinstance(n.targets[0], ast.Name) and _is_part(n.value, aliases):
                            aliases.add(n.targets[0].id)
                        elif isinstance(n, (ast.For, ast.comprehension)) and isinstance(n.target, ast.Name) and _is_part(n.iter, aliases):
                            aliases.add(n.target.id)
                for n in ast.walk(fn):
                    if _enclosing_fn(n, par) is not fn:
                        continue
                    how = None
                    if isinstance(n, (ast.Assign, ast.AugAssign, ast.AnnAssign)):
                        for t in (n.targets if isinstance(n, ast.Assign) else [n.target]):
                            for x in ([t] if not isinstance(t, (ast.Tuple, ast.List)) else t.elts):
                                if isinstance(x, ast.Attribute) or (isinstance(x, ast.Subscript) and _is_part(x.value, aliases)):
                                    how = "store"
                    elif isinstance(n, ast.Delete):
                        if any(isinstance(t, ast.Attribute) or (isinstance(t, ast.Subscript) and _is_part(t.value, aliases)) for t in n.targets):
                            how = "del"
                    elif isinstance(n, ast.Call):
                        if isinstance(n.func, ast.Attribute) and n.func.attr in MUTATORS and _is_part(n.func.value, aliases):
                            how = "mutating call"
                        elif isinstance(n.func, ast.Name) and n.func.id in ("setattr", "delattr"):
                            how = n.func.id
                    if how:
                        mutations.append({"file": f, "fn": fn.name, "line": n.lineno, "how": how, "text": ast.unparse(n)[:100]})
        # ---- re-entrancy guards
        for fn in ast.walk(tree):
            if not isinstance(fn, (ast.FunctionDef, ast.AsyncFunctionDef)):
                continue
            own = []
            stack = list(fn.body)
            while stack:                       # the statements of this function, not of nested functions
                x = stack.pop()
                if isinstance(x, (ast.FunctionDef, ast.AsyncFunctionDef, ast.ClassDef, ast.Lambda)):
                    continue
                own.append(x)
                stack.extend(ast.iter_child_nodes(x))
            adds = [x for x in own if isinstance(x, ast.Call) and isinstance(x.func, ast.Attribute) and x.func.attr == "add" and len(x.args) == 1]
            rems = [x for x in own if isinstance(x, ast.Call) and isinstance(x.func, ast.Attribute) and x.func.attr in ("remove", "discard") and len(x.args) == 1]
            for a in adds:
                for r in rems:
                    if ast.dump(a.func.value) != ast.dump(r.func.value) or ast.dump(a.args[0]) != ast.dump(r.args[0]):
                        continue
                    if r.lineno < a.lineno:
                        continue
                    root = _root_name(a.func.value)
                    if root is None:
                        die(f"purity: {f}:{a.lineno} guard on a receiver the walker cannot resolve: {ast.unparse(a.func.value)}")
                    # where does the set live?  a local / parameter of this or of an enclosing function -> an object of the current call
                    scope = None
                    g = fn
                    while g is not None:
                        if root in _locals_of(g):
                            scope = 0
                            # ... unless the local is bound to (a part of) a module-level object somewhere in that function
                            for n2 in ast.walk(g):
                                if isinstance(n2, (ast.Assign, ast.AnnAssign)) and n2.value is not None:
                                    tg = n2.targets if isinstance(n2, ast.Assign) else [n2.target]
                                    if any(isinstance(t, ast.Name) and t.id == root for t in tg):
                                        src_root = _root_name(n2.value)
                                        if src_root is not None and src_root in module_names and src_root not in _locals_of(g):
                                            scope = 1
                            break
                        g = _enclosing_fn(g, par)
                    if scope is None:
                        scope = 1 if root in module_names else None
                    if scope is None:
                        die(f"purity: {f}:{a.lineno} guard set `{root}` is neither a local nor a module-level name")
                    # is the release inside a finally block of a try statement of this function?
                    # unconditionally: the release must be a statement OF the finally block, not nested in an if / loop inside it
                    release = 1
                    stmt = par.get(r)
                    tr = par.get(stmt) if isinstance(stmt, ast.Expr) else None
                    if isinstance(tr, ast.Try) and any(stmt is s_ for s_ in tr.finalbody):
                        # the add must precede the try or stand in its body
                        if a.lineno <= tr.lineno or any(a in list(ast.walk(s_)) for s_ in tr.body):
                            release = 0
                    guards.append({"file": f, "fn": fn.name, "recv": ast.unparse(a.func.value), "line": a.lineno, "scope": scope,
                                   "release": release, "key": ast.unparse(a.args[0])[:60]})
    if not any(g["file"] == "parser.py" and g["fn"] == "_ensure_function_variant" for g in guards):
        die("purity: the re-entrancy guard of parser.py:_ensure_function_variant (R.add(key) ... R.remove(key)) was not found - "
            "the walker no longer understands the function")
    return {"lazy": lazy, "node_args": node_args, "mutations": mutations, "guards": guards, "ir_classes": sorted(ir_classes)}


def _cmt(t):
    return t.replace("*)", "* )").replace("(*", "( *").replace("\n", " ")


def generate(api):
    import Reduino.transpile.parser as parser_mod
    src_dir = Path(parser_mod.__file__).resolve().parent
    inv = analyse(src_dir, api.die)
    out = [api.HEADER]
    out.append("(* Inventory for C10: lazily evaluated values, emit() changing its argument, re-entrancy guards - harness/gen/purity.py. *)\n")
    out.append("(* l_class 1: consumed on the spot by an eager consumer; 0: the one-shot object escapes *)\n")
    out.append("Record lsite := mk_lsite { l_file : text; l_fn : text; l_line : Z; l_class : Z }.\n\n")
    out.append("Definition lazy_sites : list lsite := " + api.clist(
        [f"mk_lsite {api.ctext(s['file'])} {api.ctext(s['fn'])} {s['line']} {s['class']}\n    (* {s['file']}:{s['line']} {s['fn']}: {_cmt(s['text'])} *)"
         for s in inv["lazy"]]) + ".\n\n")
    out.append("(* IR-node constructor calls of parser.py with a lazy argument: (node class, field, line) *)\n")
    out.append("Definition node_lazy_args : list (text * text * Z) := " + api.clist(
        [f"({api.ctext(s['node'])}, {api.ctext(s['field'])}, {s['line']})\n    (* parser.py:{s['line']} {s['node']}({s['field']}={_cmt(s['text'])}) *)"
         for s in inv["node_args"]]) + ".\n\n")
    out.append("(* statements of emitter.py that change an object reached through an attribute: (file, function, line) *)\n")
    out.append("Definition emit_arg_mutations : list (text * text * Z) := " + api.clist(
        [f"({api.ctext(s['file'])}, {api.ctext(s['fn'])}, {s['line']})\n    (* {s['file']}:{s['line']} {s['fn']} [{s['how']}]: {_cmt(s['text'])} *)"
         for s in inv["mutations"]]) + ".\n\n")
    out.append("(* g_scope 0: the guard set is an object of the current call; 1: a module-level object.  g_release 0: released in a finally block;\n"
               "   1: released by a statement an exception skips *)\n")
    out.append("Record gsite := mk_gsite { g_file : text; g_fn : text; g_recv : text; g_line : Z; g_scope : Z; g_release : Z }.\n\n")
    out.append("Definition guard_sites : list gsite := " + api.clist(
        [f"mk_gsite {api.ctext(s['file'])} {api.ctext(s['fn'])} {api.ctext(s['recv'])} {s['line']} {s['scope']} {s['release']}\n"
         f"    (* {s['file']}:{s['line']} {s['fn']}: {_cmt(s['recv'])}.add({_cmt(s['key'])}) *)" for s in inv["guards"]]) + ".\n\n")
    out.append("(* the classes of ast.py *)\n")
    out.append("Definition ir_classes : list text := " + api.clist([api.ctext(c) + f" (* {c} *)" for c in inv["ir_classes"]]) + ".\n")
    api.write_if_changed(api.GEN / "PuritySites.v", "".join(out))


if __name__ == "__main__":   # debugging aid
    import json
    import sys

    def _die(m):
        print(m)
        sys.exit(1)
    inv = analyse(Path(sys.argv[1]), _die)
    for k in ("lazy", "node_args", "mutations", "guards"):
        for x in inv[k]:
            if k != "lazy" or x["class"] == 0 or "-v" in sys.argv:
                print(k, json.dumps(x))
    print("lazy sites", len(inv["lazy"]), "ir classes", len(inv["ir_classes"]))
