"""Translator plug-in for C11: inventory of every regular expression of the transpiler  ->  coq/Gen/Regexes.v

Walks the `ast` of the *current* transpile/parser.py, transpile/emitter.py, transpile/ast.py, Reduino/__init__.py and toolchain/pio.py
(whatever PYTHONPATH points at), finds every `re.compile / match / search / fullmatch / sub / subn / split / findall /
finditer(<pattern>, ...)`, evaluates the pattern expression statically (string constants, `+`, f-strings and
module-level string names; `re.escape(<run-time value>)` becomes a literal placeholder), cross-checks the result with
the `.pattern` of the compiled object the imported module really holds, parses it with CPython's own `re._parser`, and
lowers the parse to the `rx` of coq/Lang/Regex.v.

Fail-closed (api.die): a pattern expression that cannot be evaluated, a use of the `re` module that is not understood
(`from re import ...`, an alias, an unknown function), a construct outside the model (back-reference, atomic group,
possessive repeat, IGNORECASE, a look-around that contains a repeat, a bounded repeat above 16), a module-level
compiled pattern the walker did not see.

The same inventory (with the CPython parse trees) is what harness/props/c11.py derives its pump strings from:
`inventory(src_root)`.
"""
from __future__ import annotations

import ast
import re
from pathlib import Path

try:
    import re._parser as sre_parse
    import re._constants as sre_c
except ImportError:  # Python < 3.11
    import sre_parse
    import sre_constants as sre_c

FILES = ["transpile/parser.py", "transpile/emitter.py", "transpile/ast.py", "__init__.py", "toolchain/pio.py"]
RE_FUNCS = {"compile": 1, "match": 2, "search": 2, "fullmatch": 2, "split": 3, "findall": 2, "finditer": 2, "sub": 4, "subn": 4}
RE_OTHER = {"escape", "Pattern", "Match", "error", "IGNORECASE", "I", "MULTILINE", "M", "DOTALL", "S", "VERBOSE", "X", "ASCII", "A",
            "UNICODE", "U", "NOFLAG", "RegexFlag"}
MAX_UNROLL = 16


class Die(Exception):
    pass


def _module_strings(tree):
    """module-level `NAME = <expr>` bindings (last one wins), for resolving names inside pattern expressions"""
    out = {}
    for st in tree.body:
        if isinstance(st, ast.Assign) and len(st.targets) == 1 and isinstance(st.targets[0], ast.Name):
            out[st.targets[0].id] = st.value
        elif isinstance(st, ast.AnnAssign) and isinstance(st.target, ast.Name) and st.value is not None:
            out[st.target.id] = st.value
    return out


def _eval_pattern(node, mod, where, depth=0, dyn=None):
    """static value of a pattern expression; run-time parts under re.escape() become the placeholder `dyn0`, `dyn1`..."""
    if depth > 20:
        raise Die(f"regexes: pattern expression at {where} is too deeply nested")
    if isinstance(node, ast.Constant) and isinstance(node.value, str):
        return node.value
    if isinstance(node, ast.BinOp) and isinstance(node.op, ast.Add):
        return _eval_pattern(node.left, mod, where, depth + 1, dyn) + _eval_pattern(node.right, mod, where, depth + 1, dyn)
    if isinstance(node, ast.JoinedStr):
        parts = []
        for v in node.values:
            if isinstance(v, ast.Constant):
                parts.append(str(v.value))
            elif isinstance(v, ast.FormattedValue) and v.format_spec is None and v.conversion == -1:
                parts.append(_eval_pattern(v.value, mod, where, depth + 1, dyn))
            else:
                raise Die(f"regexes: f-string part with a conversion / format spec in the pattern at {where}")
        return "".join(parts)
    if isinstance(node, ast.Name) and node.id in mod:
        return _eval_pattern(mod[node.id], mod, where, depth + 1, dyn)
    if (isinstance(node, ast.Call) and isinstance(node.func, ast.Attribute) and isinstance(node.func.value, ast.Name)
            and node.func.value.id == "re" and node.func.attr == "escape" and len(node.args) == 1 and not node.keywords):
        try:
            return re.escape(_eval_pattern(node.args[0], mod, where, depth + 1, None))
        except Die:
            if dyn is None:
                raise
            dyn.append(ast.unparse(node.args[0]))
            return f"dyn{len(dyn) - 1}"
    raise Die(f"regexes: cannot evaluate the pattern expression `{ast.unparse(node)[:80]}` at {where}")


def _eval_flags(node, where):
    if node is None:
        return 0
    if isinstance(node, ast.Constant) and isinstance(node.value, int):
        return int(node.value)
    if isinstance(node, ast.Attribute) and isinstance(node.value, ast.Name) and node.value.id == "re" and hasattr(re, node.attr):
        return int(getattr(re, node.attr))
    if isinstance(node, ast.BinOp) and isinstance(node.op, ast.BitOr):
        return _eval_flags(node.left, where) | _eval_flags(node.right, where)
    raise Die(f"regexes: cannot evaluate the flags `{ast.unparse(node)[:60]}` at {where}")


def find_patterns(fname, tree):
    """[{file, name, line, fn (re function), pattern, flags, dynamic: [exprs], scope}]"""
    mod = _module_strings(tree)
    for n in ast.walk(tree):
        if isinstance(n, ast.ImportFrom) and n.module in ("re", "regex", "sre_parse", "sre_compile"):
            raise Die(f"regexes: {fname}:{n.lineno} `from {n.module} import ...` - the walker only follows `re.<function>(...)`")
        if isinstance(n, ast.Import):
            for a in n.names:
                if a.name in ("regex", "sre_compile") or (a.name == "re" and a.asname not in (None, "re")):
                    raise Die(f"regexes: {fname}:{n.lineno} import of `{a.name}` as `{a.asname}` is not understood")
    parents = {}
    for p in ast.walk(tree):
        for c in ast.iter_child_nodes(p):
            parents[c] = p
    named = {}
    for st in tree.body:
        if isinstance(st, (ast.Assign, ast.AnnAssign)):
            v = st.value
            tg = st.targets[0] if isinstance(st, ast.Assign) else st.target
            if isinstance(tg, ast.Name) and v is not None:
                named[id(v)] = tg.id
    out = []
    handled = set()
    for n in ast.walk(tree):
        if not (isinstance(n, ast.Attribute) and isinstance(n.value, ast.Name) and n.value.id == "re"):
            continue
        if n.attr in RE_OTHER:
            continue
        if n.attr not in RE_FUNCS:
            raise Die(f"regexes: {fname}:{n.lineno} use of re.{n.attr} is not understood")
        call = parents.get(n)
        if not (isinstance(call, ast.Call) and call.func is n):
            raise Die(f"regexes: {fname}:{n.lineno} re.{n.attr} is used as a value, not called")
        handled.add(id(call))
        where = f"{fname}:{call.lineno}"
        kw = {k.arg: k.value for k in call.keywords}
        if None in kw or any(isinstance(a, ast.Starred) for a in call.args):
            raise Die(f"regexes: {where} re.{n.attr} called with * / ** arguments")
        pat = call.args[0] if call.args else kw.get("pattern")
        if pat is None:
            raise Die(f"regexes: {where} re.{n.attr} without a pattern")
        fl = call.args[RE_FUNCS[n.attr]] if len(call.args) > RE_FUNCS[n.attr] else kw.get("flags")
        dyn = []
        text = _eval_pattern(pat, mod, where, 0, dyn)
        scope = parents.get(call)
        fn = None
        while scope is not None:
            if isinstance(scope, (ast.FunctionDef, ast.AsyncFunctionDef)):
                fn = scope.name
                break
            scope = parents.get(scope)
        name = named.get(id(call)) or f"{fn or '<module>'}:{call.lineno}"
        out.append({"file": fname, "name": name, "line": call.lineno, "fn": n.attr, "pattern": text,
                    "flags": _eval_flags(fl, where), "dynamic": dyn, "scope": fn, "module_level": id(call) in named})
    return out


# ---------------------------------------------------------------------------- lowering to rx
_CATS = {"CATEGORY_DIGIT": r"\d", "CATEGORY_NOT_DIGIT": r"\D", "CATEGORY_SPACE": r"\s", "CATEGORY_NOT_SPACE": r"\S",
         "CATEGORY_WORD": r"\w", "CATEGORY_NOT_WORD": r"\W"}
_cat_cache = {}


def _cat_members(cat, flags):
    key = (str(cat), bool(flags & re.ASCII))
    if key not in _cat_cache:
        pat = _CATS.get(str(cat).split(".")[-1])
        if pat is None:
            raise Die(f"regexes: character category {cat} is outside the model")
        rx = re.compile(pat, re.ASCII if flags & re.ASCII else 0)
        asc = frozenset(c for c in range(128) if rx.fullmatch(chr(c)))
        wide = any(rx.fullmatch(chr(c)) for c in (0x85, 0xA0, 0xE9, 0x3B1, 0x660, 0x2028, 0x4E2D, 0x1F600))
        _cat_cache[key] = (asc, wide)
    return _cat_cache[key]


def set_of(op, av, flags):
    """(frozenset of ASCII members, has non-ASCII members) of a one-character item"""
    name = str(op)
    if name == "LITERAL":
        return (frozenset([av]) if av < 128 else frozenset()), av >= 128
    if name == "NOT_LITERAL":
        return frozenset(c for c in range(128) if c != av), True
    if name == "ANY":
        return frozenset(c for c in range(128) if (flags & re.DOTALL) or c != 10), True
    if name == "IN":
        neg = False
        asc, wide = set(), False
        for o, a in av:
            on = str(o)
            if on == "NEGATE":
                neg = True
            elif on == "LITERAL":
                if a < 128:
                    asc.add(a)
                else:
                    wide = True
            elif on == "RANGE":
                lo, hi = a
                asc.update(range(lo, min(hi, 127) + 1))
                wide = wide or hi >= 128
            elif on == "CATEGORY":
                m, w = _cat_members(a, flags)
                asc |= m
                wide = wide or w
            else:
                raise Die(f"regexes: set item {on} is outside the model")
        if neg:
            return frozenset(c for c in range(128) if c not in asc), True
        return frozenset(asc), wide
    raise Die(f"regexes: {name} is not a one-character item")


def ranges_of(members):
    out, cur = [], None
    for c in sorted(members):
        if cur and c == cur[1] + 1:
            cur[1] = c
        else:
            cur = [c, c]
            out.append(cur)
    return tuple((a, b) for a, b in out)


def _seq(parts):
    parts = [p for p in parts if p != ("eps",)]
    if not parts:
        return ("eps",)
    r = parts[-1]
    for p in reversed(parts[:-1]):
        r = ("seq", p, r)
    return r


def has_repeat(items):
    for op, av in items:
        name = str(op)
        if name in ("MAX_REPEAT", "MIN_REPEAT", "POSSESSIVE_REPEAT"):
            return True
        if name == "SUBPATTERN" and has_repeat(av[3]):
            return True
        if name == "BRANCH" and any(has_repeat(a) for a in av[1]):
            return True
        if name in ("ASSERT", "ASSERT_NOT") and has_repeat(av[1]):
            return True
    return False


def lower(items, flags, where):
    parts = []
    for op, av in items:
        name = str(op)
        if name in ("LITERAL", "NOT_LITERAL", "ANY", "IN"):
            m, w = set_of(op, av, flags)
            parts.append(("set", ranges_of(m), w))
        elif name == "AT":
            continue
        elif name in ("ASSERT", "ASSERT_NOT"):
            if has_repeat(av[1]):
                raise Die(f"regexes: {where}: a look-around that contains a repeat is outside the model")
            continue
        elif name in ("MAX_REPEAT", "MIN_REPEAT"):
            lo, hi, body = av
            r = lower(body, flags, where)
            if hi == sre_c.MAXREPEAT:
                if lo > MAX_UNROLL:
                    raise Die(f"regexes: {where}: repeat with a minimum above {MAX_UNROLL}")
                parts.append(_seq([r] * lo + [("star", r)]))
            else:
                if hi > MAX_UNROLL:
                    raise Die(f"regexes: {where}: bounded repeat above {MAX_UNROLL}")
                opt = ("eps",)
                for _ in range(hi - lo):
                    opt = ("alt", _seq([r, opt]), ("eps",))
                parts.append(_seq([r] * lo + [opt]))
        elif name == "SUBPATTERN":
            grp, add, dele, body = av
            if add or dele:
                raise Die(f"regexes: {where}: inline flags inside a group are outside the model")
            parts.append(lower(body, flags, where))
        elif name == "BRANCH":
            alts = [lower(a, flags, where) for a in av[1]]
            r = alts[-1]
            for a in reversed(alts[:-1]):
                r = ("alt", a, r)
            parts.append(r)
        else:
            raise Die(f"regexes: {where}: construct {name} is outside the model")
    return _seq(parts)


def parse_pattern(pattern, flags, where):
    if flags & re.IGNORECASE:
        raise Die(f"regexes: {where}: IGNORECASE is outside the model")
    try:
        p = sre_parse.parse(pattern, flags)
    except re.error as e:
        raise Die(f"regexes: {where}: the pattern does not compile: {e}")
    if p.state.flags & re.IGNORECASE:
        raise Die(f"regexes: {where}: IGNORECASE is outside the model")
    return p


def inventory(src_root: Path):
    """every regular expression of the transpiler sources under src_root (= .../src/Reduino), with CPython's parse tree
    (`tree`), the lowered model (`rx`) and the effective flags"""
    out = []
    for f in FILES:
        p = src_root / f
        if not p.exists():
            raise Die(f"regexes: {p} not found")
        try:
            tree = ast.parse(p.read_text(encoding="utf-8"))
        except SyntaxError as e:
            raise Die(f"regexes: {f} does not parse: {e}")
        for e in find_patterns(f, tree):
            where = f"{f}:{e['line']} {e['name']}"
            e["tree"] = parse_pattern(e["pattern"], e["flags"], where)
            e["eflags"] = e["tree"].state.flags
            e["rx"] = lower(list(e["tree"]), e["eflags"], where)
            out.append(e)
    return out


def crosscheck(entries):
    """the module-level compiled patterns of the imported parser module are exactly the ones the walker evaluated"""
    import importlib
    for f, modname in (("transpile/parser.py", "Reduino.transpile.parser"), ("transpile/emitter.py", "Reduino.transpile.emitter"),
                       ("transpile/ast.py", "Reduino.transpile.ast")):
        m = importlib.import_module(modname)
        mine = {e["name"]: e for e in entries if e["file"] == f and e["module_level"]}
        for k, v in vars(m).items():
            if isinstance(v, re.Pattern):
                if k not in mine:
                    # an alias of a listed pattern is fine
                    if any(v.pattern == e["pattern"] for e in entries):
                        continue
                    raise Die(f"regexes: {f}: module-level compiled pattern {k} was not found by the walker")
                if v.pattern != mine[k]["pattern"] or (v.flags & ~re.UNICODE) != (mine[k]["eflags"] & ~re.UNICODE):
                    raise Die(f"regexes: {f}: {k}: the statically evaluated pattern differs from the compiled one")


# ---------------------------------------------------------------------------- Coq output
def generate(api):
    import Reduino
    root = Path(Reduino.__file__).resolve().parent
    try:
        entries = inventory(root)
        crosscheck(entries)
    except Die as e:
        api.die(str(e))
    if len(entries) < 20 or not any(e["name"] == "RE_ASSIGN" for e in entries):
        api.die("regexes: fewer than 20 regular expressions / no RE_ASSIGN found - the walker no longer understands the source")
    csets = {}

    def cs(ranges, wide):
        key = (ranges, wide)
        if key not in csets:
            csets[key] = f"cs_{len(csets)}"
        return csets[key]

    def show(r):
        k = r[0]
        if k == "eps":
            return "REps"
        if k == "set":
            return f"(RSet {cs(r[1], r[2])})"
        if k == "seq":
            return f"(RSeq {show(r[1])} {show(r[2])})"
        if k == "alt":
            return f"(RAlt {show(r[1])} {show(r[2])})"
        return f"(RStar {show(r[1])})"

    items = []
    for e in entries:
        items.append(f"mk_re {api.ctext(e['file'])} {api.ctext(e['name'])} {e['line']} {api.ctext(e['pattern'])}\n    {show(e['rx'])}"
                     f"\n    (* {e['file']}:{e['line']} {e['name'].replace('*', '')} via re.{e['fn']}{' [run-time parts]' if e['dynamic'] else ''} *)")
    out = ["(* GENERATED by harness/gen/regexes.py from /repo - do not edit, not committed *)\n"
           "From Coq Require Import ZArith List.\nFrom RV Require Import Base.Wire Lang.Regex.\nImport ListNotations.\nOpen Scope Z_scope.\n\n"
           "(* Every regular expression of transpile/parser.py, emitter.py, ast.py and Reduino/__init__.py: CPython's own parse of\n"
           "   the pattern, lowered to Lang/Regex.v (sets restricted to ASCII + a flag, x+ = x x*, x? = x | eps, anchors = eps). *)\n\n"]
    for (ranges, wide), nm in csets.items():
        out.append(f"Definition {nm} : cset := mk_cset [" + "; ".join(f"({a}, {b})" for a, b in ranges) + f"] {'true' if wide else 'false'}.\n")
    out.append("\nDefinition regex_table : list rentry := " + api.clist(items) + ".\n\n")
    out.append("(* entries whose pattern has parts only known at run time (re.escape(<variable>)), replaced by a literal placeholder *)\n")
    out.append("Definition regex_dynamic : list text := " + api.clist([api.ctext(e["name"]) for e in entries if e["dynamic"]]) + ".\n")
    api.write_if_changed(api.GEN / "Regexes.v", "".join(out))


if __name__ == "__main__":   # debugging aid
    import sys
    for e in inventory(Path(sys.argv[1])):
        print(e["file"], e["line"], e["name"], e["fn"], repr(e["pattern"]), e["flags"], e["dynamic"])
