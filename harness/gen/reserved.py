"""Translator plug-in for C06: coq/Gen/Reserved.v from the *current* transpile/parser.py.

  reserved_names      parser._CPP_RESERVED_NAMES, sorted
  reserved_rule       1: parser._check_identifier(name) raises ValueError exactly for the names of the table and for A<digits>
                         (ANALOG_PIN_RE = ^A\\d+$), and returns the name otherwise - established by probing the function on the
                         table, on mutilated members (prefix / suffix / case changed) and on a fixed list of ordinary ASCII names
                         (\\d also matches the decimal digits beyond ASCII: for such names the function rejects more than the model says);
                      0: the parser has no _check_identifier (a tree before the repair of F-C06-cpp-keyword-identifier): the
                         table is empty and nothing is reserved - the theorems of Props/C06.v about it then fail, nothing else does
  declaration_sites   how many calls of _check_identifier the source of parser.py contains (the declaration sites)

Fail-closed (api.die) when the function exists but does not behave like that."""
import ast
import inspect
import re


def generate(api):
    from Reduino.transpile import parser as P

    out = [api.HEADER.replace("gen_tables.py", "gen/reserved.py")]
    chk = getattr(P, "_check_identifier", None)
    names = getattr(P, "_CPP_RESERVED_NAMES", None)
    if chk is None and names is None:
        out.append("Definition reserved_names : list text := [].\n\nDefinition reserved_rule : Z := 0.\n\nDefinition declaration_sites : Z := 0.\n")
        api.write_if_changed(api.GEN / "Reserved.v", "".join(out))
        return
    if not callable(chk) or not isinstance(names, (set, frozenset)) or not names or not all(isinstance(n, str) and n.isidentifier() for n in names):
        api.die("_check_identifier / _CPP_RESERVED_NAMES: not a function and a non-empty set of identifiers")
    pin = getattr(P, "ANALOG_PIN_RE", None)
    if not isinstance(pin, re.Pattern) or pin.pattern != r"^A\d+$" or pin.flags & ~re.UNICODE:
        api.die("ANALOG_PIN_RE is not ^A\\d+$")

    def raises(n):
        try:
            r = chk(n)
        except ValueError:
            return True
        except Exception as e:  # noqa
            api.die(f"_check_identifier({n!r}) raises {type(e).__name__}, not ValueError")
        if r != n:
            api.die(f"_check_identifier({n!r}) returns {r!r}")
        return False

    def model(n):
        return n in names or (len(n) >= 2 and n[0] == "A" and n[1:].isascii() and n[1:].isdigit())

    probes = set(names)
    for n in names:
        probes.update({n + "_", "_" + n, n + "1", n[:-1], n[1:], n.swapcase(), n.capitalize(), n + n})
    probes.update(["x", "i", "count", "total", "led", "value", "A", "A0", "A1", "A7", "A15", "A99", "A0x", "a0", "AA0", "A_0", "B0", "A00",
                   "_", "__", "__redu_len", "__state_led", "Loop", "Setup", "Main", "high", "string", "serial", "self", "None_"])
    probes.discard("")
    for n in sorted(probes):
        if raises(n) != model(n):
            api.die(f"_check_identifier({n!r}) {'raises' if raises(n) else 'accepts'}: not `name in _CPP_RESERVED_NAMES or ANALOG_PIN_RE.match(name)`")
    try:
        tree = ast.parse(inspect.getsource(P))
    except Exception as e:  # noqa
        api.die(f"parser.py: source not readable ({type(e).__name__})")
    sites = sum(1 for n in ast.walk(tree) if isinstance(n, ast.Call) and isinstance(n.func, ast.Name) and n.func.id == "_check_identifier")
    out.append("Definition reserved_names : list text := " + api.clist([api.ctext(n) + " (* " + n + " *)" for n in sorted(names)]) + ".\n\n")
    out.append("Definition reserved_rule : Z := 1.\n\n")
    out.append(f"Definition declaration_sites : Z := {sites}.\n")
    api.write_if_changed(api.GEN / "Reserved.v", "".join(out))
