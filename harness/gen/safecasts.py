"""Translator plug-in: coq/Gen/SafeCasts.v from the *current* transpile/parser.py.

Tables printed (all fail-closed on an unexpected shape):
  safe_casts            keys of _SAFE_CASTS, in dict order (each value must be the builtin of the same name)
  safe_name_references  _SAFE_NAME_REFERENCES, sorted
  bin_ops / un_ops / cmp_ops          _BIN / _UN / _CMP as (ast class name, C token) lists
  eval_bin_fns / eval_cmp_fns         the two local dispatch dicts of _eval_const
                                      ({ast.Add: op.add, ...} inside _apply_bin, {ast.Eq: op.eq, ...} inside ev)
                                      as (ast class name, operator function name) lists, read from the source text
  fold_max_bits         _MAX_CONST_BITS (the one test `bits > _MAX_CONST_BITS` of _apply_bin must have that shape)
"""
import ast
import builtins
import inspect
import operator


def generate(api):
    from Reduino.transpile import parser as P

    def names_table(d, what, value_check):
        if not isinstance(d, dict) or not d:
            api.die(f"{what} is not a non-empty dict")
        rows = []
        for k, v in d.items():
            if not (isinstance(k, type) and issubclass(k, ast.AST)):
                api.die(f"{what}: key {k!r} is not an ast node class")
            if not isinstance(v, str):
                api.die(f"{what}: value {v!r} is not a str token")
            value_check(k, v)
            rows.append("(" + api.ctext(k.__name__) + ", " + api.ctext(v) + ") (* " + k.__name__ + " -> " + v.replace("*)", "* )") + " *)")
        return rows

    sc = getattr(P, "_SAFE_CASTS", None)
    if not isinstance(sc, dict) or not sc:
        api.die("_SAFE_CASTS is not a non-empty dict")
    for k, v in sc.items():
        if not isinstance(k, str):
            api.die(f"_SAFE_CASTS: key {k!r} is not a str")
        if getattr(builtins, k, None) is not v:
            api.die(f"_SAFE_CASTS[{k!r}] is not the builtin of that name")
    snr = getattr(P, "_SAFE_NAME_REFERENCES", None)
    if not isinstance(snr, (set, frozenset)) or not all(isinstance(x, str) for x in snr):
        api.die("_SAFE_NAME_REFERENCES is not a set of str")

    out = [api.HEADER.replace("gen_tables.py", "gen/safecasts.py")]
    out.append("Definition safe_casts : list text := " + api.clist([api.ctext(k) + " (* " + k + " *)" for k in sc]) + ".\n\n")
    out.append("Definition safe_name_references : list text := " + api.clist([api.ctext(k) + " (* " + k + " *)" for k in sorted(snr)]) + ".\n\n")
    nochk = lambda k, v: None
    out.append("Definition bin_ops : list (text * text) := " + api.clist(names_table(P._BIN, "_BIN", nochk)) + ".\n\n")
    out.append("Definition un_ops : list (text * text) := " + api.clist(names_table(P._UN, "_UN", nochk)) + ".\n\n")
    out.append("Definition cmp_ops : list (text * text) := " + api.clist(names_table(P._CMP, "_CMP", nochk)) + ".\n\n")

    # the evaluator's local dispatch dicts, from the source text of _eval_const
    try:
        src = inspect.getsource(P._eval_const)
        tree = ast.parse(src)
    except Exception as e:  # noqa
        api.die(f"_eval_const: source not readable ({type(e).__name__})")
    dicts = []
    for node in ast.walk(tree):
        if isinstance(node, ast.Dict) and node.keys and all(
            isinstance(k, ast.Attribute) and isinstance(k.value, ast.Name) and k.value.id == "ast" for k in node.keys
        ):
            rows = []
            for k, v in zip(node.keys, node.values):
                if not (isinstance(v, ast.Attribute) and isinstance(v.value, ast.Name) and v.value.id == "op"):
                    api.die("_eval_const: dispatch dict value is not of the form op.<name>")
                if not callable(getattr(operator, v.attr, None)):
                    api.die(f"_eval_const: operator.{v.attr} does not exist")
                rows.append((k.attr, v.attr))
            dicts.append(rows)
    if len(dicts) != 2:
        api.die(f"_eval_const: expected exactly two ast->operator dispatch dicts, found {len(dicts)}")
    cmp_rows, bin_rows = (dicts[0], dicts[1]) if len(dicts[0]) < len(dicts[1]) else (dicts[1], dicts[0])
    if not any(a == "Add" for a, _ in bin_rows) or not any(a == "Eq" for a, _ in cmp_rows):
        api.die("_eval_const: could not tell the binary-operator dict from the comparison dict")
    fmt = lambda rows: api.clist(["(" + api.ctext(a) + ", " + api.ctext(b) + ") (* ast." + a + " -> op." + b + " *)" for a, b in rows])
    out.append("Definition eval_bin_fns : list (text * text) := " + fmt(bin_rows) + ".\n\n")
    out.append("Definition eval_cmp_fns : list (text * text) := " + fmt(cmp_rows) + ".\n\n")

    # the size bound on folded integers: the module constant and the one test `<name> > _MAX_CONST_BITS` of _apply_bin
    mb = getattr(P, "_MAX_CONST_BITS", None)
    if isinstance(mb, bool) or not isinstance(mb, int):
        api.die("_MAX_CONST_BITS is missing or not an int: _eval_const folds integers of unbounded size")
    if not (1 <= mb <= 1 << 20):
        api.die(f"_MAX_CONST_BITS = {mb}: not a size bound (expected 1 .. 2^20)")
    tests = [n for n in ast.walk(tree) if isinstance(n, ast.Compare) and any(
        isinstance(x, ast.Name) and x.id == "_MAX_CONST_BITS" for x in [n.left] + n.comparators)]
    if len(tests) != 1:
        api.die(f"_eval_const: expected exactly one comparison with _MAX_CONST_BITS, found {len(tests)}")
    t = tests[0]
    if not (len(t.ops) == 1 and isinstance(t.ops[0], ast.Gt) and isinstance(t.left, ast.Name)
            and isinstance(t.comparators[0], ast.Name) and t.comparators[0].id == "_MAX_CONST_BITS"):
        api.die("_eval_const: the size test is not of the form `<name> > _MAX_CONST_BITS`")
    out.append("Definition fold_max_bits : Z := " + str(mb) + ".\n")
    api.write_if_changed(api.GEN / "SafeCasts.v", "".join(out))
