"""Translator plug-in for C10: inventory of hash-order-dependent iteration sites and of
module-level state in Reduino's transpiler  ->  coq/Gen/SetSites.v

Walks the `ast` of the *current* transpile/parser.py and transpile/emitter.py (whatever
PYTHONPATH points at) and lists

  * `sites`: every order-consuming use (`for ... in E`, comprehension generator, `join(E)`,
    `list(E)`, `tuple(E)`, `enumerate/iter/next/reversed/zip/map/filter(E)`, `x.extend(E)`,
    `x += E`, `*E`, `str/repr(E)`, f-string `{E}`, `E.pop()`, `min/max(E, key=...)`,
    `dict.fromkeys(E)`, `sorted(E)`, and the order-insensitive consumers `set/frozenset/len/
    any/all/sum/min/max(E)` and set comprehensions) whose iterable E is, syntactically,
    a set-typed name, a set literal / set comprehension, a `set(...)`/`frozenset(...)` call,
    a set-algebra expression (`-`, `|`, `&`, `^`, `.union()`...), a lookup with a set default
    (`ctx.get("k", set())`, `getattr(o, "k", set())`), a `Set[...]`-annotated attribute of the
    IR, or (the keys/items/values of) a dict that is filled while iterating a set.
    Each with (file, function, line, iterable text, class):
        class 0 = order reaches the consumer (unsorted)        -> must be `modelled`
        class 1 = wrapped in sorted(...)                       -> order independent
        class 2 = order-insensitive consumer (set(), len(), any(), SetComp ...)
  * `module_state`: every module-level binding of the two files whose value is not an
    immutable literal, a compiled regex, a function or a class, with a flag saying whether
    any function of the module mutates or rebinds it (`global`, item store, mutator call),
    plus every function default argument that is a mutable object.

Fail-closed: an iterable in an order-consuming position whose kind cannot be decided
statically aborts the generation (api.die), which the check treats as a broken tie.
"""
from __future__ import annotations

import ast
from pathlib import Path

FILES = ["parser.py", "emitter.py"]

SET, SETDICT, ORDERED, DICT, SCALAR, UNKNOWN = "set", "setdict", "ordered", "dict", "scalar", "unknown"

# order-consuming call forms: the order of the argument reaches the result
ORDER_FUNCS = {"list", "tuple", "enumerate", "iter", "next", "reversed", "zip", "map", "filter", "str", "repr",
               "print", "dict", "OrderedDict", "deque", "chain"}
ORDER_METHODS = {"join", "extend", "fromkeys", "format", "writelines"}
# order-insensitive consumers
FREE_FUNCS = {"set", "frozenset", "len", "any", "all", "sum", "bool", "isinstance", "id", "type"}
KEYED_FUNCS = {"min", "max"}  # insensitive unless key= is given (ties)
SCALAR_FUNCS = {"len", "int", "float", "bool", "abs", "isinstance", "hasattr", "ord", "chr", "id", "type", "round",
                "min", "max", "sum", "any", "all", "next", "callable", "hash"}
ORDERED_FUNCS = {"sorted", "list", "tuple", "reversed", "enumerate", "zip", "range", "map", "filter", "str", "repr",
                 "bytes", "bytearray"}
ORDERED_METHODS = {"split", "rsplit", "splitlines", "finditer", "findall", "groups", "strip", "lstrip", "rstrip",
                   "join", "format", "replace", "lower", "upper", "partition", "rpartition", "iter_child_nodes",
                   "walk", "iter_fields", "group", "title", "capitalize", "expandtabs", "ljust", "rjust", "zfill",
                   "encode", "decode", "unparse", "dump", "most_common", "fields"}
SET_METHODS = {"union", "difference", "intersection", "symmetric_difference"}
DICT_VIEW = {"keys", "items", "values"}
MUTATORS = {"append", "extend", "insert", "pop", "remove", "clear", "add", "discard", "update", "setdefault",
            "popitem", "sort", "reverse", "appendleft", "popleft", "move_to_end", "__setitem__", "__delitem__",
            "intersection_update", "difference_update", "symmetric_difference_update"}
DICT_STORE_METHODS = {"setdefault", "update", "__setitem__"}
# list-valued fields of the standard library's ast nodes (iteration order = source order)
PY_AST_LIST_FIELDS = {"elts", "args", "keywords", "values", "ops", "comparators", "targets", "generators", "body",
                      "orelse", "handlers", "names", "decorator_list", "posonlyargs", "kwonlyargs", "defaults",
                      "kw_defaults", "keys", "ifs", "finalbody", "items", "cases", "patterns", "dims"}


def ann_kind(a) -> str:
    """kind denoted by a type annotation"""
    if a is None:
        return UNKNOWN
    if isinstance(a, ast.Constant) and isinstance(a.value, str):
        try:
            return ann_kind(ast.parse(a.value, mode="eval").body)
        except SyntaxError:
            return UNKNOWN
    if isinstance(a, ast.Constant) and a.value is None:
        return SCALAR
    if isinstance(a, ast.Name):
        n = a.id
    elif isinstance(a, ast.Attribute):
        n = a.attr
    elif isinstance(a, ast.Subscript):
        base = a.value.id if isinstance(a.value, ast.Name) else (a.value.attr if isinstance(a.value, ast.Attribute) else "")
        if base == "Optional":
            return ann_kind(a.slice)
        if base == "Union":
            elts = a.slice.elts if isinstance(a.slice, ast.Tuple) else [a.slice]
            return join_kinds([ann_kind(e) for e in elts])
        n = base
    elif isinstance(a, ast.BinOp) and isinstance(a.op, ast.BitOr):
        return join_kinds([ann_kind(a.left), ann_kind(a.right)])
    else:
        return UNKNOWN
    if n in ("Set", "set", "FrozenSet", "frozenset", "AbstractSet", "MutableSet", "KeysView", "ItemsView"):
        return SET
    if n in ("List", "list", "Tuple", "tuple", "Sequence", "MutableSequence", "str", "bytes", "Deque", "deque"):
        return ORDERED
    if n in ("Dict", "dict", "Mapping", "MutableMapping", "OrderedDict", "DefaultDict", "defaultdict", "Counter"):
        return DICT
    if n in ("int", "float", "bool", "complex", "None", "NoneType"):
        return SCALAR
    return UNKNOWN  # Iterable, Iterator, Collection, Any, object, user classes ...


def ann_elem(a, which="elem"):
    """annotation of the elements (List[T] -> T) / dict key / dict value of an annotation, or None"""
    if isinstance(a, ast.Constant) and isinstance(a.value, str):
        try:
            return ann_elem(ast.parse(a.value, mode="eval").body, which)
        except SyntaxError:
            return None
    if not isinstance(a, ast.Subscript):
        return None
    base = a.value.id if isinstance(a.value, ast.Name) else (a.value.attr if isinstance(a.value, ast.Attribute) else "")
    if base == "Optional":
        return ann_elem(a.slice, which)
    sl = a.slice
    if base in ("List", "list", "Set", "set", "FrozenSet", "frozenset", "Sequence", "Iterable", "Iterator"):
        return sl if which == "elem" else None
    if base in ("Tuple", "tuple"):
        if isinstance(sl, ast.Tuple) and len(sl.elts) == 2 and isinstance(sl.elts[1], ast.Constant) and sl.elts[1].value is Ellipsis:
            return sl.elts[0] if which == "elem" else None
        return None
    if base in ("Dict", "dict", "Mapping", "MutableMapping") and isinstance(sl, ast.Tuple) and len(sl.elts) == 2:
        return {"key": sl.elts[0], "value": sl.elts[1], "elem": sl.elts[0]}.get(which)
    return None


def join_kinds(ks):
    ks = [k for k in ks]
    if not ks:
        return UNKNOWN
    if SET in ks:
        return SET
    if SETDICT in ks:
        return SETDICT
    if UNKNOWN in ks:
        return UNKNOWN
    s = set(ks) - {SCALAR}
    if not s:
        return SCALAR
    if len(s) == 1:
        return s.pop()
    return UNKNOWN


class Scope:
    def __init__(self, node, parent, name):
        self.node, self.parent, self.name = node, parent, name
        self.bind_kinds: dict[str, list] = {}     # name -> [kind, ...]
        self.bind_anns: dict[str, object] = {}    # name -> annotation node (first seen)
        self.tainted: set[str] = set()            # dict names filled in set-iteration order
        self.funcs: dict[str, ast.AST] = {}       # nested function definitions

    def qual(self):
        parts = []
        s = self
        while s is not None and s.parent is not None:
            parts.append(s.name)
            s = s.parent
        return ".".join(reversed(parts)) or "<module>"


class Analyzer:
    def __init__(self, fname, tree, attr_table, key_table, func_returns, die):
        self.fname, self.tree, self.attr, self.keys, self.rets, self.die = fname, tree, attr_table, key_table, func_returns, die
        self.sites = []
        self.scopes: dict[ast.AST, Scope] = {}
        self.parent: dict[ast.AST, ast.AST] = {}
        for p in ast.walk(tree):
            for c in ast.iter_child_nodes(p):
                self.parent[c] = p

    # ------------------------------------------------------------ scopes & bindings
    def scope_of(self, node) -> Scope:
        n = node
        while n is not None:
            if n in self.scopes and n is not node:
                return self.scopes[n]
            n = self.parent.get(n)
        return self.scopes[self.tree]

    def build_scopes(self):
        def visit(node, scope):
            for child in ast.iter_child_nodes(node):
                if isinstance(child, (ast.FunctionDef, ast.AsyncFunctionDef, ast.Lambda)):
                    nm = getattr(child, "name", "<lambda>")
                    sc = Scope(child, scope, nm)
                    self.scopes[child] = sc
                    if nm != "<lambda>":
                        scope.funcs[nm] = child
                        scope.bind_kinds.setdefault(nm, []).append(SCALAR)
                    a = child.args
                    for arg in list(a.posonlyargs) + list(a.args) + list(a.kwonlyargs) + ([a.vararg] if a.vararg else []) + ([a.kwarg] if a.kwarg else []):
                        sc.bind_anns.setdefault(arg.arg, arg.annotation)
                        sc.bind_kinds.setdefault(arg.arg, []).append(("param", arg.annotation, child, arg.arg))
                    visit(child, sc)
                elif isinstance(child, ast.ClassDef):
                    scope.bind_kinds.setdefault(child.name, []).append(SCALAR)
                    sc = Scope(child, scope, child.name)
                    self.scopes[child] = sc
                    visit(child, sc)
                else:
                    visit(child, scope)
        root = Scope(self.tree, None, "<module>")
        self.scopes[self.tree] = root
        visit(self.tree, root)
        # bindings (second pass so that every scope exists)
        for node in ast.walk(self.tree):
            sc = self.scope_of(node)
            if isinstance(node, ast.AnnAssign) and isinstance(node.target, ast.Name):
                sc.bind_anns.setdefault(node.target.id, node.annotation)
                k = ann_kind(node.annotation)
                sc.bind_kinds.setdefault(node.target.id, []).append(("ann+val", node.annotation, node.value))
            elif isinstance(node, ast.Assign):
                for t in node.targets:
                    self.bind_target(sc, t, ("val", node.value))
            elif isinstance(node, ast.AugAssign) and isinstance(node.target, ast.Name):
                sc.bind_kinds.setdefault(node.target.id, []).append(("aug", node.value))
            elif isinstance(node, (ast.For, ast.AsyncFor)):
                self.bind_target(sc, node.target, ("elem", node.iter))
            elif isinstance(node, ast.comprehension):
                self.bind_target(sc, node.target, ("elem", node.iter))
            elif isinstance(node, (ast.With, ast.AsyncWith)):
                for it in node.items:
                    if it.optional_vars is not None:
                        self.bind_target(sc, it.optional_vars, SCALAR)
            elif isinstance(node, ast.ExceptHandler) and node.name:
                sc.bind_kinds.setdefault(node.name, []).append(SCALAR)
            elif isinstance(node, (ast.Import, ast.ImportFrom)):
                for al in node.names:
                    sc.bind_kinds.setdefault((al.asname or al.name).split(".")[0], []).append(SCALAR)
            elif isinstance(node, ast.NamedExpr) and isinstance(node.target, ast.Name):
                sc.bind_kinds.setdefault(node.target.id, []).append(("val", node.value))

    def bind_target(self, sc, target, how):
        if isinstance(target, ast.Name):
            sc.bind_kinds.setdefault(target.id, []).append(how)
        elif isinstance(target, (ast.Tuple, ast.List)):
            ret_parts = None
            if isinstance(how, tuple) and how[0] == "val" and isinstance(how[1], ast.Call) and isinstance(how[1].func, ast.Name) \
                    and how[1].func.id in self.rets:
                r = self.rets[how[1].func.id]
                if isinstance(r, ast.Subscript) and isinstance(r.value, ast.Name) and r.value.id in ("Tuple", "tuple") \
                        and isinstance(r.slice, ast.Tuple) and len(r.slice.elts) == len(target.elts):
                    ret_parts = r.slice.elts
            for i, e in enumerate(target.elts):
                if ret_parts is not None:
                    if isinstance(e, ast.Name):
                        sc.bind_anns.setdefault(e.id, ret_parts[i])
                    self.bind_target(sc, e, ("ann", ret_parts[i]))
                elif isinstance(how, tuple) and how[0] == "elem":
                    self.bind_target(sc, e, ("elem-part", how[1], i, len(target.elts)))
                elif isinstance(how, tuple) and how[0] == "val" and isinstance(how[1], (ast.Tuple, ast.List)) and len(how[1].elts) == len(target.elts):
                    self.bind_target(sc, e, ("val", how[1].elts[i]))
                elif isinstance(how, tuple) and how[0] == "val":
                    self.bind_target(sc, e, ("val-part", how[1], i, len(target.elts)))
                else:
                    self.bind_target(sc, e, UNKNOWN)
        elif isinstance(target, ast.Starred):
            self.bind_target(sc, target.value, ORDERED)
        # attribute / subscript targets bind no name

    # ------------------------------------------------------------ kinds
    def resolve(self, how, sc, depth):
        if isinstance(how, str):
            return how
        tag = how[0]
        if tag == "ann":
            return ann_kind(how[1])
        if tag == "param":
            k = ann_kind(how[1])
            if k == UNKNOWN and how[1] is not None and depth < 6:
                return self.param_kind_from_callers(how[2], how[3], depth + 1)
            return k
        if tag == "ann+val":
            k = ann_kind(how[1])
            if k == UNKNOWN and how[2] is not None:
                return self.kind(how[2], sc, depth + 1)
            return k
        if tag == "val":
            return self.kind(how[1], sc, depth + 1)
        if tag == "aug":
            return SCALAR if not isinstance(how[1], (ast.Set, ast.SetComp)) else SET
        if tag == "elem":
            a = self.elem_ann(how[1], sc, depth + 1)
            return ann_kind(a) if a is not None else self.elem_kind_fallback(how[1], sc, depth + 1)
        if tag == "val-part":
            a = self.tuple_part_ann(self.expr_ann(how[1], sc, depth + 1), how[2], how[3])
            return ann_kind(a) if a is not None else UNKNOWN
        if tag == "elem-part":
            a = self.elem_ann(how[1], sc, depth + 1)
            if a is not None:
                if isinstance(a, tuple) and len(a) == how[3]:        # (key_ann, value_ann) of .items()
                    return ann_kind(a[how[2]]) if a[how[2]] is not None else UNKNOWN
                if isinstance(a, ast.Subscript):
                    base = a.value.id if isinstance(a.value, ast.Name) else ""
                    if base in ("Tuple", "tuple") and isinstance(a.slice, ast.Tuple) and len(a.slice.elts) == how[3]:
                        return ann_kind(a.slice.elts[how[2]])
            return UNKNOWN
        return UNKNOWN

    @staticmethod
    def tuple_part_ann(a, i, n):
        if isinstance(a, ast.Subscript) and isinstance(a.value, ast.Name) and a.value.id in ("Tuple", "tuple") \
                and isinstance(a.slice, ast.Tuple) and len(a.slice.elts) == n:
            return a.slice.elts[i]
        return None

    def param_kind_from_callers(self, fn, pname, depth):
        """kind of an `Iterable[...]`-annotated parameter = join over the arguments of every call of the function in this file"""
        if isinstance(fn, ast.Lambda):
            return UNKNOWN
        pos = [a.arg for a in list(fn.args.posonlyargs) + list(fn.args.args)]
        ks = []
        for n in ast.walk(self.tree):
            if isinstance(n, ast.Call) and isinstance(n.func, ast.Name) and n.func.id == fn.name:
                arg = None
                if pname in pos and pos.index(pname) < len(n.args) and not any(isinstance(a, ast.Starred) for a in n.args):
                    arg = n.args[pos.index(pname)]
                for kw in n.keywords:
                    if kw.arg == pname:
                        arg = kw.value
                if arg is None:
                    continue            # default value used
                ks.append(self.kind(arg, self.scope_of(n), depth + 1))
        return join_kinds(ks) if ks else UNKNOWN

    def elem_kind_fallback(self, it, sc, depth):
        # elements of strings / ranges / enumerations are scalars or tuples: never sets
        if isinstance(it, ast.Call) and isinstance(it.func, ast.Name) and it.func.id in ("range", "enumerate", "zip"):
            return SCALAR if it.func.id == "range" else ORDERED
        return UNKNOWN

    def elem_ann(self, it, sc, depth):
        """annotation of the elements produced by iterating expression `it` (or (k_ann, v_ann) for .items())"""
        if depth > 12:
            return None
        if isinstance(it, ast.Name):
            a = self.name_ann(it.id, sc)
            return ann_elem(a) if a is not None else None
        if isinstance(it, ast.Call) and isinstance(it.func, ast.Attribute) and it.func.attr in DICT_VIEW and not it.args:
            a = self.expr_ann(it.func.value, sc, depth + 1)
            if a is None:
                return None
            if it.func.attr == "items":
                k, v = ann_elem(a, "key"), ann_elem(a, "value")
                return (k, v) if (k is not None or v is not None) else None
            return ann_elem(a, "key" if it.func.attr == "keys" else "value")
        if isinstance(it, ast.Call) and isinstance(it.func, ast.Name) and it.func.id in ("sorted", "list", "reversed", "iter", "tuple") and it.args:
            return self.elem_ann(it.args[0], sc, depth + 1)
        a = self.expr_ann(it, sc, depth + 1)
        return ann_elem(a) if a is not None else None

    def expr_ann(self, e, sc, depth):
        """a type annotation known for expression e, or None"""
        if depth > 12:
            return None
        if isinstance(e, ast.Name):
            return self.name_ann(e.id, sc)
        if isinstance(e, ast.Call) and isinstance(e.func, ast.Attribute) and e.func.attr in ("get", "setdefault") and e.args:
            # d.get(k, default): value annotation of d
            a = self.expr_ann(e.func.value, sc, depth + 1)
            if a is not None:
                return ann_elem(a, "value")
        if isinstance(e, ast.Subscript) and not isinstance(e.slice, ast.Slice):
            a = self.expr_ann(e.value, sc, depth + 1)
            if a is not None:
                return ann_elem(a, "value") or ann_elem(a, "elem")
        return None

    def name_ann(self, name, sc):
        s = sc
        while s is not None:
            if name in s.bind_anns and s.bind_anns[name] is not None:
                return s.bind_anns[name]
            if name in s.bind_kinds:
                # bound here without annotation: try `x = <expr with known annotation>` (single binding)
                hows = s.bind_kinds[name]
                if len(hows) == 1 and isinstance(hows[0], tuple) and hows[0][0] == "val":
                    return self.expr_ann(hows[0][1], s, 1)
                if len(hows) == 1 and isinstance(hows[0], tuple) and hows[0][0] == "val-part":
                    return self.tuple_part_ann(self.expr_ann(hows[0][1], s, 1), hows[0][2], hows[0][3])
                if len(hows) == 1 and isinstance(hows[0], tuple) and hows[0][0] in ("elem", "elem-part"):
                    a = self.elem_ann(hows[0][1], s, 1)
                    if hows[0][0] == "elem":
                        return a if not isinstance(a, tuple) else None
                    if isinstance(a, tuple) and len(a) == hows[0][3]:
                        return a[hows[0][2]]
                return None
            s = s.parent
        return None

    def name_kind(self, name, sc, depth):
        s = sc
        while s is not None:
            if isinstance(s.node, ast.ClassDef) and s is not sc:
                s = s.parent
                continue
            if name in s.bind_kinds:
                ks = [self.resolve(h, s, depth) for h in s.bind_kinds[name]]
                k = join_kinds(ks)
                if k == DICT and name in s.tainted:
                    return SETDICT
                return k
            s = s.parent
        if name in ("True", "False", "None", "__name__", "__file__"):
            return SCALAR
        return UNKNOWN

    def key_kind(self, key):
        ks = self.keys.get(key)
        return join_kinds(ks) if ks else UNKNOWN

    def kind(self, e, sc, depth=0) -> str:
        if depth > 14:
            return UNKNOWN
        if isinstance(e, ast.Constant):
            return ORDERED if isinstance(e.value, (str, bytes)) else SCALAR
        if isinstance(e, (ast.List, ast.Tuple, ast.ListComp, ast.JoinedStr, ast.GeneratorExp)):
            return ORDERED          # a comprehension over a set is itself recorded as a site
        if isinstance(e, (ast.Set, ast.SetComp)):
            return SET
        if isinstance(e, (ast.Dict, ast.DictComp)):
            return DICT
        if isinstance(e, ast.Name):
            return self.name_kind(e.id, sc, depth + 1)
        if isinstance(e, ast.Starred):
            return self.kind(e.value, sc, depth + 1)
        if isinstance(e, ast.NamedExpr):
            return self.kind(e.value, sc, depth + 1)
        if isinstance(e, ast.BoolOp):
            return join_kinds([self.kind(v, sc, depth + 1) for v in e.values])
        if isinstance(e, ast.IfExp):
            return join_kinds([self.kind(e.body, sc, depth + 1), self.kind(e.orelse, sc, depth + 1)])
        if isinstance(e, ast.BinOp):
            l, r = self.kind(e.left, sc, depth + 1), self.kind(e.right, sc, depth + 1)
            if isinstance(e.op, (ast.Sub, ast.BitOr, ast.BitAnd, ast.BitXor)):
                if SET in (l, r):
                    return SET
                if UNKNOWN in (l, r):
                    return UNKNOWN
                return SCALAR
            if isinstance(e.op, (ast.Add, ast.Mult)):
                if l == ORDERED or r == ORDERED:
                    return ORDERED if UNKNOWN not in (l, r) and SET not in (l, r) else UNKNOWN
                return join_kinds([l, r])
            if isinstance(e.op, ast.Mod) and l == ORDERED:
                return ORDERED
            return join_kinds([l, r])
        if isinstance(e, (ast.Compare, ast.UnaryOp)):
            return SCALAR
        if isinstance(e, ast.Attribute):
            if e.attr in self.attr:
                return join_kinds(self.attr[e.attr])
            if e.attr in PY_AST_LIST_FIELDS:
                return ORDERED
            return UNKNOWN
        if isinstance(e, ast.Subscript):
            if isinstance(e.slice, ast.Slice):
                return self.kind(e.value, sc, depth + 1)
            if isinstance(e.slice, ast.Constant) and isinstance(e.slice.value, str) and self.kind(e.value, sc, depth + 1) in (DICT, UNKNOWN):
                k = self.key_kind(e.slice.value)
                if k != UNKNOWN:
                    return k
            a = self.expr_ann(e, sc, depth + 1)
            return ann_kind(a) if a is not None else UNKNOWN
        if isinstance(e, ast.Call):
            f = e.func
            if isinstance(f, ast.Name):
                n = f.id
                if n in ("set", "frozenset"):
                    return SET
                if n == "dict":
                    if e.args:
                        k = self.kind(e.args[0], sc, depth + 1)
                        return SETDICT if k == SETDICT else DICT
                    return DICT
                if n == "iter" and e.args:
                    return self.kind(e.args[0], sc, depth + 1)
                if n == "getattr" and len(e.args) >= 2 and isinstance(e.args[1], ast.Constant):
                    ks = list(self.attr.get(e.args[1].value, []))
                    if len(e.args) == 3:
                        ks.append(self.kind(e.args[2], sc, depth + 1))
                    return join_kinds(ks) if ks else UNKNOWN
                if n in ORDERED_FUNCS:
                    return ORDERED
                if n in SCALAR_FUNCS:
                    return SCALAR
                if n in self.rets:
                    return ann_kind(self.rets[n])
                # an un-annotated function of this module: the join of what its return statements yield
                fn = self.scopes[self.tree].funcs.get(n)
                if fn is not None and depth < 8 and fn in self.scopes:
                    fsc = self.scopes[fn]
                    rets = [r.value for r in ast.walk(fn) if isinstance(r, ast.Return) and r.value is not None and self.scope_of(r) is fsc]
                    if rets:
                        return join_kinds([self.kind(r, fsc, depth + 1) for r in rets])
                return UNKNOWN
            if isinstance(f, ast.Attribute):
                m = f.attr
                if m in ("get", "setdefault", "pop") and e.args:
                    ks = []
                    if isinstance(e.args[0], ast.Constant) and isinstance(e.args[0].value, str) and e.args[0].value in self.keys:
                        ks.append(self.key_kind(e.args[0].value))
                    if len(e.args) >= 2:
                        ks.append(self.kind(e.args[1], sc, depth + 1))
                    if not ks:
                        a = self.expr_ann(e, sc, depth + 1)
                        return ann_kind(a) if a is not None else UNKNOWN
                    return join_kinds(ks)
                if m in DICT_VIEW and not e.args:
                    k = self.kind(f.value, sc, depth + 1)
                    if k == DICT:
                        return ORDERED       # insertion order of a dict not filled in set order
                    if k == SETDICT:
                        return SETDICT
                    return UNKNOWN
                if m in ("copy",):
                    return self.kind(f.value, sc, depth + 1)
                if m in SET_METHODS:
                    return SET
                if m == "fromkeys":
                    return SETDICT if e.args and self.kind(e.args[0], sc, depth + 1) in (SET, SETDICT) else DICT
                if m in ORDERED_METHODS:
                    return ORDERED
                return UNKNOWN
            return UNKNOWN
        if isinstance(e, ast.Lambda):
            return SCALAR
        return UNKNOWN

    # ------------------------------------------------------------ taint: dicts filled in set order
    def compute_taint(self):
        changed = True
        rounds = 0
        while changed and rounds < 6:
            changed = False
            rounds += 1
            for node in ast.walk(self.tree):
                if isinstance(node, (ast.For, ast.AsyncFor)):
                    sc = self.scope_of(node)
                    k = self.kind(node.iter, sc)
                    if k in (SET, SETDICT) and not self.is_sorted_call(node.iter):
                        for name in self.stores_in(node.body + node.orelse, sc, set()):
                            owner = self.owner_scope(name, sc)
                            if owner is not None and name not in owner.tainted:
                                owner.tainted.add(name)
                                changed = True

    def owner_scope(self, name, sc):
        s = sc
        while s is not None:
            if name in s.bind_kinds:
                return s
            s = s.parent
        return None

    def stores_in(self, stmts, sc, seen_funcs):
        out = set()
        for st in stmts:
            for n in ast.walk(st):
                if isinstance(n, ast.Subscript) and isinstance(n.ctx, (ast.Store, ast.Del)) and isinstance(n.value, ast.Name):
                    out.add(n.value.id)
                elif isinstance(n, ast.Call) and isinstance(n.func, ast.Attribute) and n.func.attr in DICT_STORE_METHODS and isinstance(n.func.value, ast.Name):
                    out.add(n.func.value.id)
                elif isinstance(n, ast.Call) and isinstance(n.func, ast.Name):
                    # a call of a function defined in an enclosing scope: its stores happen in this iteration order too
                    s = sc
                    while s is not None:
                        if n.func.id in s.funcs and n.func.id not in seen_funcs:
                            fn = s.funcs[n.func.id]
                            out |= self.stores_in(fn.body, self.scopes[fn], seen_funcs | {n.func.id})
                            break
                        s = s.parent
        return out

    # ------------------------------------------------------------ sites
    @staticmethod
    def is_sorted_call(e):
        return isinstance(e, ast.Call) and isinstance(e.func, ast.Name) and e.func.id == "sorted"

    def isinstance_guarded(self, e, node):
        """`if not isinstance(x, (list, tuple)): raise/return/continue` earlier in the same function makes x ordered"""
        if not isinstance(e, ast.Name):
            return False
        sc = self.scope_of(node)
        for n in ast.walk(sc.node):
            if isinstance(n, ast.If) and n.lineno < node.lineno and isinstance(n.test, ast.UnaryOp) and isinstance(n.test.op, ast.Not) \
                    and isinstance(n.test.operand, ast.Call) and isinstance(n.test.operand.func, ast.Name) and n.test.operand.func.id == "isinstance" \
                    and len(n.test.operand.args) == 2 and isinstance(n.test.operand.args[0], ast.Name) and n.test.operand.args[0].id == e.id \
                    and n.body and isinstance(n.body[-1], (ast.Raise, ast.Return, ast.Continue)):
                t = n.test.operand.args[1]
                tys = [x.id for x in (t.elts if isinstance(t, ast.Tuple) else [t]) if isinstance(x, ast.Name)]
                if tys and all(x in ("list", "tuple", "str") for x in tys):
                    return True
        return False

    def singleton_guarded(self, e, node):
        """the use sits in the body of `if len(<e>) == 1:` (a one-element set has one iteration order)"""
        txt = ast.dump(e)
        n = node
        while n in self.parent:
            p = self.parent[n]
            if isinstance(p, ast.If) and n in p.body and isinstance(p.test, ast.Compare) and len(p.test.ops) == 1 \
                    and isinstance(p.test.ops[0], ast.Eq) and isinstance(p.test.left, ast.Call) and isinstance(p.test.left.func, ast.Name) \
                    and p.test.left.func.id == "len" and len(p.test.left.args) == 1 and ast.dump(p.test.left.args[0]) == txt \
                    and isinstance(p.test.comparators[0], ast.Constant) and p.test.comparators[0].value == 1:
                return True
            if isinstance(p, (ast.FunctionDef, ast.AsyncFunctionDef, ast.Lambda)):
                return False
            n = p
        return False

    @staticmethod
    def sorted_keyed(call):
        """does this sorted(...) call take a key (anything but the literal None)?  With a key that is not injective on the
        elements, tied elements keep the iteration order of the set (sorted() is stable)."""
        if len(call.args) > 1:
            return True                       # sorted(x, k): not valid Python 3, counted as keyed (fail-closed)
        for kw in call.keywords:
            if kw.arg is None:
                return True                   # **kwargs
            if kw.arg == "key" and not (isinstance(kw.value, ast.Constant) and kw.value.value is None):
                return True
        return False

    def record(self, e, node, consumer, cls, keyed=False):
        sc = self.scope_of(node)
        k = self.kind(e, sc)
        if k == UNKNOWN and self.isinstance_guarded(e, node):
            k = ORDERED
        if k in (SET, SETDICT):
            self.sites.append({"file": self.fname, "fn": sc.qual(), "line": node.lineno, "iter": " ".join(ast.unparse(e).split()),
                               "consumer": consumer + (" with key=" if keyed else ""), "class": cls, "kind": k, "keyed": bool(keyed)})
        elif k == UNKNOWN and cls == 0:
            self.die(f"setsites: cannot classify the iterable `{ast.unparse(e)[:80]}` ({consumer}) at {self.fname}:{node.lineno} "
                     f"in {sc.qual()} - extend harness/gen/setsites.py or annotate the source")

    def insensitive_context(self, node):
        """is this comprehension/generator the direct argument of an order-insensitive consumer?"""
        p = self.parent.get(node)
        if isinstance(p, ast.Call) and node in p.args and isinstance(p.func, ast.Name):
            if p.func.id in FREE_FUNCS:
                return True
            if p.func.id in KEYED_FUNCS and not any(kw.arg == "key" for kw in p.keywords):
                return True
            if p.func.id == "sorted":
                return "sorted"
        return False

    def find_sites(self):
        for node in ast.walk(self.tree):
            if isinstance(node, (ast.For, ast.AsyncFor)):
                it = node.iter
                if self.is_sorted_call(it) and it.args:
                    self.record(it.args[0], node, "for-sorted", 1, self.sorted_keyed(it))
                else:
                    self.record(it, node, "for", 0)
            elif isinstance(node, (ast.ListComp, ast.GeneratorExp, ast.DictComp, ast.SetComp)):
                ctxt = self.insensitive_context(node)
                for g in node.generators:
                    it = g.iter
                    if self.is_sorted_call(it) and it.args:
                        self.record(it.args[0], node, "comp-sorted", 1, self.sorted_keyed(it))
                    elif isinstance(node, ast.SetComp) or ctxt is True:
                        self.record(it, node, "comp-insensitive", 2)
                    elif ctxt == "sorted":
                        self.record(it, node, "comp-in-sorted", 1, self.sorted_keyed(self.parent[node]))
                    else:
                        self.record(it, node, "comp", 0)
            elif isinstance(node, ast.Call):
                f = node.func
                nm = f.id if isinstance(f, ast.Name) else (f.attr if isinstance(f, ast.Attribute) else None)
                if nm is None:
                    continue
                is_name = isinstance(f, ast.Name)
                if is_name and nm == "sorted":
                    # already accounted for when it is the iterable of a for/comprehension
                    p = self.parent.get(node)
                    direct = (isinstance(p, (ast.For, ast.AsyncFor)) and p.iter is node) or (isinstance(p, ast.comprehension) and p.iter is node)
                    if node.args and not direct:
                        self.record(node.args[0], node, "sorted()", 1, self.sorted_keyed(node))
                elif is_name and nm in FREE_FUNCS:
                    for a in node.args[:1]:
                        if not isinstance(a, (ast.GeneratorExp, ast.ListComp, ast.SetComp, ast.DictComp)):
                            self.record(a, node, nm + "()", 2)
                elif is_name and nm in KEYED_FUNCS:
                    keyed = any(kw.arg == "key" for kw in node.keywords)
                    if len(node.args) == 1 and not isinstance(node.args[0], (ast.GeneratorExp, ast.ListComp, ast.SetComp, ast.DictComp)):
                        self.record(node.args[0], node, nm + ("(key=)" if keyed else "()"), 0 if keyed else 2)
                elif (is_name and nm in ORDER_FUNCS) or (not is_name and nm in ORDER_METHODS):
                    for a in node.args:
                        if isinstance(a, (ast.GeneratorExp, ast.ListComp, ast.SetComp, ast.DictComp, ast.Constant, ast.JoinedStr, ast.Lambda)):
                            continue
                        if is_name and nm in ("str", "repr", "print", "next", "map", "filter", "dict", "format") or nm == "format":
                            # only a problem when the argument is a set: scalars are the rule here
                            self.record_if_set(a, node, nm + "()")
                        else:
                            self.record(a, node, nm + "()", 0)
                elif not is_name and nm in ("pop", "popitem") and not node.args:
                    if self.singleton_guarded(f.value, node):
                        sc0 = self.scope_of(node)
                        if self.kind(f.value, sc0) in (SET, SETDICT):
                            self.record(f.value, node, "." + nm + "() under len(x) == 1", 2)
                    else:
                        self.record_if_set(f.value, node, "." + nm + "()")
                for a in node.args:
                    if isinstance(a, ast.Starred):
                        self.record_if_set(a.value, node, "*args")
            elif isinstance(node, ast.AugAssign) and isinstance(node.op, ast.Add):
                self.record_if_set(node.value, node, "+=")
            elif isinstance(node, ast.FormattedValue):
                self.record_if_set(node.value, node, "f-string")
            elif isinstance(node, (ast.List, ast.Tuple)) and isinstance(getattr(node, "ctx", None), ast.Load):
                for a in node.elts:
                    if isinstance(a, ast.Starred):
                        self.record_if_set(a.value, node, "[*x]")
            elif isinstance(node, ast.Assign) and any(isinstance(t, (ast.Tuple, ast.List)) for t in node.targets):
                self.record_if_set(node.value, node, "unpack")

    def record_if_set(self, e, node, consumer):
        sc = self.scope_of(node)
        if self.kind(e, sc) in (SET, SETDICT):
            self.record(e, node, consumer, 0)


# ---------------------------------------------------------------------- tables shared by the files
def ir_attr_table(ast_tree):
    """attribute name -> [kinds] from the dataclass field annotations of transpile/ast.py"""
    table: dict[str, list] = {}
    for cls in ast_tree.body:
        if isinstance(cls, ast.ClassDef):
            for st in cls.body:
                if isinstance(st, ast.AnnAssign) and isinstance(st.target, ast.Name):
                    table.setdefault(st.target.id, []).append(ann_kind(st.annotation))
    return table


def key_table(trees):
    """string key -> [kinds] from every `X.setdefault("k", D)`, `X.get("k", D)`, `{"k": D}` and `X["k"] = D` whose D is a
    literal/constructor of a known kind (the ctx dictionary's schema)"""
    table: dict[str, list] = {}

    def lit_kind(d):
        if isinstance(d, (ast.Set, ast.SetComp)):
            return SET
        if isinstance(d, ast.Call) and isinstance(d.func, ast.Name) and d.func.id in ("set", "frozenset"):
            return SET
        if isinstance(d, (ast.List, ast.ListComp, ast.Tuple)):
            return ORDERED
        if isinstance(d, ast.Call) and isinstance(d.func, ast.Name) and d.func.id in ("list", "tuple", "sorted"):
            return ORDERED
        if isinstance(d, (ast.Dict, ast.DictComp)):
            return DICT
        if isinstance(d, ast.Call) and isinstance(d.func, ast.Name) and d.func.id == "dict":
            return DICT
        if isinstance(d, ast.Constant):
            return SCALAR if not isinstance(d.value, str) else ORDERED
        return None

    for tree in trees:
        for n in ast.walk(tree):
            if isinstance(n, ast.Call) and isinstance(n.func, ast.Attribute) and n.func.attr in ("setdefault", "get") and len(n.args) == 2 \
                    and isinstance(n.args[0], ast.Constant) and isinstance(n.args[0].value, str):
                k = lit_kind(n.args[1])
                if k:
                    table.setdefault(n.args[0].value, []).append(k)
            elif isinstance(n, ast.Dict):
                for kk, vv in zip(n.keys, n.values):
                    if isinstance(kk, ast.Constant) and isinstance(kk.value, str):
                        k = lit_kind(vv)
                        if k:
                            table.setdefault(kk.value, []).append(k)
            elif isinstance(n, ast.Assign) and len(n.targets) == 1 and isinstance(n.targets[0], ast.Subscript) \
                    and isinstance(n.targets[0].slice, ast.Constant) and isinstance(n.targets[0].slice.value, str):
                k = lit_kind(n.value)
                if k:
                    table.setdefault(n.targets[0].slice.value, []).append(k)
    return table


def func_returns(trees):
    out, clash = {}, set()
    for tree in trees:
        for n in ast.walk(tree):
            if isinstance(n, ast.FunctionDef) and n.returns is not None:
                if n.name in out and ast.dump(out[n.name]) != ast.dump(n.returns):
                    clash.add(n.name)
                out[n.name] = n.returns
    for n in clash:
        del out[n]
    return out


# ---------------------------------------------------------------------- module-level state
IMMUTABLE_CALLS = {"re.compile", "frozenset", "tuple", "object", "MappingProxyType", "types.MappingProxyType"}


def value_class(v):
    """'immutable' | 'mutable' | 'unknown-call'"""
    if v is None or isinstance(v, (ast.Constant, ast.JoinedStr, ast.Lambda)):
        return "immutable"
    if isinstance(v, ast.Tuple):
        cs = [value_class(e) for e in v.elts]
        return "immutable" if all(c == "immutable" for c in cs) else "mutable"
    if isinstance(v, (ast.UnaryOp, ast.BinOp, ast.Compare, ast.BoolOp)):
        return "immutable" if all(isinstance(c, (ast.Constant, ast.UnaryOp, ast.BinOp, ast.operator, ast.unaryop, ast.cmpop, ast.boolop, ast.Compare, ast.BoolOp, ast.Name, ast.Load)) for c in ast.walk(v)) else "mutable"
    if isinstance(v, (ast.Dict, ast.List, ast.Set, ast.DictComp, ast.ListComp, ast.SetComp)):
        return "mutable"
    if isinstance(v, ast.Call):
        fn = ast.unparse(v.func)
        if fn in IMMUTABLE_CALLS:
            return "immutable"
        if fn in ("dict", "list", "set", "defaultdict", "collections.defaultdict", "OrderedDict", "Counter", "deque"):
            return "mutable"
        return "unknown-call"
    if isinstance(v, (ast.Name, ast.Attribute)):
        return "immutable"   # alias of something listed on its own line
    return "unknown-call"


def module_state(fname, tree):
    names = {}
    for st in tree.body:
        tgts = []
        if isinstance(st, ast.Assign):
            tgts, val = st.targets, st.value
        elif isinstance(st, ast.AnnAssign):
            tgts, val = [st.target], st.value
        elif isinstance(st, ast.AugAssign):
            tgts, val = [st.target], st.value
        for t in tgts:
            for nm in [n.id for n in ast.walk(t) if isinstance(n, ast.Name)]:
                names[nm] = {"file": fname, "name": nm, "line": st.lineno, "vclass": value_class(val), "mutated": False, "how": ""}
    fn_names = {n.name for n in tree.body if isinstance(n, (ast.FunctionDef, ast.AsyncFunctionDef, ast.ClassDef))}

    def mark(nm, how, line):
        if nm in names:
            if not names[nm]["mutated"]:
                names[nm]["mutated"] = True
                names[nm]["how"] = f"{how} at line {line}"
        elif nm in fn_names:
            names[nm] = {"file": fname, "name": nm, "line": line, "vclass": "function-attribute", "mutated": True, "how": f"{how} at line {line}"}

    for fn in ast.walk(tree):
        if not isinstance(fn, (ast.FunctionDef, ast.AsyncFunctionDef, ast.Lambda)):
            continue
        # names local to this function (params + assigned) shadow module names unless declared global
        globs = {g for n in ast.walk(fn) if isinstance(n, ast.Global) for g in n.names}
        for g in globs:
            if g not in names:
                names[g] = {"file": fname, "name": g, "line": fn.lineno, "vclass": "global-statement", "mutated": True, "how": f"global statement at line {fn.lineno}"}
            else:
                mark(g, "global statement", fn.lineno)
        local = set()
        a = fn.args
        for arg in list(a.posonlyargs) + list(a.args) + list(a.kwonlyargs) + ([a.vararg] if a.vararg else []) + ([a.kwarg] if a.kwarg else []):
            local.add(arg.arg)
        body = fn.body if isinstance(fn.body, list) else [fn.body]
        for st in body:
            for n in ast.walk(st):
                if isinstance(n, ast.Name) and isinstance(n.ctx, ast.Store) and n.id not in globs:
                    local.add(n.id)
        for st in body:
            for n in ast.walk(st):
                if isinstance(n, ast.Subscript) and isinstance(n.ctx, (ast.Store, ast.Del)) and isinstance(n.value, ast.Name) and n.value.id not in local:
                    mark(n.value.id, "item store", n.lineno)
                elif isinstance(n, ast.Attribute) and isinstance(n.ctx, (ast.Store, ast.Del)) and isinstance(n.value, ast.Name) and n.value.id not in local:
                    mark(n.value.id, "attribute store", n.lineno)
                elif isinstance(n, ast.Call) and isinstance(n.func, ast.Attribute) and n.func.attr in MUTATORS and isinstance(n.func.value, ast.Name) and n.func.value.id not in local:
                    mark(n.func.value.id, f".{n.func.attr}()", n.lineno)
                elif isinstance(n, ast.AugAssign) and isinstance(n.target, ast.Name) and n.target.id in globs:
                    mark(n.target.id, "augmented assignment", n.lineno)
        # mutable default arguments and caching decorators
        if not isinstance(fn, ast.Lambda):
            for d in list(fn.args.defaults) + [d for d in fn.args.kw_defaults if d is not None]:
                if value_class(d) != "immutable":
                    key = f"{fn.name}.<default>"
                    names[key + str(d.lineno)] = {"file": fname, "name": key, "line": d.lineno, "vclass": "mutable-default", "mutated": True, "how": f"mutable default argument at line {d.lineno}"}
            for d in fn.decorator_list:
                txt = ast.unparse(d)
                if "cache" in txt or "memo" in txt:
                    names[fn.name + ".<cache>"] = {"file": fname, "name": fn.name + ".<cache>", "line": fn.lineno, "vclass": "cache-decorator", "mutated": True, "how": f"decorator {txt}"}
    out = []
    for nm, rec in names.items():
        if rec["vclass"] == "immutable" and not rec["mutated"]:
            continue
        if rec["vclass"] == "unknown-call":
            rec["mutated"] = True
            rec["how"] = rec["how"] or "module-level object of unknown class (fail-closed)"
        out.append(rec)
    return sorted(out, key=lambda r: (r["file"], r["line"], r["name"]))


# ---------------------------------------------------------------------- module-level mutable objects: every use
# A module-level mutable object (set/dict/list display or constructor call bound at module level, a class-level one, or an
# object of unknown class) may be READ by the functions of the module; it must not be mutated and it must not ESCAPE - be
# passed to a call (`ctx.setdefault(key, M)`, `ctx.get(key, M)`, `f(M)`, `x.append(M)`), stored into a container / item /
# attribute (`ctx[key] = M`, `{..: M}`, `[M]`), returned, yielded, captured as a default argument - because whatever holds
# the alias can mutate it later, where the by-name inventory above cannot see it.  Local aliases (`a = M`, `a = M.get(k)`
# when M holds mutable values, `for a in M.values()`, ...) are followed inside the function (flow-insensitively).
#   class 0 = read-only use, 1 = escapes, 2 = mutated (by name or through a followed alias)
USE_READ_FUNCS_END = {"len", "isinstance", "any", "all", "bool", "str", "repr", "sum", "min", "max", "print", "type", "hash", "format"}
USE_READ_FUNCS_COPY = {"sorted", "list", "tuple", "dict", "set", "frozenset", "reversed", "enumerate", "zip", "iter", "next", "map", "filter"}
USE_READ_METHODS_END = {"index", "count", "__contains__", "issubset", "issuperset", "isdisjoint", "__len__", "join",
                        "startswith", "endswith"}
USE_READ_METHODS_SUB = {"get", "values", "items", "keys", "copy", "union", "difference", "intersection",
                        "symmetric_difference", "__getitem__"}


class _Unknown:
    """a value whose structure the walker cannot see: treated as mutable, with mutable parts"""


_UNKNOWN = _Unknown()


def _shape_mutable(shapes):
    return any(sh is _UNKNOWN or value_class(sh) != "immutable" for sh in shapes)


def _shape_children(shapes, key=None):
    """the shapes of what M[k] / M.get(k) / iterating M / M.values() hands out (key-precise for constant keys of a dict display)"""
    out = []
    for sh in shapes:
        if sh is _UNKNOWN:
            out.append(_UNKNOWN)
        elif isinstance(sh, ast.Dict):
            hit = False
            if key is not None and all(isinstance(k, ast.Constant) for k in sh.keys):
                for k, v in zip(sh.keys, sh.values):
                    if k.value == key:
                        out.append(v)
                        hit = True
                if not hit:
                    continue
            else:
                out += list(sh.values)
        elif isinstance(sh, (ast.List, ast.Set, ast.Tuple)):
            out += list(sh.elts)
        elif isinstance(sh, ast.Call) and ast.unparse(sh.func) in ("set", "frozenset", "dict", "list") and not sh.args and not sh.keywords:
            continue
        elif isinstance(sh, (ast.Constant, ast.JoinedStr)):
            continue
        else:
            out.append(_UNKNOWN)
    return out


def module_uses(fname, tree):
    """-> (uses, default_sites, preseeded, prologue) for one file"""
    parent = {}
    for p in ast.walk(tree):
        for c in ast.iter_child_nodes(p):
            parent[c] = p
    # roots: module-level and class-level bindings of mutable / unknown objects
    roots = {}          # name -> nested?

    def scan_body(body, prefix):
        for st in body:
            tgts, val = [], None
            if isinstance(st, ast.Assign):
                tgts, val = st.targets, st.value
            elif isinstance(st, ast.AnnAssign) and st.value is not None:
                tgts, val = [st.target], st.value
            for t in tgts:
                if isinstance(t, ast.Name) and value_class(val) != "immutable":
                    roots[prefix + t.id] = [val]
                elif isinstance(t, (ast.Tuple, ast.List)):
                    for n in ast.walk(t):
                        if isinstance(n, ast.Name) and value_class(val) != "immutable":
                            roots[prefix + n.id] = [_UNKNOWN]
            if isinstance(st, ast.ClassDef):
                scan_body(st.body, prefix + st.name + ".")
            elif isinstance(st, (ast.If, ast.Try, ast.With)):
                for fld in ("body", "orelse", "finalbody"):
                    scan_body(getattr(st, fld, []) or [], prefix)
                for h in getattr(st, "handlers", []) or []:
                    scan_body(h.body, prefix)
    scan_body(tree.body, "")
    # module-level aliases of a root (`X = M`)
    changed = True
    while changed:
        changed = False
        for st in tree.body:
            if isinstance(st, ast.Assign) and isinstance(st.value, ast.Name) and st.value.id in roots:
                for t in st.targets:
                    if isinstance(t, ast.Name) and t.id not in roots:
                        roots[t.id] = roots[st.value.id]
                        changed = True

    funcs = [n for n in ast.walk(tree) if isinstance(n, (ast.FunctionDef, ast.AsyncFunctionDef, ast.Lambda))]

    def enclosing_funcs(node):
        out = []
        n = parent.get(node)
        while n is not None:
            if isinstance(n, (ast.FunctionDef, ast.AsyncFunctionDef, ast.Lambda)):
                out.append(n)
            n = parent.get(n)
        return out

    def own_nodes(fn):
        """nodes of fn's own body (not of nested functions)"""
        body = fn.body if isinstance(fn.body, list) else [fn.body]
        stack = list(body)
        while stack:
            n = stack.pop()
            yield n
            for c in ast.iter_child_nodes(n):
                if isinstance(c, (ast.FunctionDef, ast.AsyncFunctionDef, ast.Lambda)):
                    # its default values / decorators are evaluated in this scope
                    if not isinstance(c, ast.Lambda):
                        stack.extend(c.decorator_list)
                    stack.extend(c.args.defaults)
                    stack.extend([d for d in c.args.kw_defaults if d is not None])
                    continue
                stack.append(c)

    local = {}      # fn -> names bound in fn
    globs = {}
    for fn in funcs:
        g = set()
        l = set()
        a = fn.args
        for arg in list(a.posonlyargs) + list(a.args) + list(a.kwonlyargs) + ([a.vararg] if a.vararg else []) + ([a.kwarg] if a.kwarg else []):
            l.add(arg.arg)
        for n in own_nodes(fn):
            if isinstance(n, ast.Global):
                g |= set(n.names)
            elif isinstance(n, ast.Name) and isinstance(n.ctx, (ast.Store, ast.Del)):
                l.add(n.id)
            elif isinstance(n, (ast.FunctionDef, ast.AsyncFunctionDef, ast.ClassDef)):
                l.add(n.name)
            elif isinstance(n, ast.ExceptHandler) and n.name:
                l.add(n.name)
            elif isinstance(n, (ast.Import, ast.ImportFrom)):
                for al in n.names:
                    l.add((al.asname or al.name).split(".")[0])
        local[fn] = l - g
        globs[fn] = g
    alias = {fn: {} for fn in funcs}     # fn -> {local name: (root, nested)}

    def resolve(name_node):
        """-> (root, nested) if this Name denotes a module-level mutable object or a followed alias of one"""
        nm = name_node.id
        for fn in enclosing_funcs(name_node):
            if nm in local[fn]:
                return alias[fn].get(nm)
        if nm in roots:
            return (nm, roots[nm])
        return None

    def md(e):
        """module-derived: -> (root, shapes) if evaluating e yields a module-level mutable object or a mutable part of one"""
        r = md0(e)
        return r if r and _shape_mutable(r[1]) else None

    def const_key(sl):
        return sl.value if isinstance(sl, ast.Constant) else None

    def md0(e):
        if isinstance(e, ast.Name):
            return resolve(e) if isinstance(e.ctx, ast.Load) else None
        if isinstance(e, ast.Attribute) and isinstance(e.value, ast.Name) and (e.value.id + "." + e.attr) in roots:
            return (e.value.id + "." + e.attr, roots[e.value.id + "." + e.attr])       # Class.attr
        if isinstance(e, ast.Subscript):
            r = md0(e.value)
            if not r:
                return None
            if isinstance(e.slice, ast.Slice):
                return r
            return (r[0], _shape_children(r[1], const_key(e.slice)))
        if isinstance(e, ast.Call) and isinstance(e.func, ast.Attribute) and e.func.attr in USE_READ_METHODS_SUB:
            r = md0(e.func.value)
            if not r:
                return None
            m = e.func.attr
            if m == "get":
                sh = _shape_children(r[1], const_key(e.args[0]) if e.args else None)
                if len(e.args) > 1:
                    d = md0(e.args[1])
                    sh = sh + (d[1] if d else [e.args[1]])
                return (r[0], sh)
            if m in ("values", "__getitem__"):
                return (r[0], [ast.List(elts=_shape_children(r[1]), ctx=ast.Load())]) if m == "values" else (r[0], _shape_children(r[1]))
            if m == "items":
                return (r[0], [ast.List(elts=[ast.Tuple(elts=[ast.Constant(value=0), c], ctx=ast.Load()) if c is not _UNKNOWN else _UNKNOWN
                                              for c in _shape_children(r[1])], ctx=ast.Load())])
            if m == "keys":
                return None
            # copy / union / ...: a new container holding the same elements
            kids = _shape_children(r[1])
            return (r[0], [ast.Tuple(elts=[k for k in kids if k is not _UNKNOWN], ctx=ast.Load())] + ([_UNKNOWN] if _UNKNOWN in kids else []))
        if isinstance(e, ast.Call) and isinstance(e.func, ast.Name) and e.func.id in USE_READ_FUNCS_COPY and e.args:
            for a in e.args:
                r = md0(a)
                if r:
                    kids = _shape_children(r[1])
                    if e.func.id == "next":
                        return (r[0], kids)
                    if e.func.id in ("enumerate", "zip"):
                        kids = [ast.Tuple(elts=[ast.Constant(value=0), k], ctx=ast.Load()) if k is not _UNKNOWN else _UNKNOWN for k in kids]
                    return (r[0], [ast.Tuple(elts=[k for k in kids if k is not _UNKNOWN], ctx=ast.Load())] + ([_UNKNOWN] if _UNKNOWN in kids else []))
            return None
        if isinstance(e, ast.BoolOp):
            acc = None
            for v in e.values:
                r = md0(v)
                if r:
                    acc = (r[0], (acc[1] if acc else []) + r[1])
            return acc
        if isinstance(e, ast.IfExp):
            a, b = md0(e.body), md0(e.orelse)
            if a and b:
                return (a[0], a[1] + b[1])
            return a or b
        if isinstance(e, ast.NamedExpr):
            return md0(e.value)
        if isinstance(e, ast.Starred):
            return md0(e.value)
        return None

    def bind_alias(target, r, elementwise):
        """`target = <module-derived>`; elementwise: the target receives ELEMENTS of it (for / unpacking)"""
        ch = False
        shapes = _shape_children(r[1]) if elementwise else r[1]
        if not _shape_mutable(shapes):
            return False
        if isinstance(target, ast.Name):
            fns = enclosing_funcs(target)
            if fns and target.id in local[fns[0]]:
                old = alias[fns[0]].get(target.id)
                if old is None:
                    alias[fns[0]][target.id] = (r[0], list(shapes))
                    ch = True
                else:
                    add = [sh for sh in shapes if not any(sh is o for o in old[1])]
                    if add and len(old[1]) < 64:
                        old[1].extend(add)
                        ch = True
        elif isinstance(target, (ast.Tuple, ast.List)):
            # positional unpacking of tuple-shaped values: element i of every tuple shape; anything else: all parts
            for i_, t in enumerate(target.elts):
                part = []
                for sh in shapes:
                    if isinstance(sh, (ast.Tuple, ast.List)) and len(sh.elts) == len(target.elts) and not any(isinstance(x, ast.Starred) for x in target.elts):
                        part.append(sh.elts[i_])
                    else:
                        part += _shape_children([sh])
                ch |= bind_alias(t.value if isinstance(t, ast.Starred) else t, (r[0], part), False)
        return ch

    changed = True
    rounds = 0
    while changed and rounds < 8:
        changed = False
        rounds += 1
        for n in ast.walk(tree):
            if isinstance(n, ast.Assign):
                r = md(n.value)
                if r:
                    for t in n.targets:
                        if isinstance(t, ast.Name):
                            changed |= bind_alias(t, r, False)
                        elif isinstance(t, (ast.Tuple, ast.List)):
                            changed |= bind_alias(t, r, False)
            elif isinstance(n, ast.AnnAssign) and n.value is not None:
                r = md(n.value)
                if r and isinstance(n.target, ast.Name):
                    changed |= bind_alias(n.target, r, False)
            elif isinstance(n, ast.NamedExpr):
                r = md(n.value)
                if r:
                    changed |= bind_alias(n.target, r, False)
            elif isinstance(n, (ast.For, ast.AsyncFor, ast.comprehension)):
                r = md(n.iter)
                if r:
                    changed |= bind_alias(n.target, r, True)
            elif isinstance(n, ast.withitem) and n.optional_vars is not None:
                r = md(n.context_expr)
                if r:
                    changed |= bind_alias(n.optional_vars, r, False)

    uses = []

    def classify(e):
        """e is a module-derived expression; climb until its fate is known -> (class, how)"""
        r = md(e)
        p = parent.get(e)
        while True:
            if p is None:
                return 0, "module-level expression"
            if isinstance(p, ast.Subscript) and p.value is e:
                if isinstance(p.ctx, (ast.Store, ast.Del)):
                    return 2, "item store / delete"
                if md(p):
                    e, p = p, parent.get(p)
                    continue
                return 0, "item lookup (immutable values)"
            if isinstance(p, ast.Subscript):
                return 0, "used as an index"
            if isinstance(p, ast.Attribute) and p.value is e:
                if isinstance(p.ctx, (ast.Store, ast.Del)):
                    return 2, "attribute store"
                call = parent.get(p)
                if isinstance(call, ast.Call) and call.func is p:
                    m = p.attr
                    if m in MUTATORS:
                        return 2, f".{m}()"
                    if m in USE_READ_METHODS_END:
                        return 0, f".{m}()"
                    if m in USE_READ_METHODS_SUB:
                        if md(call):
                            e, p = call, parent.get(call)
                            continue
                        return 0, f".{m}() (immutable values)"
                    return 1, f"unknown method .{m}()"
                return 1, f"bound method / attribute .{p.attr} taken"
            if isinstance(p, ast.Compare):
                return 0, "comparison / membership test"
            if isinstance(p, (ast.BoolOp, ast.IfExp, ast.NamedExpr, ast.Starred)):
                if isinstance(p, ast.IfExp) and p.test is e:
                    return 0, "truth test"
                if md(p):
                    e, p = p, parent.get(p)
                    continue
                return 0, "truth test"
            if isinstance(p, ast.UnaryOp):
                return 0, "truth test"
            if isinstance(p, ast.BinOp):
                return 0, "operand of a binary operator (new object)"
            if isinstance(p, (ast.If, ast.While, ast.Assert)) and getattr(p, "test", None) is e:
                return 0, "truth test"
            if isinstance(p, (ast.For, ast.AsyncFor, ast.comprehension)) and p.iter is e:
                return 0, "iterated"
            if isinstance(p, ast.comprehension):
                return 0, "comprehension condition"
            if isinstance(p, (ast.FormattedValue, ast.JoinedStr)):
                return 0, "formatted"
            if isinstance(p, ast.Expr):
                return 0, "expression statement"
            if isinstance(p, ast.Call):
                if p.func is e:
                    return 0, "called"
                f = p.func
                if isinstance(f, ast.Name) and f.id in USE_READ_FUNCS_END:
                    return 0, f"{f.id}()"
                if isinstance(f, ast.Name) and f.id in USE_READ_FUNCS_COPY:
                    if md(p):
                        e, p = p, parent.get(p)
                        continue
                    return 0, f"{f.id}() (shallow copy of immutable values)"
                if isinstance(f, ast.Attribute) and f.attr == "join":
                    return 0, "join()"
                tgt = ast.unparse(f)
                key = ""
                if isinstance(f, ast.Attribute) and f.attr in ("setdefault", "get", "pop") and p.args and isinstance(p.args[0], ast.Constant):
                    key = f" key {p.args[0].value!r}"
                return 1, f"passed to {tgt[:40]}(){key}"
            if isinstance(p, ast.keyword):
                call = parent.get(p)
                return 1, f"passed as keyword {p.arg} to {ast.unparse(call.func)[:40]}()" if isinstance(call, ast.Call) else "keyword"
            if isinstance(p, (ast.Assign, ast.AnnAssign, ast.AugAssign)):
                if isinstance(p, ast.AugAssign):
                    return (1, "elements handed to an augmented assignment") if (r and _shape_mutable(_shape_children(r[1]))) else (0, "operand of an augmented assignment")
                tgts = p.targets if isinstance(p, ast.Assign) else [p.target]
                if p.value is not e:
                    return 0, "assignment target part"
                worst = (0, "bound to a followed local alias")
                for t in tgts:
                    if isinstance(t, ast.Name):
                        fns = enclosing_funcs(t)
                        if not fns:
                            continue                       # module-level alias, listed on its own
                        if t.id in globs[fns[0]]:
                            return 1, f"stored into global {t.id}"
                    elif isinstance(t, (ast.Tuple, ast.List)):
                        continue                            # unpacked: elements followed by bind_alias
                    else:
                        return 1, f"stored into {ast.unparse(t)[:40]}"
                return worst
            if isinstance(p, (ast.Return, ast.Yield, ast.YieldFrom)):
                return 1, "returned / yielded"
            if isinstance(p, (ast.List, ast.Tuple, ast.Set)):
                return 1, "placed in a container display"
            if isinstance(p, ast.Dict):
                return 1, "placed in a dict display"
            if isinstance(p, ast.arguments):
                return 1, "default argument value"
            if isinstance(p, ast.withitem):
                return 0, "context expression"
            if isinstance(p, ast.Delete):
                return 2, "del"
            if isinstance(p, ast.Lambda):
                return 1, "returned by a lambda"
            return 1, f"unclassified context {type(p).__name__} (fail-closed)"

    def resolve_store(name_node):
        nm = name_node.id
        fns = enclosing_funcs(name_node)
        for fn in fns:
            if nm in local[fn]:
                return alias[fn].get(nm)
        return (nm, roots[nm]) if nm in roots and (not fns or nm in globs.get(fns[0], ())) else None

    for n in ast.walk(tree):
        if isinstance(n, ast.Name) and isinstance(n.ctx, ast.Load):
            r = resolve(n)
            if not r:
                continue
            cls, how = classify(n)
            via = "" if n.id == r[0] else f" (through alias {n.id})"
            fns = enclosing_funcs(n)
            uses.append({"file": fname, "name": r[0], "line": n.lineno, "fn": getattr(fns[0], "name", "<lambda>") if fns else "<module>",
                         "class": cls, "how": how + via})
        elif isinstance(n, ast.Attribute) and isinstance(n.ctx, ast.Load) and isinstance(n.value, ast.Name) and (n.value.id + "." + n.attr) in roots:
            cls, how = classify(n)
            fns = enclosing_funcs(n)
            uses.append({"file": fname, "name": n.value.id + "." + n.attr, "line": n.lineno, "fn": getattr(fns[0], "name", "<lambda>") if fns else "<module>",
                         "class": cls, "how": how})
        elif isinstance(n, ast.Name) and isinstance(n.ctx, (ast.Store, ast.Del)):
            fns = enclosing_funcs(n)
            if fns and n.id in roots and n.id in globs[fns[0]]:
                uses.append({"file": fname, "name": n.id, "line": n.lineno, "fn": getattr(fns[0], "name", "<lambda>"), "class": 2,
                             "how": "rebound through a global statement"})
            elif isinstance(parent.get(n), ast.AugAssign) and parent[n].target is n:
                r = resolve_store(n)
                if r:
                    uses.append({"file": fname, "name": r[0], "line": n.lineno, "fn": getattr(fns[0], "name", "<lambda>") if fns else "<module>",
                                 "class": 2, "how": "augmented assignment (in-place for set/list/dict)"})
    # `X.setdefault("k", D)` / `X.get("k", D)` sites: how the default of each ctx key is made
    sites = []
    for n in ast.walk(tree):
        if isinstance(n, ast.Call) and isinstance(n.func, ast.Attribute) and n.func.attr in ("setdefault", "get") and len(n.args) == 2 \
                and isinstance(n.args[0], ast.Constant) and isinstance(n.args[0].value, str):
            d = n.args[1]
            obj = ""
            if md(d):
                dc = 2
                obj = md(d)[0]
            elif value_class(d) == "immutable" and not isinstance(d, (ast.Name, ast.Attribute)):
                dc = 0
            elif isinstance(d, (ast.Dict, ast.List, ast.Set, ast.DictComp, ast.ListComp, ast.SetComp)) or \
                    (isinstance(d, ast.Call) and isinstance(d.func, ast.Name) and d.func.id in ("set", "dict", "list", "frozenset", "tuple")):
                dc = 0
            else:
                dc = 1
            sites.append({"file": fname, "key": n.args[0].value, "line": n.lineno, "method": n.func.attr, "class": dc, "obj": obj,
                          "default": " ".join(ast.unparse(d).split())[:60], "node": n})
    # the keys parse() seeds its fresh ctx with
    pre = None
    for fn in tree.body:
        if isinstance(fn, ast.FunctionDef) and fn.name == "parse":
            for n in ast.walk(fn):
                tgt = None
                if isinstance(n, ast.AnnAssign) and isinstance(n.target, ast.Name) and n.target.id == "ctx":
                    tgt = n.value
                elif isinstance(n, ast.Assign) and len(n.targets) == 1 and isinstance(n.targets[0], ast.Name) and n.targets[0].id == "ctx":
                    tgt = n.value
                if isinstance(tgt, ast.Dict):
                    pre = []
                    for k, v in zip(tgt.keys, tgt.values):
                        if isinstance(k, ast.Constant) and isinstance(k.value, str):
                            fresh = not md(v) and (value_class(v) == "immutable" and not isinstance(v, (ast.Name, ast.Attribute)) or
                                                   isinstance(v, (ast.Dict, ast.List, ast.Set)) and not (getattr(v, "keys", None) or getattr(v, "elts", None)) or
                                                   (isinstance(v, ast.Call) and isinstance(v.func, ast.Name) and v.func.id in ("set", "dict", "list") and not v.args))
                            pre.append({"key": k.value, "fresh": bool(fresh), "line": k.lineno})
    # the straight-line prologue of _parse_simple_lines: keys every parse() has before its first statement is looked at
    prologue = None
    for fn in tree.body:
        if isinstance(fn, ast.FunctionDef) and fn.name == "_parse_simple_lines":
            prologue = []
            by_node = {id(x["node"]): x for x in sites}
            for st in fn.body:
                if not isinstance(st, (ast.Assign, ast.AnnAssign, ast.Expr)):
                    break
                v = st.value
                if isinstance(v, ast.Call) and id(v) in by_node and isinstance(v.func.value, ast.Name) and v.func.value.id == "ctx" \
                        and by_node[id(v)]["method"] == "setdefault":
                    prologue.append({"key": by_node[id(v)]["key"], "class": by_node[id(v)]["class"], "line": v.lineno})
    for x in sites:
        del x["node"]
    uses.sort(key=lambda u: (u["file"], u["line"], u["name"], u["how"]))
    sites.sort(key=lambda u: (u["file"], u["line"], u["key"]))
    return uses, sites, pre, prologue


# ---------------------------------------------------------------------- ambient inputs
# builtins whose result depends on the process (hash seed, addresses, environment, files, the user)
AMBIENT_BUILTINS = {"hash", "id", "open", "input", "__import__", "eval", "exec", "compile", "globals", "locals", "vars", "dir",
                    "breakpoint", "object"}


def ambient(fname, tree):
    """-> (imports, calls): every module imported anywhere in the file (module-level or inside a function) and every call
    of a builtin whose result is not a function of its arguments.  `object` is listed because `object()` has an
    address-dependent repr/hash; `compile` here is the builtin, `re.compile` is an attribute call and not listed."""
    imports, calls = [], []
    owner = {}
    for fn in ast.walk(tree):
        if isinstance(fn, (ast.FunctionDef, ast.AsyncFunctionDef)):
            for n in ast.walk(fn):
                if isinstance(n, (ast.Import, ast.ImportFrom)):
                    owner.setdefault(n, fn.name)      # outermost function first (ast.walk is breadth-first)
    for n in ast.walk(tree):
        if isinstance(n, ast.Import):
            for al in n.names:
                imports.append({"file": fname, "module": al.name, "fn": owner.get(n, "<module>"), "line": n.lineno})
        elif isinstance(n, ast.ImportFrom):
            imports.append({"file": fname, "module": "." * (n.level or 0) + (n.module or ""), "fn": owner.get(n, "<module>"), "line": n.lineno})
        elif isinstance(n, ast.Call) and isinstance(n.func, ast.Name) and n.func.id in AMBIENT_BUILTINS:
            calls.append({"file": fname, "fn": n.func.id, "line": n.lineno})
        elif isinstance(n, ast.Name) and isinstance(n.ctx, ast.Load) and n.id in ("hash", "id"):
            # also when passed as a function value: sorted(x, key=hash), map(id, x)
            if not any(c["line"] == n.lineno and c["fn"] == n.id for c in calls):
                calls.append({"file": fname, "fn": n.id, "line": n.lineno})
    calls.sort(key=lambda c: (c["file"], c["line"], c["fn"]))
    imports.sort(key=lambda c: (c["file"], c["line"], c["module"]))
    return imports, calls


def cache_sites(fname, tree):
    """every function (at any depth, methods included) that carries a memoising decorator - functools.lru_cache / cache /
    cached_property or anything whose text mentions cache / memo: a process-wide table in front of the function"""
    out = []
    for fn in ast.walk(tree):
        if isinstance(fn, (ast.FunctionDef, ast.AsyncFunctionDef)):
            for d in fn.decorator_list:
                txt = ast.unparse(d)
                if "cache" in txt.lower() or "memo" in txt.lower():
                    out.append({"file": fname, "fn": fn.name, "line": fn.lineno, "decorator": " ".join(txt.split())})
        # f = lru_cache(...)(f) / f = cache(f) at any level
        if isinstance(fn, ast.Assign) and isinstance(fn.value, ast.Call):
            txt = ast.unparse(fn.value.func)
            if "cache" in txt.lower() or "memo" in txt.lower():
                for t in fn.targets:
                    out.append({"file": fname, "fn": ast.unparse(t), "line": fn.lineno, "decorator": " ".join(ast.unparse(fn.value).split())[:80]})
    return out


# ---------------------------------------------------------------------- entry point
def analyse(src_dir: Path, die):
    trees = {}
    for f in FILES + ["ast.py"]:
        p = src_dir / f
        if not p.exists():
            die(f"setsites: {p} not found")
        try:
            trees[f] = ast.parse(p.read_text(encoding="utf-8"))
        except SyntaxError as e:
            die(f"setsites: {f} does not parse: {e}")
    attr = ir_attr_table(trees["ast.py"])
    keys = key_table([trees[f] for f in FILES])
    rets = func_returns([trees[f] for f in FILES])
    sites, state = [], []
    imports, calls = [], []
    for f in FILES + ["ast.py"]:
        i_, c_ = ambient(f, trees[f])
        imports += i_
        calls += c_
    analyse.ambient = (imports, calls)
    analyse.caches = [c for f in FILES + ["ast.py"] for c in cache_sites(f, trees[f])]
    for f in FILES:
        an = Analyzer(f, trees[f], attr, keys, rets, die)
        an.build_scopes()
        an.compute_taint()
        an.find_sites()
        sites += an.sites
        state += module_state(f, trees[f])
    state += module_state("ast.py", trees["ast.py"])
    uses, dsites, pre, prologue = [], [], None, None
    for f in FILES + ["ast.py"]:
        u_, d_, p_, g_ = module_uses(f, trees[f])
        uses += u_
        dsites += d_
        if f == "parser.py":
            pre, prologue = p_, g_
    if pre is None:
        die("setsites: the `ctx = {...}` dictionary of parse() was not found in parser.py - the walker no longer understands the source")
    if prologue is None:
        die("setsites: _parse_simple_lines was not found in parser.py - the walker no longer understands the source")
    analyse.uses = (uses, dsites, pre, prologue)
    sites.sort(key=lambda s: (s["file"], s["line"], s["iter"], s["consumer"]))
    return sites, state


def cmt0(t):
    return t.replace("*)", "* )").replace("(*", "( *")


def generate(api):
    import Reduino.transpile.parser as parser_mod
    src_dir = Path(parser_mod.__file__).resolve().parent
    sites, state = analyse(src_dir, api.die)
    if not any(s["class"] == 1 for s in sites):
        api.die("setsites: no sorted(...) site found at all - the walker no longer understands the source")
    out = [api.HEADER]
    out.append("(* Inventory of hash-order-dependent iteration sites of transpile/parser.py and transpile/emitter.py.\n"
               "   class 0: the iteration order reaches the consumer; 1: wrapped in sorted(); 2: order-insensitive consumer. *)\n")
    out.append("(* s_keyed: the sorted() call takes a key= (ties keep the set's iteration order). *)\n")
    out.append("Record site := mk_site { s_file : text; s_fn : text; s_line : Z; s_iter : text; s_class : Z; s_keyed : bool }.\n\n")
    items = []
    for s in sites:
        items.append(f"mk_site {api.ctext(s['file'])} {api.ctext(s['fn'])} {s['line']} {api.ctext(s['iter'])} {s['class']} {'true' if s.get('keyed') else 'false'}"
                     f"\n    (* {s['file']}:{s['line']} {s['fn']}: {s['consumer']} over `{s['iter'].replace('*)', '* )').replace('(*', '( *')}` [{s['kind']}] *)")
    out.append("Definition sites : list site := " + api.clist(items) + ".\n\n")
    out.append("(* Module-level state: bindings that are not immutable literals / compiled regexes / functions / classes. *)\n")
    out.append("Record mstate := mk_mstate { m_file : text; m_name : text; m_line : Z; m_mutated : bool }.\n\n")
    items = []
    for r in state:
        items.append(f"mk_mstate {api.ctext(r['file'])} {api.ctext(r['name'])} {r['line']} {'true' if r['mutated'] else 'false'}"
                     f"\n    (* {r['file']}:{r['line']} {r['name']} [{r['vclass']}] {r['how']} *)")
    out.append("Definition module_state : list mstate := " + api.clist(items) + ".\n")
    imports, calls = analyse.ambient
    out.append("\n(* Ambient inputs: every module imported by the three transpiler files (anywhere), and every use of a builtin whose\n"
               "   result is not a function of its arguments (hash, id, open, input, eval, ...). *)\n")
    out.append("Record imp := mk_imp { i_file : text; i_module : text; i_fn : text; i_line : Z }.\n\n")
    out.append("Definition imports : list imp := " + api.clist(
        [f"mk_imp {api.ctext(i['file'])} {api.ctext(i['module'])} {api.ctext(i['fn'])} {i['line']}\n    (* {i['file']}:{i['line']} import {i['module']} in {i['fn']} *)" for i in imports]) + ".\n\n")
    out.append("Definition ambient_calls : list (text * text * Z) := " + api.clist(
        [f"({api.ctext(c['file'])}, {api.ctext(c['fn'])}, {c['line']})\n    (* {c['file']}:{c['line']} {c['fn']} *)" for c in calls]) + ".\n")
    out.append("\n(* Memoising decorators (functools.lru_cache / cache ...): (file, function, line). *)\n")
    out.append("Definition cache_sites : list (text * text * Z) := " + api.clist(
        [f"({api.ctext(c['file'])}, {api.ctext(c['fn'])}, {c['line']})\n    (* {c['file']}:{c['line']} {c['fn']}: {cmt0(c['decorator'])} *)" for c in analyse.caches]) + ".\n")
    uses, dsites, pre, prologue = analyse.uses
    out.append("\n(* Every use of a module-level (or class-level) mutable object inside the three files.\n"
               "   class 0: read-only; 1: the object (or a mutable part of it) ESCAPES - passed to a call such as ctx.setdefault(key, M) /\n"
               "   ctx.get(key, M), stored into a container / item / attribute, returned, default argument; 2: mutated (by name or through a\n"
               "   local alias the walker follows). *)\n")
    out.append("Record muse := mk_muse { u_file : text; u_name : text; u_line : Z; u_class : Z }.\n\n")

    def cmt(t):
        return t.replace("*)", "* )").replace("(*", "( *")
    out.append("Definition module_uses : list muse := " + api.clist(
        [f"mk_muse {api.ctext(u['file'])} {api.ctext(u['name'])} {u['line']} {u['class']}\n    (* {u['file']}:{u['line']} {u['name']} in {u['fn']}: {cmt(u['how'])} *)" for u in uses]) + ".\n\n")
    out.append("(* How the default of every `X.setdefault(\"key\", D)` / `X.get(\"key\", D)` is made.\n"
               "   class 0: a fresh object / an immutable constant; 1: a local (per-call) object; 2: a module-level mutable object or an alias of one. *)\n")
    out.append("(* d_method: 0 = get, 1 = setdefault; d_obj: the module-level object (class 2), else empty *)\n")
    out.append("Record dsite := mk_dsite { d_file : text; d_key : text; d_line : Z; d_method : Z; d_class : Z; d_obj : text }.\n\n")
    out.append("Definition default_sites : list dsite := " + api.clist(
        [f"mk_dsite {api.ctext(d['file'])} {api.ctext(d['key'])} {d['line']} {1 if d['method'] == 'setdefault' else 0} {d['class']} {api.ctext(d['obj'])}"
         f"\n    (* {d['file']}:{d['line']} .{d['method']}({d['key']!r}, {cmt(d['default'])}) *)" for d in dsites]) + ".\n\n")
    out.append("(* The keys parse() seeds its per-call ctx dictionary with; true = with a fresh object / constant. *)\n")
    out.append("Definition ctx_preseeded : list (text * bool) := " + api.clist(
        [f"({api.ctext(k['key'])}, {'true' if k['fresh'] else 'false'})\n    (* parser.py:{k['line']} {k['key']} *)" for k in pre]) + ".\n")
    out.append("\n(* The straight-line prologue of _parse_simple_lines: `ctx.setdefault(key, D)` executed before the first statement of every\n"
               "   snippet; with the class of D as above. *)\n")
    out.append("Definition ctx_prologue : list (text * Z) := " + api.clist(
        [f"({api.ctext(k['key'])}, {k['class']})\n    (* parser.py:{k['line']} {k['key']} *)" for k in prologue]) + ".\n")
    api.write_if_changed(api.GEN / "SetSites.v", "".join(out))


if __name__ == "__main__":   # debugging aid: print the inventory
    import json
    import sys

    def _die(m):
        print(m)
        sys.exit(1)
    s, st = analyse(Path(sys.argv[1]), _die)
    for x in s:
        print(x["class"], f"{x['file']}:{x['line']}", x["fn"], "|", x["consumer"], "|", x["iter"], "|", x["kind"], "| keyed" if x.get("keyed") else "")
    for x in st:
        print("STATE", x["file"], x["line"], x["name"], x["vclass"], x["mutated"], x["how"])
    for x in analyse.caches:
        print("CACHE", x)
    us, ds, pre, prologue = analyse.uses
    for x in us:
        print("USE", x["class"], f"{x['file']}:{x['line']}", x["name"], x["fn"], "|", x["how"])
    for x in ds:
        if x["class"]:
            print("DEFAULT", x["class"], f"{x['file']}:{x['line']}", x["key"], x["method"], x["default"])
    print("PRESEEDED", [(k["key"], k["fresh"]) for k in pre])
    print("PROLOGUE", [(k["key"], k["class"]) for k in prologue])
