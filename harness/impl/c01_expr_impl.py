"""Runs the real Reduino.transpile.parser._to_c_expr on a batch of expression sources.

stdin:  {"cases": [{"src": "...", "types": {name: label}, "consts": {name: value}}]}
        types  -> ctx["var_types"] (labels "int" | "float" | "bool" | "String")
        consts -> names the constant environment binds to a known value (str / list); every other
                  name of `types` is bound to an _ExprStr marker, as _handle_assignment_ast does
stdout: [["ok", c_text, var_types_after] | ["ValueError"] | ["Other", exception class name]]
The env/ctx are built the way parse()/_handle_assignment_ast build them (vars with _helpers/_ctx, the
ctx keys _to_c_expr and _infer_expr_type read)."""
import json
import sys

from Reduino.transpile.parser import _ExprStr, _to_c_expr


def make_ctx(types, consts):
    ctx = {
        "target_port": None, "vars": {}, "globals": [], "var_types": dict(types), "var_declared": set(types),
        "helpers": set(), "functions": {}, "function_param_types": {}, "function_param_orders": {},
        "function_sources": {}, "function_defs": {}, "function_signature_aliases": {},
        "function_call_signatures": {}, "function_primary_signature": {}, "ultrasonic_measure_calls": set(),
        "ultrasonic_names": set(), "ultrasonic_models": {}, "button_names": set(), "button_pins": {},
        "button_callbacks": {}, "button_poll_names": set(), "button_force_loop": False,
        "potentiometer_names": set(), "potentiometer_pins": {},
    }
    env = ctx["vars"]
    env["_helpers"] = ctx["helpers"]
    env["_ctx"] = ctx
    for name in types:
        env[name] = _ExprStr(name)
    for name, value in consts.items():
        env[name] = value
    return env, ctx


def main():
    req = json.load(sys.stdin)
    out = []
    for case in req["cases"]:
        env, ctx = make_ctx(case.get("types", {}), case.get("consts", {}))
        try:
            text = _to_c_expr(case["src"], env, ctx)
            out.append(["ok", text, ctx["var_types"]])
        except ValueError:
            out.append(["ValueError"])
        except BaseException as e:  # noqa
            out.append(["Other", type(e).__name__])
    json.dump(out, sys.stdout)


main()
