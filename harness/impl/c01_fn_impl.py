"""Real parser side of the C01 helper-function tie.

{"merge": [[labels, has_void], ...]}  -> _merge_return_types on each: {"ty": label} | {"void": true} | {"reject": kind}
{"scripts": [src, ...]}               -> per script, per emitted helper variant: the label list the parser handed to
                                         _merge_return_types (observed by wrapping the function), the has_void flag, and the
                                         return type / name of the FunctionDef it built from the result."""
import json
import sys

from Reduino.transpile import parser as P


def merge_one(labels, has_void):
    try:
        r = P._merge_return_types(list(labels), bool(has_void))
    except ValueError:
        return {"reject": "ValueError"}
    except Exception as e:  # noqa
        return {"reject": type(e).__name__}
    return {"void": True} if r == "void" else {"ty": r}


def main():
    req = json.load(sys.stdin)
    out = {"cpp": {t: P._cpp_type(t) for t in ("int", "float", "bool", "String", "void")}}
    if "merge" in req:
        out["merge"] = [merge_one(ls, hv) for ls, hv in req["merge"]]
    if "scripts" in req:
        real = P._merge_return_types
        real_pf = P._parse_function
        res = []
        for src in req["scripts"]:
            calls, stack, parses = [], [], []

            def spy(types, has_void, _calls=calls, _stack=stack):
                rec = {"labels": list(types), "has_void": bool(has_void), "fn": _stack[-1] if _stack else None}
                _calls.append(rec)
                r = real(types, has_void)
                rec["result"] = r
                return r

            def spy_pf(name, *a, _stack=stack, _parses=parses, _calls=calls, **kw):
                _stack.append(name)
                n0 = len(_calls)
                try:
                    fn = real_pf(name, *a, **kw)
                finally:
                    _stack.pop()
                mine = [c for c in _calls[n0:] if c["fn"] == name]
                _parses.append({"name": name, "return_type": fn.return_type, "merge": mine[-1] if mine else None, "merges": len(mine)})
                return fn
            P._merge_return_types = spy
            P._parse_function = spy_pf
            try:
                prog = P.parse(src)
                fns = [{"name": f.name, "return_type": f.return_type, "params": [list(p) for p in f.params]} for f in prog.functions]
                res.append({"ok": True, "calls": calls, "functions": fns, "parses": parses})
            except ValueError as e:
                res.append({"ok": False, "exc": "ValueError", "msg": str(e)[:200]})
            except Exception as e:  # noqa
                res.append({"ok": False, "exc": type(e).__name__, "msg": str(e)[:200]})
            finally:
                P._merge_return_types = real
                P._parse_function = real_pf
        out["scripts"] = res
    json.dump(out, sys.stdout)


main()
