"""Real parser side of the C01 statement tie: IR shape of parse(src) + per-expression facts."""
import json
import sys

from Reduino.transpile import parser as P
from Reduino.transpile import ast as A


def shape(nodes):
    out = []
    for n in nodes:
        k = type(n).__name__
        if k == "VarDecl":
            out.append(["decl", n.name, n.c_type, str(n.expr), bool(n.global_scope)])
        elif k == "VarAssign":
            out.append(["assign", n.name, str(n.expr)])
        elif k == "ExprStmt":
            out.append(["exprs", str(n.expr)])
        elif k == "IfStatement":
            out.append(["if", [[str(b.condition), shape(b.body)] for b in n.branches], shape(n.else_body)])
        elif k == "WhileLoop":
            out.append(["while", str(n.condition), shape(n.body)])
        elif k == "ForRangeLoop":
            out.append(["for", n.var_name, str(n.count), shape(n.body)])
        elif k == "BreakStmt":
            out.append(["break"])
        elif k == "ContinueStmt":
            out.append(["continue"])
        elif k == "ReturnStmt" and n.expr is None:
            out.append(["return"])
        elif k == "SerialWrite":
            out.append(["write", str(n.value)])
        elif k == "Sleep":
            out.append(["sleep", str(n.ms)])
        elif k == "SerialMonitorDecl":
            continue
        else:
            out.append(["other", k])
    return out


def main():
    req = json.load(sys.stdin)
    out = []
    defaults = {t: P._default_value_for_type(P._cpp_type(t)) for t in ("int", "float", "bool", "String")}
    cpp = {t: P._cpp_type(t) for t in ("int", "float", "bool", "String")}
    bin_tokens = {k.__name__: v for k, v in P._BIN.items()}
    # the text of `x <op>= rhs` as the current parser builds it: parser._emit_binop(op, x, rhs, helpers) where it exists
    # (infix token, helper call, or None when the operator is rejected), `(x tok rhs)` before that function existed
    bin_forms = {}
    for k, v in P._BIN.items():
        fn = getattr(P, "_emit_binop", None)
        if fn is None:
            bin_forms[k.__name__] = "({l} " + v + " {r})"
            continue
        try:
            bin_forms[k.__name__] = fn(k, "{l}", "{r}", set())
        except ValueError:
            bin_forms[k.__name__] = None
    for case in req["cases"]:
        r = {}
        try:
            prog = P.parse(case["src"])
            r["ir"] = {"globals": [[g.name, g.c_type, str(g.expr)] for g in prog.global_decls],
                       "setup": shape(prog.setup_body), "loop": shape(prog.loop_body)}
        except ValueError as e:
            r["ir"] = {"reject": "ValueError", "msg": str(e)[:200]}
        except Exception as e:  # noqa
            r["ir"] = {"reject": type(e).__name__, "msg": str(e)[:200]}
        consts, ctexts = [], []
        for src in case["exprs"]:
            try:
                P._eval_const(src, {})
                consts.append(True)
            except Exception:
                consts.append(False)
            try:
                ctexts.append(P._to_c_expr(src, {}, {"var_types": dict(case.get("var_types", {}))}))
            except Exception as e:  # noqa
                ctexts.append(None)
        r["consts"], r["ctexts"] = consts, ctexts
        out.append(r)
    json.dump({"results": out, "defaults": defaults, "cpp": cpp, "bin": bin_tokens, "bin_forms": bin_forms}, sys.stdout)


main()
