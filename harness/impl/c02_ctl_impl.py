"""CPython side of the reference-semantics correspondence of C02 (Lang/StmtRef.v): executes INSTRUMENTED scripts
(rendered by harness/c02_ctl.py) under CPython and returns, per script, the decisions taken (the oracle, in the
pre-order the model consumes it) and the trace of stores / returns with their values.

A case is {"src": instrumented source, "calls": [...]}:
  * script mode ("calls" empty): the source is executed once; result {"oracle", "trace"} or {"exc", "trace"}
  * function mode: the source defines helpers; every entry of "calls" is [fname, [arg, ...]]: the tracer is reset,
    the call is made, result per call {"oracle", "trace", "value"} or {"exc"}.
Values are JSON-encoded as [tag, payload]: int [0, n], bool [1, b], float [2, num, den] (exact), str [3, s],
list [4, [...]], None [6]."""
import json
import sys
from fractions import Fraction


def enc(v):
    if isinstance(v, bool):
        return [1, v]
    if isinstance(v, int):
        return [0, v]
    if isinstance(v, float):
        if v != v or v in (float("inf"), float("-inf")):
            return [9, repr(v)]
        f = Fraction(v)
        return [2, str(f.numerator), str(f.denominator)]
    if isinstance(v, str):
        return [3, v]
    if isinstance(v, list):
        return [4, [enc(x) for x in v]]
    if v is None:
        return [6]
    return [9, repr(v)]


class Node:
    __slots__ = ("value", "children")

    def __init__(self, value=0):
        self.value = value
        self.children = []

    def flat(self, out):
        out.append(self.value)
        for c in self.children:
            c.flat(out)


class Scope:
    def __init__(self, tracer, node):
        self.t, self.node = tracer, node

    def __enter__(self):
        self.t.stack.append(self.node)

    def __exit__(self, *a):
        self.t.stack.pop()
        return False


class Tracer:
    def __init__(self):
        self.reset()

    def reset(self):
        self.root = Node()
        self.stack = [self.root]
        self.trace = []

    def new(self, value=0):
        n = Node(value)
        self.stack[-1].children.append(n)
        return n

    def take(self, node, k):          # an if takes branch k (k = number of branches: else / nothing)
        node.value = k
        return Scope(self, node)

    def it(self, node):               # one more pass of a while
        node.value += 1
        if node.value > 5000 or len(self.trace) > 50000:
            raise RuntimeError("runaway loop in a generated script")
        return Scope(self, node)

    def enter(self, node):            # a pass of a for (the count is the range length, set by new)
        return Scope(self, node)

    def st(self, name, v):
        self.trace.append([0, name, enc(v)])

    def lv(self, name, v):
        self.trace.append([1, name, enc(v)])

    def ret(self, v):
        self.trace.append([2, enc(v)])
        return v

    def oracle(self):
        out = []
        for c in self.root.children:
            c.flat(out)
        return out


class Mon:
    def write(self, *_a, **_k):
        pass


def run_case(c):
    T = Tracer()
    g = {"__T": T, "mon": Mon(), "analog_read": lambda *_a: 0, "digital_read": lambda *_a: 0}
    if not c.get("calls"):
        try:
            exec(compile(c["src"], "<ctl>", "exec"), g)
        except RecursionError:
            return {"exc": "RecursionError", "trace": T.trace, "oracle": T.oracle()}
        except Exception as e:  # noqa
            return {"exc": type(e).__name__, "trace": T.trace, "oracle": T.oracle()}
        return {"oracle": T.oracle(), "trace": T.trace}
    try:
        exec(compile(c["src"], "<ctl>", "exec"), g)
    except Exception as e:  # noqa
        return {"exc": type(e).__name__, "calls": []}
    out = []
    for fname, args in c["calls"]:
        T.reset()
        try:
            v = g[fname](*args)
        except Exception as e:  # noqa
            out.append({"exc": type(e).__name__, "oracle": T.oracle(), "trace": T.trace})
            continue
        out.append({"oracle": T.oracle(), "trace": T.trace, "value": enc(v)})
    return {"calls": out}


def main():
    req = json.load(sys.stdin)
    json.dump([run_case(c) for c in req["cases"]], sys.stdout)


main()
