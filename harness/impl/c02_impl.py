"""Implementation side of C02: calls the real type-label functions of
Reduino.transpile.parser on JSON cases (stdin) -> JSON (stdout)."""
import ast
import json
import sys

from Reduino.transpile import parser as P


def kind(e):
    return type(e).__name__


def do_infer(c):
    """c = {"src", "var_types", "functions", "aliases", "ctx"}; ctx None or dict of name lists"""
    node = ast.parse(c["src"], mode="eval").body
    var_types = dict(c["var_types"])
    functions = {}
    for name, ent in c["functions"].items():
        if isinstance(ent, str):
            functions[name] = ent
        else:
            functions[name] = {tuple(sig): lab for sig, lab in ent}
    ctx = None
    if c["ctx"] is not None:
        ctx = {k: set(v) for k, v in c["ctx"].items()}
        ctx["function_signature_aliases"] = {n: {tuple(a): tuple(b) for a, b in prs} for n, prs in c["aliases"].items()}
        ctx["var_types"] = var_types
        ctx["functions"] = functions
    try:
        lab = P._infer_expr_type(node, var_types, functions, {}, {}, ctx)
    except ValueError:
        return {"exc": "ValueError", "var_types": var_types}
    except Exception as e:  # noqa
        return {"exc": kind(e), "var_types": var_types}
    calls = None
    if ctx is not None:
        calls = {k: [list(s) for s in v] for k, v in ctx.get("function_call_signatures", {}).items()}
    return {"label": lab, "var_types": var_types, "calls": calls}


def guarded(fn, *a):
    try:
        return ["ok", fn(*a)]
    except ValueError:
        return ["ValueError"]
    except Exception as e:  # noqa
        return ["Other", kind(e)]


def main():
    req = json.load(sys.stdin)
    out = []
    for c in req["cases"]:
        op = c[0]
        if op == "infer":
            out.append(do_infer(c[1]))
        elif op == "cpp":
            ct = P._cpp_type(c[1])
            out.append([ct, P._default_value_for_type(ct)])
        elif op == "default":
            out.append(P._default_value_for_type(c[1]))
        elif op == "merge_ret":
            out.append(guarded(P._merge_return_types, list(c[1]), bool(c[2])))
        elif op == "merge_elem":
            out.append(guarded(P._merge_element_types, list(c[1])))
        elif op == "annot":
            node = None if c[1] is None else ast.parse(c[1], mode="eval").body
            out.append(P._annotation_to_type_label(node))
        elif op == "listlabel":
            out.append([P._is_list_type(c[1]), P._list_element_type(c[1]), P._make_list_type_label(c[1])])
        else:
            out.append(None)
    json.dump(out, sys.stdout)


main()
