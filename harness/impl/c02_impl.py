"""Implementation side of C02: calls the real type-label functions of
Reduino.transpile.parser on JSON cases (stdin) -> JSON (stdout)."""
import ast
import json
import re
import sys

from Reduino.transpile import parser as P


def kind(e):
    return type(e).__name__


def do_infer(c):
    """c = {"src", "var_types", "functions", "aliases", "ctx"}; ctx None or dict of name lists"""
    node = ast.parse(c["src"], mode="eval").body
    var_types = dict(c["var_types"])
    functions = {}
    for name, ent in c["functions"].items():
        if isinstance(ent, str):
            functions[name] = ent
        else:
            functions[name] = {tuple(sig): lab for sig, lab in ent}
    ctx = None
    if c["ctx"] is not None:
        ctx = {k: set(v) for k, v in c["ctx"].items()}
        ctx["function_signature_aliases"] = {n: {tuple(a): tuple(b) for a, b in prs} for n, prs in c["aliases"].items()}
        ctx["var_types"] = var_types
        ctx["functions"] = functions
    try:
        lab = P._infer_expr_type(node, var_types, functions, {}, {}, ctx)
    except ValueError:
        return {"exc": "ValueError", "var_types": var_types}
    except Exception as e:  # noqa
        return {"exc": kind(e), "var_types": var_types}
    calls = None
    if ctx is not None:
        calls = {k: [list(s) for s in v] for k, v in ctx.get("function_call_signatures", {}).items()}
    return {"label": lab, "var_types": var_types, "calls": calls}


def do_toc(c):
    """var_types after the real _to_c_expr translated c["src"] (a comprehension); c["vars"]: name -> folded constant"""
    var_types = dict(c["var_types"])
    functions = {}
    for name, ent in c["functions"].items():
        functions[name] = ent if isinstance(ent, str) else {tuple(sig): lab for sig, lab in ent}
    ctx = {k: set(v) for k, v in (c["ctx"] or {}).items()}
    ctx["function_signature_aliases"] = {n: {tuple(a): tuple(b) for a, b in prs} for n, prs in c["aliases"].items()}
    ctx["var_types"] = var_types
    ctx["functions"] = functions
    vars_env = dict(c.get("vars", {}))
    before = dict(vars_env)
    try:
        P._to_c_expr(c["src"], vars_env, ctx)
    except ValueError:
        return {"exc": "ValueError", "var_types": ctx["var_types"]}
    except Exception as e:  # noqa
        return {"exc": kind(e), "var_types": ctx["var_types"]}
    return {"var_types": ctx["var_types"], "vars_same": {k: v for k, v in vars_env.items() if not k.startswith("_")} == before}


TY = r"(?:int|float|bool|String|void|__redu_list<[\w<>]+>)"
RE_DECL = re.compile(rf"^(\s*)({TY})\s+([A-Za-z_]\w*)\s*(?:=.*)?;\s*$")
RE_FUNC = re.compile(rf"^({TY})\s+([A-Za-z_]\w*)\s*\((.*)\)\s*\{{\s*$")
RE_PARAM = re.compile(rf"^\s*({TY})\s+([A-Za-z_]\w*)\s*$")


def cpp_decls(cpp):
    """declared C++ types in the emitted sketch: globals, per function (incl. setup/loop): return type, params, locals"""
    globs, funcs, cur = [], [], None
    for line in cpp.splitlines():
        if cur is None:
            m = RE_FUNC.match(line)
            if m:
                params = []
                ptxt = m.group(3).strip()
                ok = True
                if ptxt:
                    for part in ptxt.split(","):
                        pm = RE_PARAM.match(part)
                        if pm is None:
                            ok = False
                            break
                        params.append([pm.group(2), pm.group(1)])
                cur = {"name": m.group(2), "ret": m.group(1), "params": params if ok else None, "locals": []}
                continue
            m = RE_DECL.match(line)
            if m and m.group(1) == "":
                globs.append([m.group(3), m.group(2)])
        else:
            if line.startswith("}"):
                funcs.append(cur)
                cur = None
                continue
            m = RE_DECL.match(line)
            if m:
                cur["locals"].append([m.group(3), m.group(2)])
    return {"globals": globs, "funcs": funcs}


def do_decls(src):
    from Reduino.transpile.emitter import emit
    try:
        cpp = emit(P.parse(src))
    except ValueError as e:
        return {"exc": "ValueError", "msg": str(e)[:200]}
    except RecursionError:
        return {"exc": "RecursionError"}
    except Exception as e:  # noqa
        return {"exc": kind(e), "msg": str(e)[:200]}
    d = cpp_decls(cpp)
    d["cpp"] = cpp
    return d


def guarded(fn, *a):
    try:
        return ["ok", fn(*a)]
    except ValueError:
        return ["ValueError"]
    except Exception as e:  # noqa
        return ["Other", kind(e)]


def main():
    req = json.load(sys.stdin)
    out = []
    for c in req["cases"]:
        op = c[0]
        if op == "infer":
            out.append(do_infer(c[1]))
        elif op == "toc":
            out.append(do_toc(c[1]))
        elif op == "decls":
            out.append(do_decls(c[1]))
        elif op == "cpp":
            ct = P._cpp_type(c[1])
            out.append([ct, P._default_value_for_type(ct)])
        elif op == "default":
            out.append(P._default_value_for_type(c[1]))
        elif op == "merge_ret":
            out.append(guarded(P._merge_return_types, list(c[1]), bool(c[2])))
        elif op == "merge_elem":
            out.append(guarded(P._merge_element_types, list(c[1])))
        elif op == "annot":
            node = None if c[1] is None else ast.parse(c[1], mode="eval").body
            out.append(P._annotation_to_type_label(node))
        elif op == "listlabel":
            out.append([P._is_list_type(c[1]), P._list_element_type(c[1]), P._make_list_type_label(c[1])])
        else:
            out.append(None)
    json.dump(out, sys.stdout)


main()
