"""Implementation side of C03 / C11 (evaluator part): runs the real _eval_const, _expr_has_name,
_to_c_expr(len(..)) and parse() call sites on JSON cases (stdin) -> JSON (stdout).

case kinds
  ["eval", src, env]          env: {name: tagged value | ["mark"]}
      -> {"res": ["ok", tagged] | ["exc", kind], "has_name": bool | None, "len": int | None,
          "ccalls": [names of C functions called while ev ran], "py": ["ok", tagged] | ["exc", kind] | None}
      "py" = CPython eval of the same source in an environment extending the known bindings
      (markers replaced by the given run-time values env_rt)
  ["site", which, src]        which in sleep | blink | glyph  -> ["folded", v] | ["fallback"] | ["exc", kind]
"""
import ast
import json
import math
import sys
from fractions import Fraction

from Reduino.transpile import parser as P
from Reduino.transpile.parser import _eval_const, _expr_has_name, _to_c_expr, _ExprStr, parse


def enc(v):
    if isinstance(v, _ExprStr):
        return ["other", "_ExprStr"]
    if isinstance(v, bool):
        return ["bool", v]
    if isinstance(v, int):
        if v.bit_length() > 20000:
            return ["special", "hugeint"]
        return ["int", hex(v)]
    if isinstance(v, float):
        if not math.isfinite(v):
            return ["special", repr(v)]
        f = Fraction(v)
        return ["float", hex(f.numerator), hex(f.denominator)]
    if isinstance(v, str):
        return ["str", v]
    if isinstance(v, list):
        return ["list", [enc(x) for x in v]]
    if isinstance(v, tuple):
        return ["tuple", [enc(x) for x in v]]
    if v is None:
        return ["none"]
    return ["other", type(v).__name__]


def dec(w):
    t = w[0]
    if t == "mark":
        return _ExprStr("m")
    if t == "bool":
        return bool(w[1])
    if t == "int":
        return int(w[1], 16)
    if t == "float":
        return int(w[1], 16) / int(w[2], 16)
    if t == "str":
        return w[1]
    if t == "list":
        return [dec(x) for x in w[1]]
    if t == "tuple":
        return tuple(dec(x) for x in w[1])
    return None


def do_eval(src, env_w, rt_w):
    env = {k: dec(v) for k, v in env_w.items()}
    out = {}
    ccalls = []

    def prof(frame, event, arg):
        if event == "c_call":
            ccalls.append(getattr(arg, "__qualname__", None) or getattr(arg, "__name__", repr(arg)))

    try:
        tree = ast.parse(src, mode="eval")
    except BaseException as e:  # noqa
        return {"res": ["exc", type(e).__name__], "has_name": None, "len": None, "ccalls": [], "py": None}
    sys.setprofile(prof)
    try:
        try:
            r = _eval_const(src, env)
            res = ["ok", enc(r)]
        except BaseException as e:  # noqa
            res = ["exc", type(e).__name__]
    finally:
        sys.setprofile(None)
    out["res"] = res
    out["ccalls"] = [c for c in ccalls if c not in ("setprofile",)]
    try:
        out["has_name"] = bool(_expr_has_name(tree.body))
    except BaseException as e:  # noqa
        out["has_name"] = ["exc", type(e).__name__]
    # len(<src>) through _to_c_expr: a decimal literal means _literal_length folded it
    try:
        c = _to_c_expr("len(" + src + ")", dict(env), {})
        out["len"] = int(c) if c.isdigit() else None
    except BaseException:  # noqa
        out["len"] = None
    if rt_w is not None:
        rt = {k: dec(v) for k, v in rt_w.items()}
        try:
            out["py"] = ["ok", enc(eval(compile(tree, "<expr>", "eval"), {}, rt))]
        except BaseException as e:  # noqa
            out["py"] = ["exc", type(e).__name__]
    else:
        out["py"] = None
    return out


def do_site(which, src):
    try:
        if which == "sleep":
            prog = parse("sleep(" + src + ")\n")
            node = prog.setup_body[0]
            v = node.ms
        elif which == "blink":
            prog = parse("led.blink(" + src + ", 1)\n")
            node = prog.setup_body[0]
            v = node.duration_ms
        elif which == "glyph":
            prog = parse("lcd = LCD(rs=12, en=11, d4=5, d5=4, d6=3, d7=2)\nlcd.glyph(0, " + src + ")\n")
            node = prog.setup_body[1]
            v = node.bitmap
        else:
            return ["bad"]
    except BaseException as e:  # noqa
        return ["exc", type(e).__name__]
    if isinstance(v, str):
        return ["fallback", v]
    return ["folded", enc(v)]


def main():
    req = json.load(sys.stdin)
    out = []
    for c in req["cases"]:
        if c[0] == "eval":
            out.append(do_eval(c[1], c[2], c[3] if len(c) > 3 else None))
        elif c[0] == "site":
            out.append(do_site(c[1], c[2]))
        elif c[0] == "tables":
            out.append({"safe_casts": list(P._SAFE_CASTS), "safe_names": sorted(P._SAFE_NAME_REFERENCES)})
    json.dump(out, sys.stdout)


main()
