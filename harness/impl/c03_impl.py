"""Implementation side of C03 / C11 (evaluator part): runs the real _eval_const, _expr_has_name,
_to_c_expr(len(..)) and parse() call sites on JSON cases (stdin) -> JSON (stdout).

case kinds
  ["eval", src, env]          env: {name: tagged value | ["mark"]}
      -> {"res": ["ok", tagged] | ["exc", kind], "has_name": bool | None, "len": int | None,
          "ccalls": [names of C functions called while ev ran], "py": ["ok", tagged] | ["exc", kind] | None}
      "py" = CPython eval of the same source in an environment extending the known bindings
      (markers replaced by the given run-time values env_rt)
  ["site", which, src]        which in sleep | blink | glyph  -> ["folded", v] | ["fallback"] | ["exc", kind]
"""
import ast
import json
import math
import sys
from fractions import Fraction

from Reduino.transpile import parser as P
from Reduino.transpile.parser import _eval_const, _expr_has_name, _to_c_expr, _ExprStr, parse


def enc(v):
    if isinstance(v, _ExprStr):
        return ["other", "_ExprStr"]
    if isinstance(v, bool):
        return ["bool", v]
    if isinstance(v, int):
        if v.bit_length() > 20000:
            return ["special", "hugeint"]
        return ["int", hex(v)]
    if isinstance(v, float):
        if not math.isfinite(v):
            return ["special", repr(v)]
        f = Fraction(v)
        return ["float", hex(f.numerator), hex(f.denominator)]
    if isinstance(v, str):
        return ["str", v]
    if isinstance(v, list):
        return ["list", [enc(x) for x in v]]
    if isinstance(v, tuple):
        return ["tuple", [enc(x) for x in v]]
    if v is None:
        return ["none"]
    return ["other", type(v).__name__]


def dec(w):
    t = w[0]
    if t == "mark":
        return _ExprStr("m")
    if t == "bool":
        return bool(w[1])
    if t == "int":
        return int(w[1], 16)
    if t == "float":
        return int(w[1], 16) / int(w[2], 16)
    if t == "str":
        return w[1]
    if t == "list":
        return [dec(x) for x in w[1]]
    if t == "tuple":
        return tuple(dec(x) for x in w[1])
    return None


def do_eval(src, env_w, rt_w):
    env = {k: dec(v) for k, v in env_w.items()}
    out = {}
    ccalls = []

    def prof(frame, event, arg):
        if event == "c_call":
            ccalls.append(getattr(arg, "__qualname__", None) or getattr(arg, "__name__", repr(arg)))

    try:
        tree = ast.parse(src, mode="eval")
    except BaseException as e:  # noqa
        return {"res": ["exc", type(e).__name__], "has_name": None, "len": None, "ccalls": [], "py": None}
    sys.setprofile(prof)
    try:
        try:
            r = _eval_const(src, env)
            res = ["ok", enc(r)]
        except BaseException as e:  # noqa
            res = ["exc", type(e).__name__]
    finally:
        sys.setprofile(None)
    out["res"] = res
    out["ccalls"] = [c for c in ccalls if c not in ("setprofile",)]
    try:
        out["has_name"] = bool(_expr_has_name(tree.body))
    except BaseException as e:  # noqa
        out["has_name"] = ["exc", type(e).__name__]
    # len(<src>) through _to_c_expr: a decimal literal means _literal_length folded it
    try:
        c = _to_c_expr("len(" + src + ")", dict(env), {})
        out["len"] = int(c) if c.isdigit() else None
    except BaseException:  # noqa
        out["len"] = None
    if rt_w is not None:
        rt = {k: dec(v) for k, v in rt_w.items()}
        out["guard"] = guard_py(tree, rt)
        try:
            out["py"] = ["ok", enc(eval(compile(tree, "<expr>", "eval"), {}, rt))]
        except BaseException as e:  # noqa
            out["py"] = ["exc", type(e).__name__]
    else:
        out["py"] = None
    return out


def env_prefix(env_w):
    """script lines that put the given bindings into ctx['vars'] (markers: a run-time read)"""
    lines = []
    for k, w in (env_w or {}).items():
        if w[0] == "mark":
            lines.append(f"{k} = analog_read(16)")
        else:
            lines.append(f"{k} = {dec(w)!r}")
    return "\n".join(lines) + ("\n" if lines else "")


def do_site(which, src, env_w=None):
    pre = env_prefix(env_w)
    try:
        if which == "sleep":
            prog = parse(pre + "sleep(" + src + ")\n")
            node = [n for n in prog.setup_body if type(n).__name__ == "Sleep"][-1]
            v = node.ms
        elif which == "blink":
            prog = parse(pre + "led.blink(" + src + ", 1)\n")
            node = [n for n in prog.setup_body if type(n).__name__ == "LedBlink"][-1]
            v = node.duration_ms
        elif which == "backlight":
            prog = parse("lcd = LCD(rs=12, en=11, d4=5, d5=4, d6=3, d7=2)\n" + pre + "lcd.backlight(" + src + ")\n")
            node = [n for n in prog.setup_body if type(n).__name__ == "LCDBacklight"][-1]
            v = node.on
        elif which == "tone":
            prog = parse("bz = Buzzer(8)\n" + pre + "bz.play_tone(" + src + ")\n")
            node = [n for n in prog.setup_body if type(n).__name__ == "BuzzerPlayTone"][-1]
            v = node.frequency
        elif which == "model":
            prog = parse(pre + "us = Ultrasonic(7, 8, model=" + src + ")\n")
            node = [n for n in prog.setup_body if type(n).__name__ == "UltrasonicDecl"][-1]
            return ["folded", enc(node.model)]
        elif which == "pin":
            prog = parse(pre + "l2 = Led(" + src + ")\n")
            node = [n for n in prog.setup_body if type(n).__name__ == "LedDecl"][-1]
            v = node.pin
        elif which == "glyph":
            prog = parse("lcd = LCD(rs=12, en=11, d4=5, d5=4, d6=3, d7=2)\n" + pre + "lcd.glyph(0, " + src + ")\n")
            node = [n for n in prog.setup_body if type(n).__name__ == "LCDGlyph"][-1]
            v = node.bitmap
        else:
            return ["bad"]
    except BaseException as e:  # noqa
        return ["exc", type(e).__name__]
    if isinstance(v, str):
        return ["fallback", v]
    return ["folded", enc(v)]


def guard_py(tree, rt):
    """the two clauses of the model's in_guard, decided with CPython: no one-argument max/min,
    unary plus only where +v is v (int / float operand)"""
    for n in ast.walk(tree):
        if isinstance(n, ast.Call) and isinstance(n.func, ast.Name) and n.func.id in ("max", "min") and len(n.args) == 1 and not n.keywords:
            return False
        if isinstance(n, ast.UnaryOp) and isinstance(n.op, ast.UAdd):
            try:
                v = eval(compile(ast.Expression(n.operand), "<sub>", "eval"), {}, dict(rt))
            except BaseException:  # noqa
                continue
            if type(v) not in (int, float):
                return False
    return True


def _entry(x):
    return int(x) if isinstance(x, (int, float)) and not isinstance(x, bool) or isinstance(x, bool) else repr(x)


def walk_ir(nodes, out):
    for n in nodes:
        t = type(n).__name__
        if t == "SerialWrite":
            v = str(n.value)
            if "##handler" in v:
                continue                 # the harness's own marker line at the head of every except block
            out.append(["len", int(v)] if v.isdigit() else ["rt", v])
        elif t == "LedFlashPattern":
            # read when parsing is complete, like the emitter does: a node that shares its list with the constant
            # environment shows the list's FINAL contents here (and possibly entries that are not numbers at all)
            out.append(["flash", [_entry(x) for x in n.pattern]])
        elif t == "LCDGlyph":
            out.append(["glyph", [_entry(x) for x in n.bitmap]])
        elif t == "IfStatement":
            for b in n.branches:
                walk_ir(b.body, out)
            walk_ir(n.else_body, out)
        elif t in ("WhileLoop", "ForRangeLoop"):
            walk_ir(n.body, out)
        elif t == "TryStatement":
            walk_ir(n.try_body, out)
            for h in n.handlers:
                walk_ir(h.body, out)


def do_prog(script):
    """static view: the constants the real parser baked into each observation point, in source order"""
    try:
        prog = parse(script)
    except BaseException as e:  # noqa
        return {"status": type(e).__name__, "msg": str(e)[:200], "obs": []}
    out = []
    walk_ir(prog.setup_body, out)
    walk_ir(prog.loop_body, out)
    # module level: the declared globals (name, initialiser text) and the names assigned by the nodes that stay at the
    # top level of setup() - a first assignment hoisted into a static initialiser leaves no node there
    tops = []
    for n in prog.setup_body:
        t = type(n).__name__
        if t == "VarAssign":
            tops.append(str(n.name))
        elif t == "ExprStmt" and str(n.expr).startswith("__redu_list_assign("):
            tops.append(str(n.expr)[len("__redu_list_assign("):].split(",")[0].strip())
        elif t == "VarDecl":
            tops.append("decl:" + str(n.name))
    globs = [[str(g.name), str(g.expr)] for g in (prog.global_decls or []) if type(g).__name__ == "VarDecl"]
    # function definitions: the constants baked into each body (a formal argument is a run-time value there)
    funcs = {}
    for f in (getattr(prog, "functions", None) or []):
        fo = []
        walk_ir(f.body, fo)
        funcs.setdefault(str(f.name), fo)
    return {"status": "ok", "obs": out, "tops": tops, "globals": globs, "funcs": funcs}


class _StopLoops(BaseException):
    pass


def do_pyobs(script, inputs, loops=0):
    """CPython meaning of the script: serial writes, flash patterns and glyph bitmaps, in order.
    inputs: {"dr": {pin: [..]}, "ar": {pin: [..]}} (the last value repeats)"""
    import os
    r, w = os.pipe()
    pid = os.fork()
    if pid == 0:
        os.close(r)
        res = _pyobs_child(script, inputs, loops)
        with os.fdopen(w, "w") as f:
            json.dump(res, f)
        os._exit(0)
    os.close(w)
    with os.fdopen(r) as f:
        data = f.read()
    os.waitpid(pid, 0)
    try:
        return json.loads(data)
    except Exception:  # noqa
        return {"obs": [], "exc": "Crash"}


def _pyobs_child(script, inputs, loops=0):
    import signal
    signal.alarm(10)
    obs = []
    idx = {}

    def nxt(kind, pin):
        seq = (inputs.get(kind) or {}).get(str(pin)) or [0]
        i = idx.get((kind, pin), 0)
        idx[(kind, pin)] = i + 1
        return seq[i] if i < len(seq) else seq[-1]

    try:
        import Reduino
        import Reduino.Core as K
        from importlib import import_module
        SM = import_module("Reduino.Communication.SerialMonitor")
        LED = import_module("Reduino.Actuators.Led")
        Reduino.target = lambda *a, **k: None
        K.digital_read = lambda pin: 1 if nxt("dr", pin) else 0
        K.analog_read = lambda pin: nxt("ar", pin)
        SM.SerialMonitor.write = lambda self, value: obs.append(["S", f"{value}"])
        SM.SerialMonitor.connect = lambda self, port: None

        def flash(self, pattern, delay_ms=200):
            for e in list(pattern):
                obs.append(["P", int(e)])
        LED.Led.flash_pattern = flash
        try:
            LCDM = import_module("Reduino.Displays.LCD")
            LCDM.LCD.glyph = lambda self, slot, bitmap: obs.append(["G", [int(x) & 0x1F for x in list(bitmap)[:8]]])
        except Exception:  # noqa
            pass
        sys.stdout = open("/dev/null", "w")
        tree = ast.parse(script)
        passes = {"k": 0}

        def __verif_pass():
            if passes["k"] >= loops:
                raise _StopLoops()
            passes["k"] += 1
        for node in tree.body:          # cut the top-level `while True:` after `loops` passes (harness copy only)
            if isinstance(node, ast.While) and isinstance(node.test, ast.Constant) and node.test.value is True:
                node.body.insert(0, ast.Expr(ast.Call(ast.Name("__verif_pass", ast.Load()), [], [])))
        ast.fix_missing_locations(tree)
        try:
            exec(compile(tree, "<script>", "exec"), {"__name__": "__main__", "__verif_pass": __verif_pass})
        except _StopLoops:
            pass
        return {"obs": obs, "exc": None, "reads": {f"{k[0]}{k[1]}": v for k, v in idx.items()}}
    except BaseException as e:  # noqa
        return {"obs": obs, "exc": type(e).__name__, "msg": str(e)[:200]}


def main():
    req = json.load(sys.stdin)
    out = []
    for c in req["cases"]:
        if c[0] == "eval":
            out.append(do_eval(c[1], c[2], c[3] if len(c) > 3 else None))
        elif c[0] == "site":
            out.append(do_site(c[1], c[2], c[3] if len(c) > 3 else None))
        elif c[0] == "prog":
            out.append(do_prog(c[1]))
        elif c[0] == "pyobs":
            out.append(do_pyobs(c[1], c[2], c[3] if len(c) > 3 else 0))
        elif c[0] == "tables":
            out.append({"safe_casts": list(P._SAFE_CASTS), "safe_names": sorted(P._SAFE_NAME_REFERENCES)})
    json.dump(out, sys.stdout)


main()
