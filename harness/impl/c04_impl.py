"""Implementation side of property C04 (host half): executes a generated Reduino script under CPython
against the REAL host classes and records the host-side level sequence (DESIGN.md Appendix A.2).

stdin : {"jobs": [{"src": script, "input": "ar 14 v v v ...\n"}], "timeout": s}
stdout: [{"events": [line, ...], "exc": None | [kind, msg]}]
events: "S <text>"            SerialMonitor.write(value)   (str(value); bools print True/False)
        "D <num>/<den> [fade]" one call of the package-level sleep (exact value of the argument; "fade" when called from RGBLed.fade)
        "AR <pin> <v>"        analog_read
        "L <pin> <b>"         completed Led.set_brightness (brightness stored)
        "C <rp> <gp> <bp> <r> <g> <b>"   completed RGBLed.set_color
        "SV <pin> <num>/<den> <num>/<den>"  completed Servo.write / write_us (angle, pulse)
        "M <id> <what> <num>/<den> <mode>"  DCMotor drive change (applied speed, mode)
Each job runs in a forked child; nothing in /repo is modified (wrappers live in this process only)."""
import json
import os
import signal
import sys
from fractions import Fraction

PIN_ALIASES = {f"A{i}": 14 + i for i in range(8)}


def pin_num(pin):
    if isinstance(pin, str):
        s = pin.strip()
        if s in PIN_ALIASES:
            return PIN_ALIASES[s]
        if s.isdigit():
            return int(s)
        return s
    return int(pin)


def frac(v):
    if isinstance(v, bool):
        v = int(v)
    f = Fraction(v)
    return "%d/%d" % (f.numerator, f.denominator)


def parse_input(text):
    cfg = {}
    for ln in (text or "").splitlines():
        parts = ln.split()
        if parts and parts[0] == "ar":
            cfg[int(parts[1])] = [int(x) for x in parts[2:]]
    return cfg


def run_job(job):
    events = []
    where = []          # the host method a sleep is called from (the device rounds fade delays differently)
    ar = parse_input(job.get("input"))
    idx = {}

    import Reduino
    import Reduino.Utils as U
    import Reduino.Core as K
    import Reduino.Actuators as A
    from importlib import import_module
    SM = import_module("Reduino.Communication.SerialMonitor")

    def rec_sleep(duration, *, sleep_func=None):
        if duration < 0:
            raise ValueError("duration must be non-negative")
        events.append("D " + frac(duration) + (" " + where[-1] if where else ""))

    U.sleep = rec_sleep
    for modname, mod in list(sys.modules.items()):
        if modname.startswith("Reduino") and mod is not None and getattr(mod, "sleep", None) is not None \
                and modname != "Reduino.Utils":
            try:
                mod.sleep = rec_sleep
            except Exception:
                pass
    Reduino.target = lambda *a, **k: None

    def k_ar(pin):
        p = pin_num(pin)
        seq = ar.get(p) or [0]
        i = idx.get(p, 0)
        v = seq[i if i < len(seq) else len(seq) - 1]
        idx[p] = i + 1
        events.append("AR %s %d" % (p, v))
        return v

    K.analog_read = k_ar

    def sm_write(self, value):
        text = f"{value}"
        events.append("S " + text)
        return text

    SM.SerialMonitor.write = sm_write
    SM.SerialMonitor.connect = lambda self, port: None

    Led, RGBLed = A.Led, A.RGBLed
    o_sb, o_sc = Led.set_brightness, RGBLed.set_color

    def sb(self, *a, **k):
        r = o_sb(self, *a, **k)
        events.append("L %s %d" % (pin_num(self.pin), self.brightness))
        return r

    def sc(self, *a, **k):
        r = o_sc(self, *a, **k)
        c = self._color
        events.append("C %s %s %s %d %d %d" % (tuple(pin_num(p) for p in self.pins) + tuple(c)))
        return r

    Led.set_brightness = sb
    RGBLed.set_color = sc

    def scoped(cls, name):
        orig = getattr(cls, name)

        def f(self, *a, **k):
            where.append(name)
            try:
                return orig(self, *a, **k)
            finally:
                where.pop()
        setattr(cls, name, f)

    scoped(RGBLed, "fade")

    Servo = getattr(A, "Servo", None)
    if Servo is not None:
        o_w, o_wu = Servo.write, Servo.write_us

        def w(self, *a, **k):
            r = o_w(self, *a, **k)
            events.append("SV %s %s %s" % (pin_num(self.pin), frac(self.read()), frac(self.read_us())))
            return r

        def wu(self, *a, **k):
            r = o_wu(self, *a, **k)
            events.append("SV %s %s %s" % (pin_num(self.pin), frac(self.read()), frac(self.read_us())))
            return r

        Servo.write, Servo.write_us = w, wu

    DCMotor = getattr(A, "DCMotor", None)
    if DCMotor is not None:
        def wrap(name):
            orig = getattr(DCMotor, name)

            def f(self, *a, **k):
                r = orig(self, *a, **k)
                events.append("M %s %s %s %s" % (id_of(self), name, frac(self.get_applied_speed()), self.get_mode()))
                return r
            setattr(DCMotor, name, f)

        ids = {}

        def id_of(m):
            return ids.setdefault(id(m), len(ids))

        for nm in ("_apply_speed", "stop", "coast"):
            if hasattr(DCMotor, nm):
                wrap(nm)

    ns = {"__name__": "__main__"}
    exc = None
    try:
        exec(compile(job["src"], "<script>", "exec"), ns)
    except _Timeout:
        exc = ["Timeout", ""]
    except BaseException as e:  # noqa
        exc = [type(e).__name__, str(e)[:200]]
    return {"events": events, "exc": exc}


class _Timeout(BaseException):
    pass


def _alarm(sig, frm):
    raise _Timeout()


def main():
    req = json.load(sys.stdin)
    per = int(req.get("timeout", 20))
    out = []
    for job in req["jobs"]:
        r, w = os.pipe()
        pid = os.fork()
        if pid == 0:
            os.close(r)
            signal.signal(signal.SIGALRM, _alarm)
            signal.alarm(per)
            try:
                sys.stdout = open(os.devnull, "w")
                res = run_job(job)
            except BaseException as e:  # noqa
                res = {"events": [], "exc": ["Harness:" + type(e).__name__, str(e)[:300]]}
            data = json.dumps(res).encode()
            with os.fdopen(w, "wb") as f:
                f.write(data)
            os._exit(0)
        os.close(w)
        with os.fdopen(r, "rb") as f:
            data = f.read()
        os.waitpid(pid, 0)
        try:
            out.append(json.loads(data))
        except Exception:
            out.append({"events": [], "exc": ["Crash", ""]})
    json.dump(out, sys.stdout)


main()
