"""Implementation side of C05: runs the real parse() (and emit()) on generated scripts and dumps the
Program dataclasses generically (stdin JSON {"sources":[...]} -> stdout JSON list).

Each result: {"ok": True, "setup": [...], "loop": [...], "globals": [[name, c_type, expr], ...], "cpp": text}
         or  {"ok": False, "exc": kind, "msg": text}
A node is {"_": class name, field: value...}; lists are dumped recursively; other values by str()."""
import dataclasses
import json
import signal
import sys

from Reduino.transpile.parser import parse
from Reduino.transpile.emitter import emit


class _Timeout(Exception):
    pass


def _alarm(signum, frame):
    raise _Timeout()


def dump(x):
    if dataclasses.is_dataclass(x) and not isinstance(x, type):
        d = {"_": type(x).__name__}
        for f in dataclasses.fields(x):
            d[f.name] = dump(getattr(x, f.name))
        return d
    if isinstance(x, (list, tuple)):
        return [dump(y) for y in x]
    if isinstance(x, (bool, int)) or x is None:
        return x
    if isinstance(x, float):
        return x
    return str(x)


def main():
    req = json.load(sys.stdin)
    per = int(req.get("timeout", 20))
    signal.signal(signal.SIGALRM, _alarm)
    out = []
    for src in req["sources"]:
        signal.alarm(per)
        try:
            prog = parse(src)
            res = {"ok": True, "setup": dump(prog.setup_body), "loop": dump(prog.loop_body),
                   "globals": [[g.name, g.c_type, str(g.expr)] for g in prog.global_decls]}
            if req.get("emit", True):
                res["cpp"] = emit(prog)
            out.append(res)
        except _Timeout:
            out.append({"ok": False, "exc": "Timeout", "msg": f"> {per}s"})
        except BaseException as e:  # noqa
            out.append({"ok": False, "exc": type(e).__name__, "msg": str(e)[:300]})
        finally:
            signal.alarm(0)
    json.dump(out, sys.stdout)


main()
