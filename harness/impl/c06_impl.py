"""C06 implementation runner (JSON stdin -> JSON stdout), executed with PYTHONPATH=<repo>/src.

ops
  {"op": "escape", "strings": [[code points] ...]}
        -> [[code points of _escape_string_literal(s)] ...]
  {"op": "to_c", "exprs": [[code points of a Python expression source] ...]}
        -> the C++ text the real expression translator (_to_c_expr(src, {})) produces, as code
           points, or null when it raises
  {"op": "transpile", "sources": [...], "timeout": n}
        -> {"consts": {HEADER, LEN, LIST, LCD, SETUP_START, SETUP_END, LOOP_START, LOOP_END},
            "results": [{"ok": True, "cpp", "functions": [names], "helpers": [..]} | {"ok": False, "exc", "msg"}]}
"""
import ast
import json
import signal
import sys

from Reduino.transpile import emitter as E
from Reduino.transpile import parser as P


class _Timeout(Exception):
    pass


def _alarm(signum, frame):
    raise _Timeout()


def cps(s):
    return [ord(c) for c in s]


def main():
    req = json.load(sys.stdin)
    op = req["op"]
    if op == "escape":
        out = []
        for s in req["strings"]:
            out.append(cps(P._escape_string_literal("".join(chr(c) for c in s))))
        json.dump(out, sys.stdout)
        return
    if op == "to_c":
        out = []
        for s in req["exprs"]:
            src = "".join(chr(c) for c in s)
            try:
                out.append(cps(str(P._to_c_expr(src, {}))))
            except BaseException as e:  # noqa
                out.append(None)
        json.dump(out, sys.stdout)
        return
    if op == "transpile":
        per = int(req.get("timeout", 20))
        signal.signal(signal.SIGALRM, _alarm)
        res = []
        for src in req["sources"]:
            signal.alarm(per)
            try:
                if hasattr(P, "_VERIF_IGNORED"):
                    del P._VERIF_IGNORED[:]
                prog = P.parse(src)
                cpp = E.emit(prog)
                res.append({"ok": True, "cpp": cpp,
                            "functions": [fn.name for fn in getattr(prog, "functions", [])],
                            "helpers": sorted(getattr(prog, "helpers", []) or []),
                            "ignored": [list(map(str, x)) for x in getattr(P, "_VERIF_IGNORED", [])][:50]})
            except _Timeout:
                res.append({"ok": False, "exc": "Timeout", "msg": f"> {per}s"})
            except BaseException as e:  # noqa
                res.append({"ok": False, "exc": type(e).__name__, "msg": str(e)[:300]})
            finally:
                signal.alarm(0)
        consts = {"HEADER": E.HEADER, "LEN": E.LEN_HELPER_SNIPPET, "LIST": E.LIST_HELPER_SNIPPET,
                  "LCD": E.LCD_HELPER_SNIPPET, "SETUP_START": E.SETUP_START, "SETUP_END": E.SETUP_END,
                  "LOOP_START": E.LOOP_START, "LOOP_END": E.LOOP_END}
        json.dump({"consts": consts, "results": res}, sys.stdout)
        return
    raise SystemExit("unknown op " + op)


main()
