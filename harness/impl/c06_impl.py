"""C06 implementation runner (JSON stdin -> JSON stdout), executed with PYTHONPATH=<repo>/src.

ops
  {"op": "escape", "strings": [[code points] ...]}
        -> [[code points of _escape_string_literal(s)] ...]
  {"op": "to_c", "exprs": [[code points of a Python expression source] ...]}
        -> the C++ text the real expression translator (_to_c_expr(src, {})) produces, as code
           points, or null when it raises
  {"op": "check_ident", "names": [[code points] ...]}
        -> per name 0 (parser._check_identifier returns the name) | 1 (ValueError) | [2, what] ; null: no such function
  {"op": "exc_classes", "cases": [[setup, loop, [function bodies]] ...]}   trees in the encoding of coq/Wire/C06W.v op 11
        -> per case the result of emitter._exception_classes, the struct / namespace lines and the catch headers of the real emit()
  {"op": "transpile", "sources": [...], "timeout": n}
        -> {"consts": {HEADER, LEN, LIST, LCD, SETUP_START, SETUP_END, LOOP_START, LOOP_END},
            "results": [{"ok": True, "cpp", "functions": [names], "helpers": [..],
                         "decls": [[name, kind]]   top-level device declarations in the order the emitter walks them
                                                   (setup_body, then the hoisted ones of loop_body); kind 0 no library,
                                                   1 Servo, 2 parallel LCD, 3 I2C LCD,
                         "fnsel": {"fns": [{"name", "variants": [sig], "used": [sig], "aliases": [[sig, sig]], "primary": sig|null}],
                                   "selected": [[name, sig]], "params": [[name, [C++ parameter types]]]}
                                                   the tables the selection loop at the end of parse() reads (captured from the
                                                   ctx that parse() hands to _parse_function), the (name, signature) of every
                                                   FunctionDef in Program.functions (by object identity), and their C++ parameters}
                         "ir": {"lcds", "buttons", "setup", "loop", "fns": [[name, [params], nodes]]}
                                                   the IR in the encoding of coq/Wire/C06W.v op 9 (Lang/EmitScope.v): per node kind
                                                   only what decides which C++ names its emission declares in which block}
                        | {"ok": False, "exc", "msg"}]}
"""
import ast
import json
import signal
import sys

from Reduino.transpile import emitter as E
from Reduino.transpile import parser as P


class _Timeout(Exception):
    pass


def _alarm(signum, frame):
    raise _Timeout()


def cps(s):
    return [ord(c) for c in s]


_CAP = {}
_ORIG_PARSE_FUNCTION = P._parse_function


def _capturing_parse_function(name, params_src, block, ctx, **kw):
    _CAP["ctx"] = ctx           # the tables (function_defs, ...) are created by parse() and shared by every child ctx
    return _ORIG_PARSE_FUNCTION(name, params_src, block, ctx, **kw)


P._parse_function = _capturing_parse_function


def _decls(prog):
    from Reduino.transpile import ast as A
    out = []

    def kind(node, hoisted):
        if isinstance(node, A.ServoDecl):
            return 1
        if isinstance(node, A.LCDDecl) and not hoisted:
            return 3 if node.interface == "i2c" else 2
        return 0

    for hoisted, body in ((False, prog.setup_body or []), (True, prog.loop_body or [])):
        for node in body:
            if type(node).__name__.endswith("Decl") and hasattr(node, "name") and type(node).__name__ != "VarDecl":
                out.append([node.name, kind(node, hoisted)])
    return out


def _fnsel(prog):
    ctx = _CAP.get("ctx")
    fns, ident = [], {}
    if ctx is not None:
        defs = ctx.get("function_defs", {})
        used = ctx.get("function_call_signatures", {})
        prim = ctx.get("function_primary_signature", {})
        alias = ctx.get("function_signature_aliases", {})
        for name, variants in defs.items():
            for sig, node in variants.items():
                ident[id(node)] = [name, list(sig)]
            fns.append({"name": name, "variants": [list(k) for k in variants.keys()],
                        "used": [list(k) for k in used.get(name, [])],
                        "aliases": [[list(a), list(c)] for a, c in alias.get(name, {}).items()],
                        "primary": list(prim[name]) if prim.get(name) is not None else None})
    selected = [ident.get(id(fn), [fn.name, None]) for fn in getattr(prog, "functions", [])]
    params = [[fn.name, [t for _, t in fn.params]] for fn in getattr(prog, "functions", [])]
    return {"fns": fns, "selected": selected, "params": params}



# ---------------------------------------------------------------- IR -> node encoding of coq/Lang/EmitScope.v (Wire op 9)
_TEMPLATE_CODE = {"ServoWrite": 10, "ServoWriteMicroseconds": 11, "DCMotorSetSpeed": 12, "DCMotorBackward": 13, "DCMotorInvert": 14,
                  "DCMotorRamp": 15, "DCMotorRunFor": 16, "RGBLedSetColor": 17, "RGBLedOn": 17, "RGBLedOff": 17, "LedSetBrightness": 18,
                  "LedBlink": 19, "RGBLedFade": 20, "RGBLedBlink": 21, "LedFadeIn": 22, "LedFadeOut": 22}
_PLAIN = {"VarAssign", "ExprStmt", "ReturnStmt", "BreakStmt", "ContinueStmt", "Sleep", "SerialWrite", "SerialMonitorDecl", "LedOn", "LedOff",
          "LedToggle", "BuzzerStop", "DCMotorStop", "DCMotorCoast", "LedDecl", "BuzzerDecl", "RGBLedDecl", "UltrasonicDecl", "ServoDecl",
          "DCMotorDecl", "PotentiometerDecl", "ButtonDecl", "LCDWrite", "LCDLine", "LCDMessage", "LCDClear", "LCDDisplay", "LCDBacklight",
          "LCDBrightness", "LCDProgress", "LCDAnimate", "LCDTick"}


def _is_lit(v):
    return 1 if isinstance(v, (int, float)) else 0


def _enc_nodes(nodes, out):
    for n in nodes or []:
        k = type(n).__name__
        if k in _TEMPLATE_CODE:
            out.append([_TEMPLATE_CODE[k]])
        elif k in _PLAIN:
            out.append([0])
        elif k == "VarDecl":
            out.append([0] if n.global_scope else [1, cps(n.name)])
        elif k == "IfStatement":
            for br in n.branches:
                out.append([2, []]); _enc_nodes(br.body, out); out.append([3])
            if n.else_body:
                out.append([2, []]); _enc_nodes(n.else_body, out); out.append([3])
        elif k == "WhileLoop":
            out.append([2, []]); _enc_nodes(n.body, out); out.append([3])
        elif k == "ForRangeLoop":
            out.append([2, [cps(n.var_name)]]); _enc_nodes(n.body, out); out.append([3])
        elif k == "Repeat":
            out.append([2, [cps("__i")]]); _enc_nodes(getattr(n, "body", []), out); out.append([3])
        elif k == "TryStatement":
            out.append([2, []]); _enc_nodes(n.try_body, out); out.append([3])
            for h in n.handlers:
                out.append([2, [cps(h.target)] if (h.exception and h.target) else []]); _enc_nodes(h.body, out); out.append([3])
        elif k == "ButtonPoll":
            out.append([4, cps(n.name)])
        elif k == "LCDDecl":
            out.append([5, cps(n.name)])
        elif k == "LCDGlyph":
            out.append([6, cps(n.name)])
        elif k == "LedFlashPattern":
            out.append([23, 0 if n.pattern else 1])
        elif k == "BuzzerPlayTone":
            dv = getattr(n, "duration_ms", None)
            out.append([24, 0 if dv is None else (1 if _is_lit(dv) else 2)])
        elif k == "BuzzerBeep":
            out.append([25, _is_lit(n.on_ms), _is_lit(n.off_ms)])
        elif k == "BuzzerSweep":
            out.append([26, _is_lit(n.duration_ms)])
        elif k == "BuzzerMelody":
            out.append([27, 1 if n.melody in E._BUZZER_MELODIES else 0])
        else:
            raise ValueError("IR node kind without an EmitScope encoding: " + k)
    return out


def _ir(prog):
    from Reduino.transpile import ast as A
    top = list(prog.setup_body or []) + list(prog.loop_body or [])
    return {"lcds": [cps(n.name) for n in top if isinstance(n, A.LCDDecl)],
            "buttons": [cps(n.name) for n in top if isinstance(n, A.ButtonDecl)],
            "setup": _enc_nodes(prog.setup_body, []), "loop": _enc_nodes(prog.loop_body, []),
            "fns": [[fn.name, [cps(p) for p, _ in fn.params], _enc_nodes(fn.body, [])] for fn in getattr(prog, "functions", [])]}


def main():
    req = json.load(sys.stdin)
    op = req["op"]
    if op == "escape":
        out = []
        for s in req["strings"]:
            out.append(cps(P._escape_string_literal("".join(chr(c) for c in s))))
        json.dump(out, sys.stdout)
        return
    if op == "to_c":
        out = []
        for s in req["exprs"]:
            src = "".join(chr(c) for c in s)
            try:
                out.append(cps(str(P._to_c_expr(src, {}))))
            except BaseException as e:  # noqa
                out.append(None)
        json.dump(out, sys.stdout)
        return
    if op == "transpile":
        per = int(req.get("timeout", 20))
        signal.signal(signal.SIGALRM, _alarm)
        res = []
        for src in req["sources"]:
            signal.alarm(per)
            try:
                if hasattr(P, "_VERIF_IGNORED"):
                    del P._VERIF_IGNORED[:]
                _CAP.clear()
                prog = P.parse(src)
                fnsel = _fnsel(prog)            # before emit(): read the parser's result, not what the emitter may touch
                decls = _decls(prog)
                try:
                    ir = _ir(prog)
                except ValueError as e:
                    ir = {"error": str(e)}
                cpp = E.emit(prog)
                res.append({"ok": True, "cpp": cpp, "decls": decls, "fnsel": fnsel, "ir": ir,
                            "functions": [fn.name for fn in getattr(prog, "functions", [])],
                            "helpers": sorted(getattr(prog, "helpers", []) or []),
                            "ignored": [list(map(str, x)) for x in getattr(P, "_VERIF_IGNORED", [])][:50]})
            except _Timeout:
                res.append({"ok": False, "exc": "Timeout", "msg": f"> {per}s"})
            except BaseException as e:  # noqa
                res.append({"ok": False, "exc": type(e).__name__, "msg": str(e)[:300]})
            finally:
                signal.alarm(0)
        consts = {"HEADER": E.HEADER, "LEN": E.LEN_HELPER_SNIPPET, "LIST": E.LIST_HELPER_SNIPPET,
                  "LCD": E.LCD_HELPER_SNIPPET, "SETUP_START": E.SETUP_START, "SETUP_END": E.SETUP_END,
                  "LOOP_START": E.LOOP_START, "LOOP_END": E.LOOP_END}
        # helper snippets of later versions of the emitter (// and % templates): present only when the emitter has them
        for key, attr in (("FLOORDIV", "FLOORDIV_HELPER_SNIPPET"), ("MOD", "MOD_HELPER_SNIPPET")):
            if isinstance(getattr(E, attr, None), str):
                consts[key] = getattr(E, attr)
        json.dump({"consts": consts, "results": res}, sys.stdout)
        return
    if op == "check_ident":
        # -> per name: 0 accepted (returns the name), 1 ValueError, [2, kind] anything else; null when the parser has no such function
        chk = getattr(P, "_check_identifier", None)
        out = []
        for s in req["names"]:
            n = "".join(chr(c) for c in s)
            if chk is None:
                out.append(None)
                continue
            try:
                r = chk(n)
                out.append(0 if r == n else [2, "returned " + repr(r)])
            except ValueError:
                out.append(1)
            except BaseException as e:  # noqa
                out.append([2, type(e).__name__])
        json.dump(out, sys.stdout)
        return
    if op == "exc_classes":
        # trees in the encoding of coq/Wire/C06W.v op 11, built with the real IR classes and put through the real emit():
        # -> per case {"classes": what _exception_classes returns for setup + loop + function bodies,
        #              "decls": the struct / namespace lines of the emitted text in text order, "catches": the catch headers in text order}
        from Reduino.transpile import ast as A
        res = []

        def build(v):
            if v[0] == 0:
                return A.TryStatement(try_body=[build(x) for x in v[1]],
                                      handlers=[A.CatchClause(exception=("".join(chr(c) for c in h[1]) if h[0] == 1 else None), target=None,
                                                              body=[build(x) for x in h[2]]) for h in v[2]])
            blocks = [[build(x) for x in b] for b in v[1]]
            if not blocks:
                return A.Sleep(ms=1)
            if len(blocks) == 1:
                return A.WhileLoop(condition="(digitalRead(2) == 1)", body=blocks[0]) if len(blocks[0]) % 2 else A.ForRangeLoop(var_name="i", count=2, body=blocks[0])
            return A.IfStatement(branches=[A.ConditionalBranch(condition="(digitalRead(3) == 1)", body=b) for b in blocks[:-1]], else_body=blocks[-1])

        for case in req["cases"]:
            try:
                setup, loop, fns = [build(x) for x in case[0]], [build(x) for x in case[1]], [[build(x) for x in f] for f in case[2]]
                prog = A.Program(setup_body=setup, loop_body=loop,
                                 functions=[A.FunctionDef(name=f"fn{k}", params=[], body=b, return_type="void") for k, b in enumerate(fns)])
                fn = getattr(E, "_exception_classes", None)
                handled = list(setup) + list(loop)
                for b in fns:
                    handled.extend(b)
                classes = [cps(c) for c in fn(handled)] if fn else None
                cpp = E.emit(prog)
                lines = cpp.splitlines()
                decls = [cps(l) for l in lines if l.startswith("struct ") or l.startswith("namespace ")]
                catches = [cps(l.strip()[len("catch ("):l.strip().index(")")]) for l in lines if l.strip().startswith("catch (")]
                res.append({"ok": True, "classes": classes, "decls": decls, "catches": catches, "cpp": cpp})
            except BaseException as e:  # noqa
                res.append({"ok": False, "exc": type(e).__name__, "msg": str(e)[:300]})
        json.dump(res, sys.stdout)
        return
    raise SystemExit("unknown op " + op)


main()
