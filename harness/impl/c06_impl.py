"""C06 implementation runner (JSON stdin -> JSON stdout), executed with PYTHONPATH=<repo>/src.

ops
  {"op": "escape", "strings": [[code points] ...]}
        -> [[code points of _escape_string_literal(s)] ...]
  {"op": "to_c", "exprs": [[code points of a Python expression source] ...]}
        -> the C++ text the real expression translator (_to_c_expr(src, {})) produces, as code
           points, or null when it raises
  {"op": "transpile", "sources": [...], "timeout": n}
        -> {"consts": {HEADER, LEN, LIST, LCD, SETUP_START, SETUP_END, LOOP_START, LOOP_END},
            "results": [{"ok": True, "cpp", "functions": [names], "helpers": [..],
                         "decls": [[name, kind]]   top-level device declarations in the order the emitter walks them
                                                   (setup_body, then the hoisted ones of loop_body); kind 0 no library,
                                                   1 Servo, 2 parallel LCD, 3 I2C LCD,
                         "fnsel": {"fns": [{"name", "variants": [sig], "used": [sig], "aliases": [[sig, sig]], "primary": sig|null}],
                                   "selected": [[name, sig]], "params": [[name, [C++ parameter types]]]}
                                                   the tables the selection loop at the end of parse() reads (captured from the
                                                   ctx that parse() hands to _parse_function), the (name, signature) of every
                                                   FunctionDef in Program.functions (by object identity), and their C++ parameters}
                        | {"ok": False, "exc", "msg"}]}
"""
import ast
import json
import signal
import sys

from Reduino.transpile import emitter as E
from Reduino.transpile import parser as P


class _Timeout(Exception):
    pass


def _alarm(signum, frame):
    raise _Timeout()


def cps(s):
    return [ord(c) for c in s]


_CAP = {}
_ORIG_PARSE_FUNCTION = P._parse_function


def _capturing_parse_function(name, params_src, block, ctx, **kw):
    _CAP["ctx"] = ctx           # the tables (function_defs, ...) are created by parse() and shared by every child ctx
    return _ORIG_PARSE_FUNCTION(name, params_src, block, ctx, **kw)


P._parse_function = _capturing_parse_function


def _decls(prog):
    from Reduino.transpile import ast as A
    out = []

    def kind(node, hoisted):
        if isinstance(node, A.ServoDecl):
            return 1
        if isinstance(node, A.LCDDecl) and not hoisted:
            return 3 if node.interface == "i2c" else 2
        return 0

    for hoisted, body in ((False, prog.setup_body or []), (True, prog.loop_body or [])):
        for node in body:
            if type(node).__name__.endswith("Decl") and hasattr(node, "name") and type(node).__name__ != "VarDecl":
                out.append([node.name, kind(node, hoisted)])
    return out


def _fnsel(prog):
    ctx = _CAP.get("ctx")
    fns, ident = [], {}
    if ctx is not None:
        defs = ctx.get("function_defs", {})
        used = ctx.get("function_call_signatures", {})
        prim = ctx.get("function_primary_signature", {})
        alias = ctx.get("function_signature_aliases", {})
        for name, variants in defs.items():
            for sig, node in variants.items():
                ident[id(node)] = [name, list(sig)]
            fns.append({"name": name, "variants": [list(k) for k in variants.keys()],
                        "used": [list(k) for k in used.get(name, [])],
                        "aliases": [[list(a), list(c)] for a, c in alias.get(name, {}).items()],
                        "primary": list(prim[name]) if prim.get(name) is not None else None})
    selected = [ident.get(id(fn), [fn.name, None]) for fn in getattr(prog, "functions", [])]
    params = [[fn.name, [t for _, t in fn.params]] for fn in getattr(prog, "functions", [])]
    return {"fns": fns, "selected": selected, "params": params}


def main():
    req = json.load(sys.stdin)
    op = req["op"]
    if op == "escape":
        out = []
        for s in req["strings"]:
            out.append(cps(P._escape_string_literal("".join(chr(c) for c in s))))
        json.dump(out, sys.stdout)
        return
    if op == "to_c":
        out = []
        for s in req["exprs"]:
            src = "".join(chr(c) for c in s)
            try:
                out.append(cps(str(P._to_c_expr(src, {}))))
            except BaseException as e:  # noqa
                out.append(None)
        json.dump(out, sys.stdout)
        return
    if op == "transpile":
        per = int(req.get("timeout", 20))
        signal.signal(signal.SIGALRM, _alarm)
        res = []
        for src in req["sources"]:
            signal.alarm(per)
            try:
                if hasattr(P, "_VERIF_IGNORED"):
                    del P._VERIF_IGNORED[:]
                _CAP.clear()
                prog = P.parse(src)
                fnsel = _fnsel(prog)            # before emit(): read the parser's result, not what the emitter may touch
                decls = _decls(prog)
                cpp = E.emit(prog)
                res.append({"ok": True, "cpp": cpp, "decls": decls, "fnsel": fnsel,
                            "functions": [fn.name for fn in getattr(prog, "functions", [])],
                            "helpers": sorted(getattr(prog, "helpers", []) or []),
                            "ignored": [list(map(str, x)) for x in getattr(P, "_VERIF_IGNORED", [])][:50]})
            except _Timeout:
                res.append({"ok": False, "exc": "Timeout", "msg": f"> {per}s"})
            except BaseException as e:  # noqa
                res.append({"ok": False, "exc": type(e).__name__, "msg": str(e)[:300]})
            finally:
                signal.alarm(0)
        consts = {"HEADER": E.HEADER, "LEN": E.LEN_HELPER_SNIPPET, "LIST": E.LIST_HELPER_SNIPPET,
                  "LCD": E.LCD_HELPER_SNIPPET, "SETUP_START": E.SETUP_START, "SETUP_END": E.SETUP_END,
                  "LOOP_START": E.LOOP_START, "LOOP_END": E.LOOP_END}
        json.dump({"consts": consts, "results": res}, sys.stdout)
        return
    raise SystemExit("unknown op " + op)


main()
