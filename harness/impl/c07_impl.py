"""Implementation side of C07: runs the real lexical functions of Reduino's parser (and the real
parse() under a call recorder, and CPython's own tokenizer/ast for the spec validation) on JSON
cases from stdin, prints JSON.  Nothing in /repo is modified: the recorder wraps the module
attribute `_parse_simple_lines` of the imported module for the duration of this process."""
import ast
import io
import json
import signal
import sys
import tokenize

import Reduino.transpile.parser as P
from Reduino.transpile.emitter import emit

TRACE = []
_orig_psl = P._parse_simple_lines
SCOPES = {"setup": 0, "loop": 1, "function": 2}


def _recording_psl(snippet, ctx, scope, depth=0, *, loop_depth=0, main_loop=False):
    TRACE.append([SCOPES.get(scope, 9), depth, list(snippet)])
    return _orig_psl(snippet, ctx, scope, depth, loop_depth=loop_depth, main_loop=main_loop)


P._parse_simple_lines = _recording_psl


class _Timeout(Exception):
    pass


def _alarm(signum, frame):
    raise _Timeout()


def src_of(lines):
    return "".join(l + "\n" for l in lines)


def do_trace(lines):
    """real parse()+emit() of the script; -> calls of _parse_simple_lines, exception kind, emitted
    text, and the lines the env-guarded hook (_VERIF_IGNORED, REDUINO_VERIF=1) reports as skipped"""
    del TRACE[:]
    hook = getattr(P, "_VERIF_IGNORED", None)
    if hook is not None:
        del hook[:]
    exc = None
    cpp = None
    try:
        prog = P.parse(src_of(lines))
        tr = [list(t) for t in TRACE]
        try:
            cpp = emit(prog)
        except BaseException as e:  # noqa
            exc = "emit:" + type(e).__name__
    except _Timeout:
        raise
    except BaseException as e:  # noqa
        tr = [list(t) for t in TRACE]
        exc = type(e).__name__
    ign = None if hook is None else [[SCOPES.get(a, 9), b, c, d] for (a, b, c, d) in hook]
    return {"trace": tr, "exc": exc, "cpp": cpp, "ignored": ign}


# ---------------------------------------------------------------- the emitter on hand-built IR
import Reduino.transpile.ast as A
import Reduino.transpile.emitter as E


def _leaf(spec):
    """leaf spec [class name, *positional args] -> a real IR node"""
    return getattr(A, spec[0])(*spec[1:])


def build_ir(t):
    k = t[0]
    if k == "leaf":
        return _leaf(t[1])
    if k == "if":
        return A.IfStatement(branches=[A.ConditionalBranch(condition=c, body=[build_ir(x) for x in b]) for c, b in t[1]],
                             else_body=[build_ir(x) for x in t[2]])
    if k == "while":
        return A.WhileLoop(condition=t[1], body=[build_ir(x) for x in t[2]])
    if k == "for":
        return A.ForRangeLoop(var_name=t[1], count=t[2], body=[build_ir(x) for x in t[3]])
    if k == "try":
        return A.TryStatement(try_body=[build_ir(x) for x in t[1]],
                              handlers=[A.CatchClause(exception=e, target=g, body=[build_ir(x) for x in b]) for e, g, b in t[2]])
    raise ValueError(k)


def real_emit_block(nodes, indent):
    """the real _emit_block with a Led `led` on pin 13 known to the state dictionaries"""
    return E._emit_block(nodes, {"led": 13}, {"led": "__state_led"}, {"led": "__brightness_led"}, {}, {}, {}, {}, {}, {}, {}, {}, {},
                         {}, {}, {}, {}, {}, {}, {}, {}, {}, indent, in_setup=False, emitted_pin_modes=set(), ultrasonic_pin_modes=set())


def do_emitblock(indent, trees):
    try:
        return {"lines": real_emit_block([build_ir(t) for t in trees], indent), "exc": None}
    except _Timeout:
        raise
    except BaseException as e:  # noqa
        return {"lines": None, "exc": type(e).__name__}


def do_emitprog(setup, loop, funcs):
    """the real emit() on a Program whose bodies are hand-built IR (functions: [name, trees])"""
    try:
        prog = A.Program(setup_body=[build_ir(t) for t in setup], loop_body=[build_ir(t) for t in loop],
                         functions=[A.FunctionDef(name=n, params=[], body=[build_ir(t) for t in b], return_type="void") for n, b in funcs])
        return {"cpp": E.emit(prog), "exc": None}
    except _Timeout:
        raise
    except BaseException as e:  # noqa
        return {"cpp": None, "exc": type(e).__name__}


# ---------------------------------------------------------------- third round: promotion rewrite, stateful _emit_block
_LEAF_IDS = {}


def build_any(t):
    """grouped JSON tree -> real IR; besides build_ir's kinds: ["decl", name, c_type, expr, global] / ["assign", name, expr]"""
    k = t[0]
    if k == "decl":
        return A.VarDecl(name=t[1], c_type=t[2], expr=t[3], global_scope=bool(t[4]))
    if k == "assign":
        return A.VarAssign(name=t[1], expr=t[2])
    if k == "leaf":
        n = _leaf(t[1])
        _LEAF_IDS[id(n)] = (n, t[1])
        return n
    if k == "if":
        return A.IfStatement(branches=[A.ConditionalBranch(condition=c, body=[build_any(x) for x in b]) for c, b in t[1]],
                             else_body=[build_any(x) for x in t[2]])
    if k == "while":
        return A.WhileLoop(condition=t[1], body=[build_any(x) for x in t[2]])
    if k == "for":
        return A.ForRangeLoop(var_name=t[1], count=t[2], body=[build_any(x) for x in t[3]])
    if k == "try":
        return A.TryStatement(try_body=[build_any(x) for x in t[1]],
                              handlers=[A.CatchClause(exception=e, target=g, body=[build_any(x) for x in b]) for e, g, b in t[2]])
    raise ValueError(k)


def ser_any(n):
    if isinstance(n, A.VarDecl):
        return ["decl", n.name, n.c_type, n.expr, bool(n.global_scope)]
    if isinstance(n, A.VarAssign):
        return ["assign", n.name, n.expr]
    if isinstance(n, A.IfStatement):
        return ["if", [[b.condition, [ser_any(x) for x in b.body]] for b in n.branches], [ser_any(x) for x in n.else_body]]
    if isinstance(n, A.WhileLoop):
        return ["while", n.condition, [ser_any(x) for x in n.body]]
    if isinstance(n, A.ForRangeLoop):
        return ["for", n.var_name, n.count, [ser_any(x) for x in n.body]]
    if isinstance(n, A.TryStatement):
        return ["try", [ser_any(x) for x in n.try_body], [[h.exception, h.target, [ser_any(x) for x in h.body]] for h in n.handlers]]
    if id(n) in _LEAF_IDS and _LEAF_IDS[id(n)][0] is n:
        return ["leaf", _LEAF_IDS[id(n)][1]]
    return ["other", repr(n)]


def do_rewrite(names, trees):
    """the real _rewrite_nodes"""
    _LEAF_IDS.clear()
    try:
        out = P._rewrite_nodes([build_any(t) for t in trees], set(names))
        return {"nodes": [ser_any(n) for n in out], "exc": None}
    except _Timeout:
        raise
    except BaseException as e:  # noqa
        return {"nodes": None, "exc": type(e).__name__}


def do_promodecls(names, tys, top):
    """the real _make_promotion_decls; tys = ctx["_promotion_cpp_types"]"""
    try:
        ctx = {"globals": [], "var_declared": set(), "vars": {}, "var_types": {}, "_promotion_cpp_types": dict(tys)}
        out = P._make_promotion_decls(list(names), ctx, "setup" if top else "function", 0 if top else 1)
        return {"nodes": [ser_any(n) for n in out], "globals": [ser_any(n) for n in ctx["globals"]], "exc": None}
    except _Timeout:
        raise
    except BaseException as e:  # noqa
        return {"nodes": None, "globals": None, "exc": type(e).__name__}


def do_emitstate(in_setup, indent, pm, us, trees):
    """the real _emit_block with given de-duplication sets; -> lines, the sets afterwards"""
    try:
        spm, sus = {tuple(k) for k in pm}, {tuple(k) for k in us}
        lines = E._emit_block([build_any(t) for t in trees], {"led": 13}, {"led": "__state_led"}, {"led": "__brightness_led"}, {}, {}, {}, {}, {}, {},
                              {}, {}, {}, {}, {}, {}, {}, {}, {}, {}, {}, {}, indent, in_setup=bool(in_setup), emitted_pin_modes=spm,
                              ultrasonic_pin_modes=sus)
        return {"lines": lines, "pm": sorted(list(k) for k in spm), "us": sorted(list(k) for k in sus), "exc": None}
    except _Timeout:
        raise
    except BaseException as e:  # noqa
        return {"lines": None, "pm": None, "us": None, "exc": type(e).__name__}


def span(fn, lines, start):
    try:
        blk, i = fn(list(lines), start)
    except IndexError:
        return ["IndexError"]
    return [blk, i]


REGEXES = ["RE_IF", "RE_ELIF", "RE_ELSE", "RE_TRY", "RE_EXCEPT", "RE_WHILE", "RE_WHILE_TRUE", "RE_FOR_RANGE", "RE_DEF"]
TOP_IMPORTS = ["RE_IMPORT_LED", "RE_IMPORT_SLEEP", "RE_IMPORT_SERIAL", "RE_IMPORT_TARGET", "RE_IMPORT_CORE",
               "RE_IMPORT_ULTRASONIC", "RE_IMPORT_BUTTON", "RE_IMPORT_POTENTIOMETER"]


def do_regex(t):
    out = [bool(getattr(P, n).match(t)) for n in REGEXES]
    if hasattr(P, "RE_IMPORT_ANY"):
        # since "fix: reject statements the transpiler cannot translate instead of dropping them": parse() asks _import_end,
        # which decides with this one pattern (checked by the translator harness/gen/linerx.py)
        out.append(bool(P.RE_IMPORT_ANY.match(t)))
    else:
        out.append(any(getattr(P, n).match(t) for n in TOP_IMPORTS))
    return out


# ---------------------------------------------------------------- CPython as the reference for the SPEC
def py_comment(line):
    """-> (code_part, has_comment) according to CPython's tokenizer, or None if the line does not tokenize"""
    try:
        toks = list(tokenize.generate_tokens(io.StringIO(line + "\n").readline))
    except (tokenize.TokenError, SyntaxError, IndentationError):
        return None
    for t in toks:
        if t.type == tokenize.ERRORTOKEN:
            return None
    for t in toks:
        if t.type == tokenize.COMMENT:
            return [line[: t.start[1]], True]
    return [line, False]


def py_blocks(lines):
    """-> for every compound-statement header line (0-based) the 0-based numbers of the logical
    lines that CPython's parser puts into its block (all nesting levels below it), or None."""
    src = src_of(lines)
    try:
        tree = ast.parse(src)
    except SyntaxError:
        return None
    out = {}

    def stmts_lines(stmts):
        ls = []
        for s in stmts:
            for n in ast.walk(s):
                if isinstance(n, ast.stmt):
                    ls.append(n.lineno - 1)
                if isinstance(n, ast.ExceptHandler):
                    ls.append(n.lineno - 1)
        return ls

    def visit(stmts):
        for s in stmts:
            for field in ("body", "orelse", "finalbody"):
                sub = getattr(s, field, None)
                if isinstance(sub, list) and sub and isinstance(sub[0], ast.stmt):
                    if field == "body":
                        hdr = s.lineno - 1
                    else:
                        hdr = None  # else/finally header line is not an ast node; found by the harness
                    if hdr is not None:
                        out[hdr] = sorted(set(stmts_lines(sub)))
                    visit(sub)
            for h in getattr(s, "handlers", []) or []:
                out[h.lineno - 1] = sorted(set(stmts_lines(h.body)))
                visit(h.body)
    visit(tree.body)
    return {str(k): v for k, v in out.items()}


def py_indent_cols(lines):
    """-> column (tab stops of 8) CPython's tokenizer assigns to the first token of each logical line,
    via INDENT/DEDENT bookkeeping is not exposed; we expand tabs the way the reference manual says
    and let the ast check confirm the block structure.  Here: the tokenizer's own start column is a
    character offset, so we only return whether the script tokenizes."""
    try:
        list(tokenize.generate_tokens(io.StringIO(src_of(lines)).readline))
        return True
    except (tokenize.TokenError, SyntaxError, IndentationError):
        return False


# ---------------------------------------------------------------------------------------------
# statement recognisers: the real RE_* patterns, and the real dispatch loop under recording proxies
import re as _re

RX_NAMES = sorted(n for n in dir(P) if n.startswith("RE_") and isinstance(getattr(P, n), _re.Pattern))
RX_REAL = {n: getattr(P, n) for n in RX_NAMES}
RXLOG = []


class _RxProxy:
    """stands in for a compiled pattern in the parser module's globals; records every match / finditer"""

    def __init__(self, name, pat):
        self._name, self._pat = name, pat

    def match(self, s, *a):
        m = self._pat.match(s, *a)
        RXLOG.append([RX_NAMES.index(self._name), bool(m)])
        return m

    def finditer(self, s, *a):
        ms = list(self._pat.finditer(s, *a))
        RXLOG.append([RX_NAMES.index(self._name), bool(ms)])
        return iter(ms)

    def __getattr__(self, a):
        return getattr(self._pat, a)


def do_rxall(line):
    """every RE_* pattern on the line: match() for ^...$ patterns, a non-empty finditer() for the searched one"""
    out = []
    for n in RX_NAMES:
        pat = RX_REAL[n]
        out.append(bool(list(pat.finditer(line))) if not pat.pattern.startswith("^") else bool(pat.match(line)))
    return out


def do_dispatch(line, sets):
    """the real _parse_simple_lines on the one-line snippet [line] with the given device-name sets;
    -> patterns tried in order with their outcome, whether _handle_assignment_ast took the line,
       what came out (exception kind / node class names / the hook's reason for a skipped line)"""
    hook = getattr(P, "_VERIF_IGNORED", None)
    if hook is not None:
        del hook[:]
    del RXLOG[:]
    asg = []
    orig_asg = P._handle_assignment_ast

    def rec_asg(*a, **k):
        try:
            r = orig_asg(*a, **k)
        except BaseException:
            asg.append(True)
            raise
        asg.append(r is not None)
        return r
    ctx = {"target_port": None, "vars": {}, "globals": [], "var_types": {}, "var_declared": set(), "helpers": set(),
           "functions": {}, "function_param_types": {}, "function_param_orders": {}, "current_function": {}}
    for k, v in sets.items():
        ctx[k] = set(v)
    for n in RX_NAMES:
        setattr(P, n, _RxProxy(n, RX_REAL[n]))
    P._handle_assignment_ast = rec_asg
    exc, nodes = None, None
    try:
        nodes = _orig_psl([line], ctx, "function", 1, loop_depth=1, main_loop=False)
    except _Timeout:
        raise
    except BaseException as e:  # noqa
        exc = type(e).__name__
    finally:
        for n in RX_NAMES:
            setattr(P, n, RX_REAL[n])
        P._handle_assignment_ast = orig_asg
    try:
        import ast as _ast
        _ast.parse(line, mode="eval")
        isexpr = True
    except SyntaxError:
        isexpr = False
    return {"trace": [list(t) for t in RXLOG], "asg": (asg[0] if asg else None), "exc": exc, "isexpr": isexpr,
            "nodes": None if nodes is None else [type(x).__name__ for x in nodes],
            "repr": None if nodes is None else repr(nodes),
            "ignored": None if hook is None else [list(e) for e in hook]}


def py_tokens(line):
    """CPython's token stream of the line without positions (what the tokenizer treats as the same statement)"""
    try:
        toks = list(tokenize.generate_tokens(io.StringIO(line + "\n").readline))
    except (tokenize.TokenError, SyntaxError, IndentationError):
        return None
    return [[t.type, t.string] for t in toks if t.type not in (tokenize.NEWLINE, tokenize.NL, tokenize.ENDMARKER, tokenize.COMMENT)]


def main():
    req = json.load(sys.stdin)
    signal.signal(signal.SIGALRM, _alarm)
    out = []
    for c in req["cases"]:
        op = c[0]
        signal.alarm(20)
        try:
            if op == "indent":
                out.append(P._indent_of(c[1]))
            elif op == "strip":
                out.append(P._strip_inline_comment(c[1]))
            elif op == "block":
                out.append(span(P._collect_block, c[1], c[2]))
            elif op == "ifs":
                out.append(span(P._collect_if_structure, c[1], c[2]))
            elif op == "trys":
                out.append(span(P._collect_try_structure, c[1], c[2]))
            elif op == "trace":
                out.append(do_trace(c[1]))
            elif op == "regex":
                out.append(do_regex(c[1]))
            elif op == "pycomment":
                out.append(py_comment(c[1]))
            elif op == "pyblocks":
                out.append(py_blocks(c[1]))
            elif op == "emitblock":
                out.append(do_emitblock(c[1], c[2]))
            elif op == "leaflines":
                out.append(do_emitblock("", [["leaf", c[1]]]))
            elif op == "emitprog":
                out.append(do_emitprog(c[1], c[2], c[3]))
            elif op == "rewrite":
                out.append(do_rewrite(c[1], c[2]))
            elif op == "promodecls":
                out.append(do_promodecls(c[1], c[2], c[3]))
            elif op == "emitstate":
                out.append(do_emitstate(c[1], c[2], c[3], c[4], c[5]))
            elif op == "rxall":
                out.append(do_rxall(c[1]))
            elif op == "dispatch":
                out.append(do_dispatch(c[1], c[2]))
            elif op == "rxnames":
                out.append(RX_NAMES)
            elif op == "pytokens":
                out.append(py_tokens(c[1]))
            elif op == "pycompiles":
                try:
                    compile(src_of(c[1]), "<c07>", "exec")
                    out.append(True)
                except (SyntaxError, ValueError):
                    out.append(False)
            else:
                out.append({"bad-op": op})
        except _Timeout:
            out.append({"exc": "Timeout"})
        finally:
            signal.alarm(0)
    json.dump(out, sys.stdout)


main()
