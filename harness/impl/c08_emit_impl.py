"""Implementation side of C08, emitter stage: runs the REAL parse()+emit() on call scripts and the REAL host
classes under CPython on the same call.  JSON on stdin -> JSON on stdout.

request {"op": "calls", "cases": [case, ...], "want_cpp": bool}
  case = {"row", "pos": [src...], "kws": [[name, src]...]}          (same format as c08_impl.py)
  -> per case {"script", "status": "ok"|"raised", "exc", "sha": hash of the whole emitted sketch, "cpp"?,
               "block": the emitted lines the call adds to the sketch (multiset difference against the sketch
                        of the declaration lines alone), "host": outcome of the same call on the real host class}
  host outcome = {"exc": kind} | {"state": canonical attribute snapshot of the receiver / the new object /
                 the Core pin tables, "sleeps": [...], "ret": ...}

request {"op": "probe", "nodes": [{"kind", "fields": {...}, "name"?}, ...]}
  builds the IR node DIRECTLY (Reduino.transpile.ast dataclass) after the declaration of its device, emits the
  program and returns the lines the node adds: {"ok", "block": [...]} | {"ok": False, "exc"}.  A field value
  {"expr": "text"} is a C expression string, {"float": [n, d]} a float, anything else is passed as is.

request {"op": "batch", "scripts": [src, ...]} -> [{"ok", "cpp"} | {"ok": False, "exc", "msg"}]
"""
import collections
import dataclasses
import hashlib
import importlib
import json
import sys

import c08_impl as B


def sketch_of(script, parse, emit):
    return emit(parse(script))


def added_lines(cpp, base):
    """lines of cpp that are not in base (multiset difference, order of cpp kept)"""
    have = collections.Counter(base.splitlines())
    out = []
    for ln in cpp.splitlines():
        if have.get(ln, 0) > 0:
            have[ln] -= 1
        else:
            out.append(ln.strip())
    return out


def canon_host(v, depth=0):
    from fractions import Fraction
    if v is None:
        return v
    if isinstance(v, (bool, int, float)):      # False == 0 == 0.0 in Python: one canonical number
        try:
            f = Fraction(v)
            return {"n": [f.numerator, f.denominator]}
        except (ValueError, OverflowError):
            return {"special": repr(v)}
    if isinstance(v, str):
        return v
    if depth > 6:
        return "<deep>"
    if isinstance(v, (list, tuple)):
        return [canon_host(x, depth + 1) for x in v]
    if isinstance(v, (set, frozenset)):
        return sorted((json.dumps(canon_host(x, depth + 1), sort_keys=True) for x in v))
    if isinstance(v, dict):
        return {str(k): canon_host(x, depth + 1) for k, x in sorted(v.items(), key=lambda kv: str(kv[0]))}
    if callable(v):
        return "<callable %s>" % getattr(v, "__name__", type(v).__name__)
    if hasattr(v, "__dict__"):
        return {"<obj>": type(v).__name__, "vars": canon_host(vars(v), depth + 1)}
    return "<%s>" % type(v).__name__


def host_outcome(spec, case):
    """the same call on the real host class (CPython binds the arguments)"""
    import Reduino.Utils as U
    import Reduino.Core as K
    sleeps = []

    def rec_sleep(duration, *a, **k):
        sleeps.append(duration)

    U.sleep = rec_sleep
    for modname, mod in list(sys.modules.items()):
        if modname.startswith("Reduino") and mod is not None and getattr(mod, "sleep", None) is not None:
            try:
                mod.sleep = rec_sleep
            except Exception:  # noqa: BLE001
                pass
    for d in (K._pin_modes, K._digital_values, K._analog_values):
        d.clear()
    ns = {}
    exec("from Reduino.Actuators import *\nfrom Reduino.Sensors import *\nfrom Reduino.Displays import *\n"
         "from Reduino.Communication import *\nfrom Reduino.Core import *\n", ns)
    ns["cb7"] = ns["sp8"] = ns["vp9"] = ns["dp9"] = None
    argtext = ", ".join(list(case["pos"]) + [f"{k}={v}" for k, v in case["kws"]])
    try:
        for ln in spec["pre"]:
            exec(ln, ns)
        del sleeps[:]
        line = spec["call"].format(a=argtext)
        if line.startswith("x = "):
            exec(line, ns)
            ret = ns.get("x")
        elif line.startswith("dev = "):
            exec(line, ns)
            ret = None
        else:
            ret = eval(line, ns)
    except BaseException as e:  # noqa: BLE001
        return {"exc": type(e).__name__}
    state = {}
    dev = ns.get("dev")
    if dev is not None:
        state["dev"] = canon_host(vars(dev))
    state["core"] = canon_host([K._pin_modes, K._digital_values, K._analog_values])
    return {"state": state, "sleeps": canon_host(sleeps), "ret": canon_host(ret)}


def run_calls(req, parse, emit):
    out = []
    base_cache = {}
    for case in req["cases"]:
        spec = B.ROWS[case["row"]]
        argtext = ", ".join(list(case["pos"]) + [f"{k}={v}" for k, v in case["kws"]])
        pre = spec["pre"]
        script = "\n".join(pre + [spec["call"].format(a=argtext)]) + "\n"
        res = {"script": script}
        try:
            cpp = sketch_of(script, parse, emit)
            key = "\n".join(pre)
            if key not in base_cache:
                try:
                    base_cache[key] = sketch_of(key + "\n", parse, emit) if pre else sketch_of("\n", parse, emit)
                except Exception:  # noqa: BLE001
                    base_cache[key] = ""
            res.update(status="ok", sha=hashlib.sha256(cpp.encode()).hexdigest()[:20], block=added_lines(cpp, base_cache[key]))
            if req.get("want_cpp"):
                res["cpp"] = cpp
        except Exception as e:  # noqa: BLE001
            res.update(status="raised", exc=B.exc_kind(e))
        if not req.get("no_host"):
            res["host"] = host_outcome(spec, case)
        out.append(res)
    return out


# -------------------------------------------------------------------------------------------------
# direct IR probes of the emitter
# -------------------------------------------------------------------------------------------------
def decode_field(v):
    if isinstance(v, dict) and "expr" in v:
        return v["expr"]
    if isinstance(v, dict) and "float" in v:
        return v["float"][0] / v["float"][1]
    if isinstance(v, dict) and "tuple" in v:
        return tuple(decode_field(x) for x in v["tuple"])
    if isinstance(v, list):
        return [decode_field(x) for x in v]
    return v


def run_probes(req, parse, emit):
    import Reduino.transpile.ast as A
    out = []
    base_cache = {}
    for pr in req["nodes"]:
        pre = "\n".join(pr.get("pre", [])) + "\n"
        try:
            if pre not in base_cache:
                base_cache[pre] = emit(parse(pre))
            prog = parse(pre)
            cls = getattr(A, pr["kind"])
            fields = {k: decode_field(v) for k, v in pr["fields"].items()}
            node = cls(name="dev", **fields)
            if pr.get("where", "setup") == "setup":
                prog.setup_body.append(node)
            else:
                prog.loop_body.append(node)
            cpp = emit(prog)
            out.append({"ok": True, "block": added_lines(cpp, base_cache[pre])})
        except Exception as e:  # noqa: BLE001
            out.append({"ok": False, "exc": B.exc_kind(e), "msg": str(e)[:200]})
    return out


def main():
    req = json.load(sys.stdin)
    from Reduino.transpile.parser import parse
    from Reduino.transpile.emitter import emit
    if req["op"] == "calls":
        json.dump(run_calls(req, parse, emit), sys.stdout)
    elif req["op"] == "probe":
        json.dump(run_probes(req, parse, emit), sys.stdout)
    elif req["op"] == "batch":
        out = []
        for src in req["scripts"]:
            try:
                out.append({"ok": True, "cpp": emit(parse(src))})
            except Exception as e:  # noqa: BLE001
                out.append({"ok": False, "exc": B.exc_kind(e), "msg": str(e)[:300]})
        json.dump(out, sys.stdout)
    else:
        raise SystemExit("unknown op")


if __name__ == "__main__":
    main()
