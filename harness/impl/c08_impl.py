"""Implementation side of C08: runs the REAL Reduino.transpile.parser.parse on one-call
scripts and reads which argument went to which IR field; evaluates Python's own binder
(inspect.signature(...).bind) on the REAL host callables.  JSON on stdin -> JSON on stdout.

The one table that maps IR fields to parameter names is ROWS below.

request  {"op": "rows"}                         -> signatures + row table (for the harness)
request  {"op": "run", "cases": [case, ...]}    -> one result per case
  case = {"row": "RGBLed.on", "pos": [src, ...], "kws": [[name, src], ...], "py_only": false}
  (argument values are Python *source literals*, chosen by the harness, distinct per parameter;
   py_only: evaluate Python's binder only, do not transpile)
"""
import dataclasses
import importlib
import inspect
import json
import re
import sys

# ---------------------------------------------------------------------------------------
# row table.  target = (module, attribute path) of the real host callable;
#   pre    : lines declaring the receiver with a plain constructor
#   call   : the line under test, "{a}" = the argument text
#   node   : class name of the IR node (Reduino.transpile.ast) to locate (field name == "dev")
#            or "expr": the call is an expression; its C text is found in an `expr` field
#            and taken apart with the regex `cexpr` (one group per entry of `groups`)
#   fields : parameter name -> IR field name   (parameters not listed have no IR field)
# ---------------------------------------------------------------------------------------
A = "Reduino.Actuators"
S = "Reduino.Sensors"
D = "Reduino.Displays"
CM = "Reduino.Communication"
CO = "Reduino.Core"

LED = ["dev = Led(13)"]
RGB = ["dev = RGBLed(3, 5, 6)"]
BUZ = ["dev = Buzzer(8)"]
SRV = ["dev = Servo(9)"]
MOT = ["dev = DCMotor(2, 3, 4)"]
LCDP = ["dev = LCD(rs=12, en=11, d4=5, d5=4, d6=3, d7=2, backlight_pin=9)"]
BTN = ["dev = Button(2)"]
POT = ['dev = Potentiometer("A0")']
ULT = ["dev = Ultrasonic(7, 8)"]
SER = ["dev = SerialMonitor(9600)"]


def stmt(target, pre, call, node, fields):
    return {"target": target, "pre": pre, "call": call, "node": node, "fields": fields}


def expr(target, pre, call, cexpr, groups=()):
    return {"target": target, "pre": pre, "call": call, "node": "expr", "cexpr": cexpr, "groups": list(groups),
            "fields": {g: g for g in groups}}


def same(*names):
    return {n: n for n in names}


ROWS = {
    # ---- constructors
    "Led.__init__": stmt((A, "Led"), [], "dev = Led({a})", "LedDecl", same("pin")),
    "RGBLed.__init__": stmt((A, "RGBLed"), [], "dev = RGBLed({a})", "RGBLedDecl", same("red_pin", "green_pin", "blue_pin")),
    "Buzzer.__init__": stmt((A, "Buzzer"), [], "dev = Buzzer({a})", "BuzzerDecl", same("pin", "default_frequency")),
    "Servo.__init__": stmt((A, "Servo"), [], "dev = Servo({a})", "ServoDecl",
                           same("pin", "min_angle", "max_angle", "min_pulse_us", "max_pulse_us")),
    "DCMotor.__init__": stmt((A, "DCMotor"), [], "dev = DCMotor({a})", "DCMotorDecl", same("in1", "in2", "enable")),
    "LCD.__init__": stmt((D, "LCD"), [], "dev = LCD({a})", "LCDDecl",
                         same("rs", "en", "d4", "d5", "d6", "d7", "cols", "rows", "rw", "backlight_pin", "i2c_addr")),
    "Button.__init__": stmt((S, "Button"), [], "dev = Button({a})", "ButtonDecl", same("pin", "on_click")),
    "Potentiometer.__init__": stmt((S, "Potentiometer"), [], "dev = Potentiometer({a})", "PotentiometerDecl", same("pin")),
    "Ultrasonic.__init__": stmt((S, "Ultrasonic"), [], "dev = Ultrasonic({a})", "UltrasonicDecl", same("trig", "echo")),
    "SerialMonitor.__init__": stmt((CM, "SerialMonitor"), [], "dev = SerialMonitor({a})", "SerialMonitorDecl", {"baud_rate": "baud"}),
    # ---- Led
    "Led.on": stmt((A, "Led.on"), LED, "dev.on({a})", "LedOn", {}),
    "Led.off": stmt((A, "Led.off"), LED, "dev.off({a})", "LedOff", {}),
    "Led.toggle": stmt((A, "Led.toggle"), LED, "dev.toggle({a})", "LedToggle", {}),
    "Led.get_state": expr((A, "Led.get_state"), LED, "x = dev.get_state({a})", r"__state_dev"),
    "Led.get_brightness": expr((A, "Led.get_brightness"), LED, "x = dev.get_brightness({a})", r"__brightness_dev"),
    "Led.set_brightness": stmt((A, "Led.set_brightness"), LED, "dev.set_brightness({a})", "LedSetBrightness", same("value")),
    "Led.blink": stmt((A, "Led.blink"), LED, "dev.blink({a})", "LedBlink", same("duration_ms", "times")),
    "Led.fade_in": stmt((A, "Led.fade_in"), LED, "dev.fade_in({a})", "LedFadeIn", same("step", "delay_ms")),
    "Led.fade_out": stmt((A, "Led.fade_out"), LED, "dev.fade_out({a})", "LedFadeOut", same("step", "delay_ms")),
    "Led.flash_pattern": stmt((A, "Led.flash_pattern"), LED, "dev.flash_pattern({a})", "LedFlashPattern", same("pattern", "delay_ms")),
    # ---- RGBLed
    "RGBLed.on": stmt((A, "RGBLed.on"), RGB, "dev.on({a})", "RGBLedOn", same("red", "green", "blue")),
    "RGBLed.off": stmt((A, "RGBLed.off"), RGB, "dev.off({a})", "RGBLedOff", {}),
    "RGBLed.set_color": stmt((A, "RGBLed.set_color"), RGB, "dev.set_color({a})", "RGBLedSetColor", same("red", "green", "blue")),
    "RGBLed.fade": stmt((A, "RGBLed.fade"), RGB, "dev.fade({a})", "RGBLedFade", same("red", "green", "blue", "duration_ms", "steps")),
    "RGBLed.blink": stmt((A, "RGBLed.blink"), RGB, "dev.blink({a})", "RGBLedBlink", same("red", "green", "blue", "times", "delay_ms")),
    # ---- Buzzer
    "Buzzer.play_tone": stmt((A, "Buzzer.play_tone"), BUZ, "dev.play_tone({a})", "BuzzerPlayTone", same("frequency", "duration_ms")),
    "Buzzer.stop": stmt((A, "Buzzer.stop"), BUZ, "dev.stop({a})", "BuzzerStop", {}),
    "Buzzer.beep": stmt((A, "Buzzer.beep"), BUZ, "dev.beep({a})", "BuzzerBeep", same("frequency", "on_ms", "off_ms", "times")),
    "Buzzer.sweep": stmt((A, "Buzzer.sweep"), BUZ, "dev.sweep({a})", "BuzzerSweep", same("start_hz", "end_hz", "duration_ms", "steps")),
    "Buzzer.melody": stmt((A, "Buzzer.melody"), BUZ, "dev.melody({a})", "BuzzerMelody", {"name": "melody", "tempo": "tempo"}),
    # ---- Servo
    "Servo.write": stmt((A, "Servo.write"), SRV, "dev.write({a})", "ServoWrite", same("angle")),
    "Servo.write_us": stmt((A, "Servo.write_us"), SRV, "dev.write_us({a})", "ServoWriteMicroseconds", {"pulse": "pulse_us"}),
    "Servo.read": expr((A, "Servo.read"), SRV, "x = dev.read({a})", r"__servo_angle_dev"),
    "Servo.read_us": expr((A, "Servo.read_us"), SRV, "x = dev.read_us({a})", r"__servo_pulse_dev"),
    # ---- DCMotor
    "DCMotor.set_speed": stmt((A, "DCMotor.set_speed"), MOT, "dev.set_speed({a})", "DCMotorSetSpeed", {"value": "speed"}),
    "DCMotor.backward": stmt((A, "DCMotor.backward"), MOT, "dev.backward({a})", "DCMotorBackward", same("speed")),
    "DCMotor.stop": stmt((A, "DCMotor.stop"), MOT, "dev.stop({a})", "DCMotorStop", {}),
    "DCMotor.coast": stmt((A, "DCMotor.coast"), MOT, "dev.coast({a})", "DCMotorCoast", {}),
    "DCMotor.invert": stmt((A, "DCMotor.invert"), MOT, "dev.invert({a})", "DCMotorInvert", {}),
    "DCMotor.ramp": stmt((A, "DCMotor.ramp"), MOT, "dev.ramp({a})", "DCMotorRamp", same("target_speed", "duration_ms")),
    "DCMotor.run_for": stmt((A, "DCMotor.run_for"), MOT, "dev.run_for({a})", "DCMotorRunFor", same("duration_ms", "speed")),
    "DCMotor.get_speed": expr((A, "DCMotor.get_speed"), MOT, "x = dev.get_speed({a})", r"__dc_speed_dev"),
    "DCMotor.get_applied_speed": expr((A, "DCMotor.get_applied_speed"), MOT, "x = dev.get_applied_speed({a})",
                                      r"\(__dc_inverted_dev \? -__dc_speed_dev : __dc_speed_dev\)"),
    "DCMotor.is_inverted": expr((A, "DCMotor.is_inverted"), MOT, "x = dev.is_inverted({a})", r"\(__dc_inverted_dev \? 1 : 0\)"),
    "DCMotor.get_mode": expr((A, "DCMotor.get_mode"), MOT, "x = dev.get_mode({a})", r"__dc_mode_dev"),
    # ---- LCD
    "LCD.write": stmt((D, "LCD.write"), LCDP, "dev.write({a})", "LCDWrite", same("col", "row", "text", "clear_row", "align")),
    "LCD.line": stmt((D, "LCD.line"), LCDP, "dev.line({a})", "LCDLine", same("row", "text", "align", "clear_row")),
    "LCD.message": stmt((D, "LCD.message"), LCDP, "dev.message({a})", "LCDMessage",
                        same("top", "bottom", "top_align", "bottom_align", "clear_rows")),
    "LCD.clear": stmt((D, "LCD.clear"), LCDP, "dev.clear({a})", "LCDClear", {}),
    "LCD.display": stmt((D, "LCD.display"), LCDP, "dev.display({a})", "LCDDisplay", same("on")),
    "LCD.backlight": stmt((D, "LCD.backlight"), LCDP, "dev.backlight({a})", "LCDBacklight", same("on")),
    "LCD.brightness": stmt((D, "LCD.brightness"), LCDP, "dev.brightness({a})", "LCDBrightness", same("level")),
    "LCD.glyph": stmt((D, "LCD.glyph"), LCDP, "dev.glyph({a})", "LCDGlyph", same("slot", "bitmap")),
    "LCD.progress": stmt((D, "LCD.progress"), LCDP, "dev.progress({a})", "LCDProgress",
                         same("row", "value", "max_value", "width", "style", "label")),
    "LCD.animate": stmt((D, "LCD.animate"), LCDP, "dev.animate({a})", "LCDAnimate", same("animation", "row", "text", "speed_ms", "loop")),
    # ---- sensors
    "Button.is_pressed": expr((S, "Button.is_pressed"), BTN, "x = dev.is_pressed({a})", r"\(__redu_button_value_dev \? 1 : 0\)"),
    "Potentiometer.read": expr((S, "Potentiometer.read"), POT, "x = dev.read({a})", r"analogRead\(A0\)"),
    "Ultrasonic.measure_distance": expr((S, "UltrasonicSensor.measure_distance"), ULT, "x = dev.measure_distance({a})",
                                        r"__redu_ultrasonic_measure_dev\(\)"),
    # ---- serial
    "SerialMonitor.write": stmt((CM, "SerialMonitor.write"), SER, "dev.write({a})", "SerialWrite", same("value")),
    # read(emit=...): "host" yields the empty C expression, "both"/"mcu" the Serial read
    "SerialMonitor.read": {"target": (CM, "SerialMonitor.read"), "pre": SER, "call": "dev.read({a})", "node": "serial_read",
                           "fields": same("emit")},
    # ---- Core helpers (expressions; the first three are used as statements)
    "Core.pin_mode": expr((CO, "pin_mode"), [], "pin_mode({a})", r"pinMode\((.+), (.+)\)", ("pin", "mode")),
    "Core.digital_write": expr((CO, "digital_write"), [], "digital_write({a})", r"digitalWrite\((.+), (.+)\)", ("pin", "value")),
    "Core.analog_write": expr((CO, "analog_write"), [], "analog_write({a})", r"analogWrite\((.+), (.+)\)", ("pin", "value")),
    "Core.digital_read": expr((CO, "digital_read"), [], "x = digital_read({a})", r"digitalRead\((.+)\)", ("pin",)),
    "Core.analog_read": expr((CO, "analog_read"), [], "x = analog_read({a})", r"analogRead\((.+)\)", ("pin",)),
}

# public host methods the transpiler has no handler for (simulation-side only): no IR node, no row
HOST_ONLY = {
    "RGBLed.get_color": (A, "RGBLed.get_color"), "RGBLed.get_state": (A, "RGBLed.get_state"),
    "LCD.begin": (D, "LCD.begin"), "LCD.dump": (D, "LCD.dump"), "LCD.tick": (D, "LCD.tick"),
    "Button.set_pressed": (S, "Button.set_pressed"),
    "SerialMonitor.connect": (CM, "SerialMonitor.connect"), "SerialMonitor.close": (CM, "SerialMonitor.close"),
}

# classes / modules whose public callables must all be classified (row or HOST_ONLY): fail-closed
SURFACE = [(A, "Led"), (A, "RGBLed"), (A, "Buzzer"), (A, "Servo"), (A, "DCMotor"), (D, "LCD"), (S, "Button"),
           (S, "Potentiometer"), (S, "UltrasonicSensor"), (CM, "SerialMonitor")]
CORE_FUNCS = ["pin_mode", "digital_write", "analog_write", "digital_read", "analog_read"]


def resolve(target):
    mod, path = target
    obj = importlib.import_module(mod)
    for part in path.split("."):
        obj = getattr(obj, part)
    return obj


def is_method(target):
    return "." in target[1]


def signature_of(target):
    """ordered parameters (without self) of the real callable: [name, kind, has_default, default]"""
    obj = resolve(target)
    sig = inspect.signature(obj)   # for a class: the constructor signature without self
    params = list(sig.parameters.values())
    if is_method(target):
        if not params or params[0].name != "self":
            raise RuntimeError(f"{target}: first parameter is not self")
        params = params[1:]
    out = []
    for p in params:
        if p.kind == p.POSITIONAL_OR_KEYWORD:
            kind = "pk"
        elif p.kind == p.KEYWORD_ONLY:
            kind = "ko"
        else:
            raise RuntimeError(f"{target}: parameter {p.name} has unsupported kind {p.kind}")
        has_default = p.default is not inspect.Parameter.empty
        out.append([p.name, kind, has_default, jsonable(p.default) if has_default else None])
    return out


def surface():
    """every public callable of the host surface, as 'Class.method' names (constructors as Class.__init__)"""
    names = {}
    for mod, cls_name in SURFACE:
        cls = resolve((mod, cls_name))
        shown = "Ultrasonic" if cls_name == "UltrasonicSensor" else cls_name
        for name, member in inspect.getmembers(cls):
            static = inspect.getattr_static(cls, name)
            if name.startswith("_"):
                continue
            if isinstance(static, property) or isinstance(static, (str, int, float, bool, type(None))):
                continue   # data attribute, not a call
            if not inspect.isfunction(static):
                raise RuntimeError(f"{cls_name}.{name}: public member that is neither a plain method, a property nor plain data")
            names[f"{shown}.{name}"] = (mod, f"{cls_name}.{name}")
        if cls_name != "UltrasonicSensor":
            names[f"{shown}.__init__"] = (mod, cls_name)
    names["Ultrasonic.__init__"] = (S, "Ultrasonic")
    for f in CORE_FUNCS:
        names[f"Core.{f}"] = (CO, f)
    return names


def jsonable(v):
    if isinstance(v, bool) or v is None or isinstance(v, (int, str)):
        return v
    if isinstance(v, float):
        return {"float": [*v.as_integer_ratio()]}
    if isinstance(v, (list, tuple)):
        return [jsonable(x) for x in v]
    return {"repr": repr(v)}


def all_nodes(prog):
    out = []

    def walk(n):
        if isinstance(n, (list, tuple)):
            for x in n:
                walk(x)
        elif dataclasses.is_dataclass(n):
            out.append(n)
            for f in dataclasses.fields(n):
                walk(getattr(n, f.name))
    walk(prog.global_decls)
    walk(prog.setup_body)
    walk(prog.loop_body)
    walk(prog.functions)
    return out


def exc_kind(e):
    if isinstance(e, ValueError):
        return "ValueError"
    return type(e).__name__


NOISE = {"decls": [], "calls": []}


def settle_noise(noise, parse):
    """keep the noise statements the current parser accepts (each is tried after the ones already kept)"""
    NOISE["decls"], NOISE["calls"] = [], []
    for d in noise.get("decls", []):
        try:
            parse("\n".join(NOISE["decls"] + [d]) + "\n")
            NOISE["decls"].append(d)
        except Exception:  # noqa: BLE001
            pass
    for c in noise.get("calls", []):
        try:
            parse("\n".join(NOISE["decls"] + ["for q in range(2):"] + ["    " + x for x in NOISE["calls"] + [c]]) + "\n")
            NOISE["calls"].append(c)
        except Exception:  # noqa: BLE001
            pass


def in_context(spec, call_line, ctx):
    """the call under test as the LAST statement of a nested block that first runs fully-spelled calls on other
    devices (binding must not depend on what was parsed before it)"""
    body = NOISE["calls"] + [call_line]
    ind = ["    " + x for x in body]
    head = {"for": ["for q in range(2):"], "loop": ["while True:"], "if": ["q = analog_read(0)", "if q >= 0:"],
            "try": ["try:"]}[ctx]
    tail = ["except Exception:", "    pass"] if ctx == "try" else []
    return "\n".join(spec["pre"] + NOISE["decls"] + head + ind + tail) + "\n"


def run_case(case, parse):
    spec = ROWS[case["row"]]
    pos = list(case["pos"])
    kws = [tuple(k) for k in case["kws"]]
    # optional spacing inside the call (Python's tokenizer ignores it; the property quantifies over it)
    sp = int(case.get("sp", 0) or 0)
    eq = {0: "=", 1: " = ", 2: " =", 3: "= "}[sp]
    sep = {0: ", ", 1: ", ", 2: " , ", 3: ",  "}[sp]
    argtext = sep.join(pos + [f"{k}{eq}{v}" for k, v in kws])
    if sp == 3 and argtext:
        argtext = " " + argtext + " "
    script = "\n".join(spec["pre"] + [spec["call"].format(a=argtext)]) + "\n"
    if case.get("ctx"):
        script = in_context(spec, spec["call"].format(a=argtext), case["ctx"])
    res = {"script": script}
    # ---- Python's own binder on the real callable (values = the source literals themselves)
    obj = resolve(spec["target"])
    sig = inspect.signature(obj)
    try:
        recv = ["<self>"] if is_method(spec["target"]) else []
        bound = sig.bind(*recv, *pos, **dict(kws))
        given = dict(bound.arguments)
        given.pop("self", None)
        res["py"] = {"accepted": len({k for k, _ in kws}) == len(kws), "given": given}
    except TypeError:
        res["py"] = {"accepted": False, "given": None}
    if case.get("py_only"):
        res["status"] = "skipped"
        return res
    # ---- the real parser
    try:
        prog = parse(script)
    except Exception as e:  # noqa: BLE001 - every exception kind is recorded
        res.update(status="raised", exc=exc_kind(e))
        return res
    nodes = all_nodes(prog)
    if spec["node"] == "expr":
        rx = re.compile(spec["cexpr"])
        hits = []
        for n in nodes:
            e = getattr(n, "expr", None)
            if isinstance(e, str) and type(n).__name__ in ("ExprStmt", "VarAssign", "VarDecl"):
                m = rx.fullmatch(e)
                if m:
                    hits.append(m)
        if not hits:
            res.update(status="no-node", seen=sorted({type(n).__name__ for n in nodes}))
            return res
        m = hits[-1]
        res.update(status="ok", fields={g: m.group(i + 1) for i, g in enumerate(spec["groups"])})
        return res
    if spec["node"] == "serial_read":
        hits = [n for n in nodes if type(n).__name__ == "ExprStmt"]
        if not hits or (len(hits) != 1 and not case.get("ctx")):
            res.update(status="no-node", seen=sorted({type(n).__name__ for n in nodes}))
            return res
        e = hits[-1].expr   # in a context script the call under test is the last statement
        res.update(status="ok", fields={"emit": {"serial_read_expr": e}})
        return res
    hits = [n for n in nodes if type(n).__name__ == spec["node"] and getattr(n, "name", None) == "dev"]
    if not hits:
        res.update(status="no-node", seen=sorted({type(n).__name__ for n in nodes}))
        return res
    node = hits[-1]
    res.update(status="ok", fields={p: jsonable(getattr(node, f)) for p, f in spec["fields"].items()})
    if spec["node"] == "LCDDecl":
        res["interface"] = node.interface
    return res


def main():
    req = json.load(sys.stdin)
    if req.get("op") == "rows":
        surf = surface()
        out = {"rows": {}, "host_only": {}, "unclassified": [], "stale": []}
        for name, spec in ROWS.items():
            out["rows"][name] = {"sig": signature_of(spec["target"]), "device_params": list(spec["fields"].keys()),
                                 "fields": spec["fields"], "call": spec["call"], "pre": spec["pre"], "node": spec["node"]}
        for name, target in HOST_ONLY.items():
            out["host_only"][name] = {"sig": signature_of(target)}
        for name, target in surf.items():
            if name not in ROWS and name not in HOST_ONLY:
                out["unclassified"].append(name)
            elif tuple((ROWS.get(name) or {"target": HOST_ONLY.get(name)})["target"]) != tuple(target):
                out["stale"].append(name)
        for name in list(ROWS) + list(HOST_ONLY):
            if name not in surf:
                out["stale"].append(name)
        json.dump(out, sys.stdout)
        return
    from Reduino.transpile.parser import parse
    if req.get("noise"):
        settle_noise(req["noise"], parse)
    out = [run_case(c, parse) for c in req["cases"]]
    json.dump({"results": out, "noise_kept": dict(NOISE)} if req.get("noise") else out, sys.stdout)


if __name__ == "__main__":
    main()
