"""Implementation side of C09, CPython half: executes the very lines of a generated list script under
CPython (JSON stdin -> JSON stdout): the head (imports, helper defs) and the setup lines once, then the
lines of the `while True:` body N times in the same module namespace.  After each phase it reports what
mon.write printed and the amount of live list data (total length of the distinct list objects bound to a
module-level name; `named`: the same counted once per name).  An exception ends the run; its class name is reported for that phase.

The firmware half (real parse()+emit(), clang++ -fsanitize=address,undefined, mock core with the
allocation counter) is driven by harness/props/c09.py through harness/fw.py."""
import json
import sys


class _Mon:
    def __init__(self):
        self.out = []

    def write(self, value):
        self.out.append(value)
        return f"{value}"


class _Pot:
    """scripted potentiometer: read() returns the successive run-time values (the last one repeats)"""

    def __init__(self, values):
        self.values = list(values) or [0]
        self.k = 0

    def read(self):
        v = self.values[min(self.k, len(self.values) - 1)]
        self.k += 1
        return v


def live_data(ns):
    seen, total = set(), 0
    for k, v in ns.items():
        if k.startswith("__"):
            continue
        if isinstance(v, list) and id(v) not in seen:
            seen.add(id(v))
            total += len(v)
    return total


def named_data(ns):
    """live list data counted per NAME: a list object bound to two module-level names counts twice"""
    return sum(len(v) for k, v in ns.items() if not k.startswith("__") and isinstance(v, list))


def norm(v):
    if isinstance(v, bool):
        return int(v)
    if isinstance(v, int):
        return v
    return str(v)


def run_job(job):
    ns = {"__name__": "__c09__"}
    phases = []
    try:
        exec(compile("\n".join(job["head"]) + "\n", "<head>", "exec"), ns)
    except BaseException as e:  # noqa
        return {"head_exc": type(e).__name__, "phases": []}
    mon = _Mon()
    ns["mon"] = mon
    if job.get("gvals") is not None:
        ns["p"] = _Pot(job["gvals"])
    codes = [compile("\n".join(job["setup"]) + "\n", "<setup>", "exec")]
    body = compile("\n".join(job["body"]) + "\n", "<body>", "exec")
    codes += [body] * int(job["N"])
    for code in codes:
        mon.out = []
        try:
            exec(code, ns)
        except BaseException as e:  # noqa
            phases.append({"exc": type(e).__name__, "out": [norm(x) for x in mon.out]})
            break
        phases.append({"out": [norm(x) for x in mon.out], "live": live_data(ns), "named": named_data(ns)})
    return {"phases": phases}


def main():
    req = json.load(sys.stdin)
    json.dump([run_job(j) for j in req["jobs"]], sys.stdout)


main()
