"""Implementation side of C10: the real parse()+emit() (and the real _promote_branch_decls) on JSON jobs.

stdin: {"mode": ..., ...}  -> stdout: JSON.  The hash seed of *this* process is whatever the
harness put in PYTHONHASHSEED; it is echoed back so a mix-up is visible.

modes
  transpile  {"sources": [...], "texts": bool}       one transpilation per source, in order
  session    {"sources": [...], "script": [i, ...], "texts": bool}
                                                     transpiles sources[i] in the given order in this one process
  promote    {"cases": [{"parent": [...], "branches": [{"order": [names in the order the set must iterate],
                         "types": {name: label}}...], "else": bool}]}
                                                     the real _promote_branch_decls, with the iteration order of
                                                     `var_declared - base` dictated by the case
  sorted     {"lists": [[names]...]}                 CPython's sorted() on sets of names
  mergeret   {"cases": [[[labels...], has_void]...]}  the real _merge_return_types (its set built under the dictated order, if any)
  threads    {"sources": [...], "threads": n, "rounds": r}
                                                     the sources transpiled concurrently by n threads -> per source the distinct results
  ops        {"sources": [...], "ops": [[op, i], ...], "texts": bool}
                                                     a sequence of calls in this one process; one result per op:
                                                       ["t", i]  emit(parse(sources[i]))
                                                       ["p", i]  parse(sources[i]), the Program is kept      (no text)
                                                       ["e", i]  emit(the Program kept for i)  - may be repeated: the same
                                                                 Program object is emitted again
                                                       ["ti", i, n]  emit(parse(sources[i])) ABORTED at the n-th function call inside parser.py /
                                                                 emitter.py: a BaseException (like KeyboardInterrupt) is raised there by a trace
                                                                 function; "calls" = number of such calls seen (n = 0: count only, nothing raised)
                                                       ["reset"] every Reduino module is dropped from sys.modules and imported
                                                                 again (a stand-in for a fresh interpreter; no text)

  helpers    {"sessions": [[[call, ...] program ...] session ...]}
                                                     the emitter's literal helpers called directly, each session after a reload of emitter.py:
                                                       ["dur", indent, var, value]  _emit_duration_ms(indent, var, value)
                                                       ["fmt", value]               _format_float(value)
                                                     value: ["i", n] int | ["f", "text"] float | ["b", bool] | ["s", text] str

  reemit     {"sources": [...], "other": src}       per source, in this one process:  p = parse(src); emit(p); emit(p); emit(parse(other));
                                                     emit(p); emit(parse(src))  -> the five sha256 (+ texts of those that differ from the first),
                                                     the IR node classes of p, the objects inside p that are not plain data (generators,
                                                     iterators, functions ...: "opaque"), and whether a deep snapshot of p taken before the first
                                                     emit() differs from one taken after it ("mutated": emit() changed its argument)
  outcomes   {"sources": [...], "ops": [[op, i], ...], "texts": bool}
                                                     like ops; "t" results additionally carry "fns" (the user-function definitions of the text:
                                                     [return type, name, parameter list]) and "vars" (global declarations {name: type})

Every mode accepts "adv": key.  Then the name `set` in the namespaces of parser.py and emitter.py is bound to
a subclass of set whose iteration order is dictated by the key ("asc": sorted, "desc": reverse sorted, anything
else: sorted by sha256(key, element)) - a stand-in for "another platform's set ordering" that does not depend on
the handful of permutations the hash seeds happen to produce.  Set displays / comprehensions of the source are
rewritten into calls of `set` (the two modules are re-executed in place from their rewritten ast), so they are dictated too.
"""
import ast
import hashlib
import json
import os
import signal
import sys

from Reduino.transpile import parser as P
from Reduino.transpile.emitter import emit
from Reduino.transpile.parser import parse


class _Timeout(Exception):
    pass


def _alarm(signum, frame):
    raise _Timeout()


def reset_modules():
    """drop every Reduino module and import the transpiler again: module-level state starts from scratch"""
    global P, emit, parse
    for m in [m for m in sys.modules if m == "Reduino" or m.startswith("Reduino.")]:
        del sys.modules[m]
    import importlib
    P = importlib.import_module("Reduino.transpile.parser")
    emit = importlib.import_module("Reduino.transpile.emitter").emit
    parse = P.parse


def guarded(fn, texts, per=20):
    signal.alarm(per)
    try:
        cpp = fn()
        if cpp is None:
            return {"ok": True, "sha": None}
        r = {"ok": True, "sha": hashlib.sha256(cpp.encode("utf-8")).hexdigest()}
        if texts:
            r["cpp"] = cpp
        return r
    except _Timeout:
        return {"ok": False, "exc": "Timeout", "sha": "exc:Timeout"}
    except BaseException as e:  # noqa
        return {"ok": False, "exc": type(e).__name__, "msg": str(e)[:200], "sha": "exc:" + type(e).__name__}
    finally:
        signal.alarm(0)


class _Injected(BaseException):
    """stands for an asynchronous abort of a transpilation (KeyboardInterrupt, MemoryError ...)"""


def interrupted(src, n, texts):
    import Reduino.transpile.emitter as E
    files = {P.__file__, E.__file__}
    seen = [0]

    def tracer(frame, event, arg):
        if event == "call" and frame.f_code.co_filename in files:
            seen[0] += 1
            if n and seen[0] == n:
                raise _Injected()
        return None
    sys.settrace(tracer)
    try:
        r = guarded(lambda: emit(parse(src)), texts)
    finally:
        sys.settrace(None)
    r["calls"] = seen[0]
    return r


def run_ops(srcs, ops, texts):
    kept = {}
    failed = {}
    out = []
    for op in ops:
        k = op[0]
        if k == "reset":
            reset_modules()
            kept.clear()
            failed.clear()
            out.append({"ok": True, "sha": None})
        elif k == "t":
            out.append(guarded(lambda: emit(parse(srcs[op[1]])), texts))
        elif k == "ti":
            out.append(interrupted(srcs[op[1]], op[2], texts))
        elif k == "p":
            def do_parse(i=op[1]):
                kept[i] = parse(srcs[i])
                return None
            kept.pop(op[1], None)
            failed.pop(op[1], None)
            r = guarded(do_parse, texts)
            if not r["ok"]:
                failed[op[1]] = r
            out.append(r)
        elif k == "e":
            if op[1] in failed:
                out.append(failed[op[1]])        # the transpilation ended in parse(): that is its outcome
            elif op[1] not in kept:
                out.append({"ok": False, "exc": "NotParsed", "sha": "exc:NotParsed"})
            else:
                out.append(guarded(lambda: emit(kept[op[1]]), texts))
        else:
            raise SystemExit("unknown op " + str(op))
    return out


PLAIN = (str, int, float, bool, type(None), bytes)


def snapshot(obj, path="program", opaque=None, classes=None, depth=0):
    """a deep, order-preserving description of a Program made of plain data only; anything that is not a dataclass / list / tuple /
    dict / set / scalar is described by its type name and its path is recorded in `opaque`"""
    import dataclasses
    if depth > 200:
        return "<deep>"
    if isinstance(obj, PLAIN):
        return [type(obj).__name__, repr(obj)]
    if dataclasses.is_dataclass(obj) and not isinstance(obj, type):
        if classes is not None:
            classes.add(type(obj).__name__)
        return [type(obj).__name__, [[f.name, snapshot(getattr(obj, f.name), f"{path}.{f.name}", opaque, classes, depth + 1)]
                                     for f in dataclasses.fields(obj)]]
    if isinstance(obj, (list, tuple)):
        return [type(obj).__name__, [snapshot(x, f"{path}[{i}]", opaque, classes, depth + 1) for i, x in enumerate(obj)]]
    if isinstance(obj, dict):
        return ["dict", [[snapshot(k, path + ".key", opaque, classes, depth + 1), snapshot(v, f"{path}[{k!r}]", opaque, classes, depth + 1)]
                         for k, v in obj.items()]]
    if isinstance(obj, (set, frozenset)):
        return [type(obj).__name__, sorted(json.dumps(snapshot(x, path + ".elem", opaque, classes, depth + 1)) for x in obj)]
    if opaque is not None:
        opaque.append([path, type(obj).__name__])
    return ["opaque", type(obj).__name__]


def run_reemit(srcs, other):
    out = []
    for src in srcs:
        rec = {"shas": [], "steps": ["emit(p)", "emit(p) again", "emit(p) after emit(parse(other))", "emit(parse(src)) again",
                                    "emit(p2), p2 = parse(src) made before the first emit()"]}
        signal.alarm(30)
        try:
            try:
                p = parse(src)
            except _Timeout:
                raise
            except BaseException as e:  # noqa
                rec.update({"ok": False, "exc": type(e).__name__})
                out.append(rec)
                continue
            p2 = parse(src)
            opaque, classes = [], set()
            s0 = json.dumps(snapshot(p, "program", opaque, classes))
            texts = []

            def step(fn):
                try:
                    t = fn()
                    texts.append(t)
                    rec["shas"].append(hashlib.sha256(t.encode("utf-8")).hexdigest())
                except _Timeout:
                    raise
                except BaseException as e:  # noqa
                    texts.append(None)
                    rec["shas"].append("exc:" + type(e).__name__)
            step(lambda: emit(p))
            s1 = json.dumps(snapshot(p))
            step(lambda: emit(p))
            try:
                emit(parse(other))
            except _Timeout:
                raise
            except BaseException:  # noqa
                pass
            step(lambda: emit(p))
            step(lambda: emit(parse(src)))
            step(lambda: emit(p2))
            rec.update({"ok": True, "opaque": opaque[:8], "classes": sorted(classes), "mutated": s0 != s1})
            if len(set(rec["shas"])) > 1:
                rec["texts"] = texts
        except _Timeout:
            rec.update({"ok": False, "exc": "Timeout"})
        finally:
            signal.alarm(0)
        out.append(rec)
    return out


def text_facts(cpp):
    """user-function definitions and global declarations read off the emitted text"""
    import re
    fns, vars_ = [], {}
    for ln in cpp.splitlines():
        m = re.match(r"^(\w[\w<>]*) (\w+)\((.*)\) \{$", ln)
        if m and m.group(2) not in ("setup", "loop") and not m.group(2).startswith("__redu"):
            fns.append([m.group(1), m.group(2), m.group(3)])
            continue
        m = re.match(r"^(int|float|bool|String) (\w+) = .*;$", ln)
        if m:
            vars_[m.group(2)] = m.group(1)
    return fns, vars_


def run_outcomes(srcs, ops, texts):
    out = run_ops(srcs, ops, True)
    for r in out:
        if r.get("ok") and r.get("cpp") is not None:
            r["fns"], r["vars"] = text_facts(r["cpp"])
            if not texts:
                del r["cpp"]
    return out


def run_threads(srcs, n_threads, rounds):
    """every source is transpiled `rounds` times by each of n_threads threads running at once (switch interval 10 us), each thread in
    its own order -> per source the set of distinct results"""
    import random
    import threading
    sys.setswitchinterval(1e-5)
    seen = [set() for _ in srcs]
    lock = threading.Lock()

    def work(k):
        order = list(range(len(srcs))) * rounds
        random.Random(k).shuffle(order)
        for i in order:
            try:
                sha = hashlib.sha256(emit(parse(srcs[i])).encode("utf-8")).hexdigest()
            except BaseException as e:  # noqa
                sha = "exc:" + type(e).__name__
            with lock:
                seen[i].add(sha)
    ts = [threading.Thread(target=work, args=(k,)) for k in range(n_threads)]
    for t in ts:
        t.start()
    for t in ts:
        t.join()
    return [sorted(x) for x in seen]


def one(src, texts, per=20):
    signal.alarm(per)
    try:
        cpp = emit(parse(src))
        r = {"ok": True, "sha": hashlib.sha256(cpp.encode("utf-8")).hexdigest()}
        if texts:
            r["cpp"] = cpp
        return r
    except _Timeout:
        return {"ok": False, "exc": "Timeout", "sha": "exc:Timeout"}
    except BaseException as e:  # noqa
        return {"ok": False, "exc": type(e).__name__, "msg": str(e)[:200], "sha": "exc:" + type(e).__name__}
    finally:
        signal.alarm(0)


def make_advset(key):
    if key == "asc":
        def arrange(items):
            return sorted(items, key=repr)
    elif key == "desc":
        def arrange(items):
            return sorted(items, key=repr, reverse=True)
    else:
        def arrange(items):
            return sorted(items, key=lambda x: hashlib.sha256((key + "\0" + repr(x)).encode("utf-8")).digest())

    class AdvSet(set):
        __slots__ = ()

        def __iter__(self):
            return iter(arrange(list(set.__iter__(self))))

        def copy(self):
            return AdvSet(set.copy(self))

        def pop(self):
            for x in self:
                set.discard(self, x)
                return x
            raise KeyError("pop from an empty set")

        def __reduce__(self):
            return (AdvSet, (list(set.__iter__(self)),))

    def wrap(name):
        base = getattr(set, name)

        def method(self, *a):
            r = base(self, *a)
            return AdvSet(r) if isinstance(r, set) and not isinstance(r, AdvSet) else r
        method.__name__ = name
        return method
    for _n in ("__sub__", "__rsub__", "__or__", "__ror__", "__and__", "__rand__", "__xor__", "__rxor__", "union",
               "difference", "intersection", "symmetric_difference"):
        setattr(AdvSet, _n, wrap(_n))
    return AdvSet


class _SetRewriter(ast.NodeTransformer):
    """{a, b} -> set([a, b]);  {f(x) for x in y} -> set([f(x) for x in y]): every set of the module is then built through the name
    `set` (the dictated-order class).  The list keeps the evaluation order of the display / comprehension, so the elements, their
    insertion order and every side effect are the same - only the class of the result differs."""

    def visit_Set(self, node):
        self.generic_visit(node)
        return ast.copy_location(ast.Call(func=ast.Name(id="set", ctx=ast.Load()), args=[ast.List(elts=node.elts, ctx=ast.Load())], keywords=[]), node)

    def visit_SetComp(self, node):
        self.generic_visit(node)
        return ast.copy_location(ast.Call(func=ast.Name(id="set", ctx=ast.Load()),
                                          args=[ast.ListComp(elt=node.elt, generators=node.generators)], keywords=[]), node)


def install_adv(key):
    """bind `set` in parser.py / emitter.py to the dictated-order class and re-execute both modules, in place, from their source
    with every set display / set comprehension turned into a call of `set` (so that those are dictated as well)"""
    global emit, parse
    import Reduino.transpile.emitter as E
    cls = make_advset(key)
    for mod in (P, E):
        mod.__dict__["set"] = cls
        with open(mod.__file__, encoding="utf-8") as fh:
            tree = ast.parse(fh.read(), mod.__file__)
        tree = ast.fix_missing_locations(_SetRewriter().visit(tree))
        exec(compile(tree, mod.__file__, "exec"), mod.__dict__)
        mod.__dict__["set"] = cls
    emit, parse = E.emit, P.parse
    return cls


class OrderedNames(set):
    """a set whose difference with another set iterates in a dictated order (stands for "whatever order the hash
    table happens to have")"""

    def __init__(self, items, order):
        super().__init__(items)
        self._order = list(order)

    def __sub__(self, other):
        left = [n for n in self._order if n in self and n not in other]
        assert set(left) == set.__sub__(self, other), "dictated order is not a permutation of the difference"
        return _Seq(left)


class _Seq:
    """iterates like the set difference would, in the dictated order"""

    def __init__(self, items):
        self._items = items

    def __iter__(self):
        return iter(self._items)

    def __len__(self):
        return len(self._items)

    def __contains__(self, x):
        return x in self._items


def promote_case(c):
    parent = set(c["parent"])
    parent_ctx = {"var_declared": set(parent), "var_types": {}}
    entries = []
    for br in c["branches"]:
        names = list(br["order"])
        child = {"_base_declared": set(parent) | set(br.get("base_extra", [])),
                 "var_declared": OrderedNames(set(parent) | set(br.get("base_extra", [])) | set(names), names),
                 "var_types": dict(br["types"])}
        entries.append((child, []))
    else_entry = None
    if c.get("else"):
        else_entry = entries.pop()
    try:
        order = P._promote_branch_decls(entries, else_entry, parent_ctx, c.get("scope", "setup"), c.get("depth", 0))
    except BaseException as e:  # noqa
        return {"exc": type(e).__name__, "msg": str(e)[:200]}
    info = parent_ctx.get("_promotion_cpp_types", {})
    return {"order": list(order), "types": {n: parent_ctx["var_types"].get(n) for n in order},
            "cpp": {n: info.get(n) for n in order}}


def helper_value(v):
    if v[0] == "i":
        return int(v[1])
    if v[0] == "f":
        return float(v[1])
    if v[0] == "b":
        return bool(v[1])
    return str(v[1])


def run_helpers(sessions):
    import importlib
    out = []
    E = importlib.import_module("Reduino.transpile.emitter")
    for ses in sessions:
        E = importlib.reload(E)          # the helpers live in emitter.py: fresh function objects, fresh module-level tables
        if not (hasattr(E, "_emit_duration_ms") and hasattr(E, "_format_float")):
            return ["missing"]
        rs = []
        for prog in ses:
            rp = []
            for c in prog:
                try:
                    if c[0] == "dur":
                        rp.append({"out": list(E._emit_duration_ms(c[1], c[2], helper_value(c[3])))})
                    else:
                        rp.append({"out": E._format_float(helper_value(c[1]))})
                except BaseException as e:  # noqa
                    rp.append({"exc": type(e).__name__})
            rs.append(rp)
        out.append(rs)
    return out


def main():
    req = json.load(sys.stdin)
    signal.signal(signal.SIGALRM, _alarm)
    mode = req["mode"]
    adv = req.get("adv")
    if adv:
        install_adv(adv)
    out = {"python": sys.version.split()[0], "adv": adv, "hashseed": os.environ.get("PYTHONHASHSEED"), "probe": list({"alpha", "beta", "gamma", "delta", "epsilon", "zeta"})}
    if mode == "transpile":
        out["results"] = [one(s, req.get("texts", False)) for s in req["sources"]]
    elif mode == "session":
        srcs = req["sources"]
        out["results"] = [one(srcs[i], req.get("texts", False)) for i in req["script"]]
    elif mode == "threads":
        out["results"] = run_threads(req["sources"], req.get("threads", 4), req.get("rounds", 2))
    elif mode == "ops":
        out["results"] = run_ops(req["sources"], req["ops"], req.get("texts", False))
    elif mode == "reemit":
        out["results"] = run_reemit(req["sources"], req.get("other", "x = 1\n"))
    elif mode == "outcomes":
        out["results"] = run_outcomes(req["sources"], req["ops"], req.get("texts", False))
    elif mode == "promote":
        out["results"] = [promote_case(c) for c in req["cases"]]
    elif mode == "helpers":
        out["results"] = run_helpers(req["sessions"])
    elif mode == "mergeret":
        res = []
        for types, has_void in req["cases"]:
            try:
                res.append({"label": P._merge_return_types(list(types), bool(has_void))})
            except ValueError:
                res.append({"exc": "ValueError"})
            except BaseException as e:  # noqa
                res.append({"exc": type(e).__name__})
        out["results"] = res
    elif mode == "sorted":
        out["results"] = [sorted(set(l)) for l in req["lists"]]
    else:
        raise SystemExit("unknown mode " + mode)
    json.dump(out, sys.stdout)


main()
