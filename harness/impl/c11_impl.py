"""Implementation side of C11: runs the real transpiler (parse + emit) and the real _eval_const on hostile inputs
and reports what it did - exception kind, audit events (sys.addaudithook), builtins called (sys.setprofile),
primitive operations (recording wrappers put into the parser module's own namespace: its `op` module alias,
the values of _SAFE_CASTS, max / min / abs), wall time.  JSON stdin -> JSON stdout.

cases
  ["script", text]                 -> {"exc", "msg", "audit": [...], "env": [environment variables read], "wall"}
  ["expr", src, env]               -> {"res", "prims": [...], "builtins": [...], "audit": [...]}
  ["ref", text]                    -> {"cpp_sha"}        (state-leak probe: same text before / after the stream)
  ["blowup", n]                    -> {"bits", "exc"}     bit length of _eval_const("2**2**n"), or the exception it raises
  ["session", [text, ...], want_cpp] -> [{"sha", "exc", "changed": [module-level objects whose content changed], "cpp"?}, ...]
                                      the texts transpiled one after the other in THIS process
  ["rematch", file, name, pattern, flags, [text, ...]] -> [bool, ...]   real re: does the pattern match the whole text
  ["target", text, pio, scratch]   -> {"alone", "exc", "msg", "returned", "proc": [process / network audit events], "pio_ran", "wall"}
                                      the user-facing entry point: the text is written to <scratch>/script.py, made the __main__
                                      file, and Reduino.target("COM3", upload=False) is called with PATH = one directory that is
                                      empty (pio "absent") or holds an executable `pio` that appends a line to a marker file and
                                      exits 0 (pio "fake"); temporary directories are created inside <scratch>.  "alone" = outcome
                                      kind of parse()+emit() on the same text
  ["variants", text]               -> {"exc", "wall", "parses": [[name, null | [type label, ...]], ...] (first 4000), "n_parses",
                                      "n_blocks"}   the _parse_function / _parse_simple_lines invocations of one parse()+emit()
"""
import ast
import hashlib
import json
import math
import resource
import signal
import sys
import time
from fractions import Fraction

from Reduino.transpile import parser as P
from Reduino.transpile.parser import _eval_const, _ExprStr, parse
from Reduino.transpile.emitter import emit

WATCH_PREFIX = ("os.", "subprocess.", "socket.", "shutil.", "ctypes.", "urllib.", "http.", "ftplib.", "smtplib.",
                "webbrowser.", "pty.", "glob.", "tempfile.", "pathlib.", "sqlite3.", "winreg.", "msvcrt.", "fcntl.", "mmap.")
WATCH = {"open", "exec", "import", "builtins.input", "builtins.breakpoint", "sys.addaudithook", "sys.setprofile_x",
         "cpython.run_command", "cpython.run_file", "marshal.loads", "pickle.find_class", "code.__new__"}
_rec = {"on": False, "events": []}


def _hook(event, args):
    if not _rec["on"]:
        return
    if event in WATCH or event.startswith(WATCH_PREFIX):
        # CPython internals, not accesses of the transpiler: building a SyntaxError looks the source line up in a
        # file named like the pseudo file name; the tokenizer imports unicodedata for non-ASCII identifiers
        if event == "open" and args and args[0] in ("<unknown>", "<string>", "<stdin>", "<expr>"):
            return
        if event == "import" and args and args[0] == "unicodedata":
            return
        try:
            a = repr(args)[:120]
        except BaseException:  # noqa
            a = "?"
        _rec["events"].append([event, a])


sys.addaudithook(_hook)

# reads of the process environment have no audit event: os.environ's item access is wrapped (os.getenv, .get and `in` all end
# there); iteration / copying counts as reading everything.  REDUINO_VERIF is the verification hook's own switch.
import os as _os   # noqa: E402
_env = {"keys": []}
_ENV_OK = ("REDUINO_VERIF",)


def _wrap_environ():
    cls = type(_os.environ)
    real_get, real_iter = cls.__getitem__, cls.__iter__

    def getitem(self, key):
        if _rec["on"] and key not in _ENV_OK:
            _env["keys"].append(key if isinstance(key, str) else repr(key))
        return real_get(self, key)

    def iterate(self):
        if _rec["on"]:
            _env["keys"].append("<all>")
        return real_iter(self)

    cls.__getitem__ = getitem
    cls.__iter__ = iterate


_wrap_environ()


class _Timeout(BaseException):
    pass


def _alarm(sig, frm):
    raise _Timeout()


def enc(v):
    if isinstance(v, _ExprStr):
        return ["other", "_ExprStr"]
    if isinstance(v, bool):
        return ["bool", v]
    if isinstance(v, int):
        if v.bit_length() > 20000:
            return ["special", "hugeint"]
        return ["int", hex(v)]
    if isinstance(v, float):
        if not math.isfinite(v):
            return ["special", repr(v)]
        f = Fraction(v)
        return ["float", hex(f.numerator), hex(f.denominator)]
    if isinstance(v, str):
        return ["str", v]
    if isinstance(v, list):
        return ["list", [enc(x) for x in v]]
    if isinstance(v, tuple):
        return ["tuple", [enc(x) for x in v]]
    if v is None:
        return ["none"]
    return ["other", type(v).__name__]


def dec(w):
    t = w[0]
    if t == "mark":
        return _ExprStr("m")
    if t == "bool":
        return bool(w[1])
    if t == "int":
        return int(w[1], 16)
    if t == "float":
        return int(w[1], 16) / int(w[2], 16)
    if t == "str":
        return w[1]
    if t == "list":
        return [dec(x) for x in w[1]]
    if t == "tuple":
        return tuple(dec(x) for x in w[1])
    return None


def do_script(text, limit):
    _rec["events"] = []
    _env["keys"] = []
    exc = msg = None
    t0 = time.time()
    signal.alarm(limit)
    _rec["on"] = True
    try:
        prog = parse(text)
        emit(prog)
    except _Timeout:
        exc, msg = "Timeout", f"> {limit}s"
    except BaseException as e:  # noqa
        exc, msg = type(e).__name__, str(e)[:200]
        # the statement names the classes: IndentationError / TabError are SyntaxErrors, UnicodeError is a ValueError
        if isinstance(e, SyntaxError):
            exc, msg = "SyntaxError", type(e).__name__ + ": " + msg
        elif isinstance(e, ValueError):
            exc, msg = "ValueError", type(e).__name__ + ": " + msg
    finally:
        _rec["on"] = False
        signal.alarm(0)
    if hasattr(P, "_VERIF_IGNORED"):
        del P._VERIF_IGNORED[:]
    return {"exc": exc, "msg": msg, "audit": _rec["events"][:10], "env": sorted(set(_env["keys"]))[:10], "wall": round(time.time() - t0, 3)}


class _OpProxy:
    def __init__(self, real, log):
        self._real, self._log = real, log

    def __getattr__(self, name):
        f = getattr(self._real, name)
        log = self._log

        def g(*a, **k):
            log.append(["arith", name])
            return f(*a, **k)
        return g


def do_expr(src, env_w, limit):
    env = {k: dec(v) for k, v in env_w.items()}
    prims, builtins_called = [], []
    saved = {"op": P.op, "casts": dict(P._SAFE_CASTS)}
    P.op = _OpProxy(saved["op"], prims)
    for k, f in saved["casts"].items():
        P._SAFE_CASTS[k] = (lambda kk, ff: (lambda *a, **kw: (prims.append(["cast", kk]), ff(*a, **kw))[1]))(k, f)
    for nm, kind in (("max", "minmax"), ("min", "minmax"), ("abs", "abs")):
        real = getattr(__builtins__, nm) if not isinstance(__builtins__, dict) else __builtins__[nm]
        setattr(P, nm, (lambda kk, ff: (lambda *a, **kw: (prims.append([kk]), ff(*a, **kw))[1]))(kind, real))

    def prof(frame, event, arg):
        if event == "c_call":
            mod = getattr(arg, "__module__", None)
            name = getattr(arg, "__qualname__", None) or getattr(arg, "__name__", "?")
            if mod in ("builtins", "posix", "nt", "os", "io", "_io", "subprocess", "socket", "_socket", "importlib", "_imp"):
                builtins_called.append(f"{mod}.{name}")
        elif event == "call":
            fn = frame.f_code.co_filename
            if not (fn.endswith("parser.py") or fn.endswith("ast.py") or "c11_impl" in fn or fn.startswith("<frozen")
                    or "/lib/python" in fn):
                builtins_called.append(f"pycall:{fn}:{frame.f_code.co_name}")

    _rec["events"] = []
    signal.alarm(limit)
    _rec["on"] = True
    sys.setprofile(prof)
    try:
        r = None
        try:
            r = _eval_const(src, env)
            res = ["ok", None]
        except _Timeout:
            res = ["exc", "Timeout"]
        except BaseException as e:  # noqa
            res = ["exc", type(e).__name__]
    finally:
        sys.setprofile(None)
        _rec["on"] = False
        signal.alarm(0)
        P.op = saved["op"]
        P._SAFE_CASTS.clear()
        P._SAFE_CASTS.update(saved["casts"])
        for nm in ("max", "min", "abs"):
            if nm in P.__dict__:
                del P.__dict__[nm]
    if res[0] == "ok":
        res = ["ok", enc(r)]
    return {"res": res, "prims": prims, "builtins": sorted(set(b for b in builtins_called if b != "builtins.setprofile")),
            "audit": _rec["events"][:10]}


def _digest(v, depth=0):
    """content of a module-level object, order-insensitively for sets / dicts; functions, classes, modules and compiled
    patterns are immutable for this purpose"""
    if depth > 6:
        return "..."
    if isinstance(v, (str, int, float, bool, bytes, type(None))):
        return repr(v)
    if isinstance(v, (list, tuple)):
        return type(v).__name__ + "[" + ",".join(_digest(x, depth + 1) for x in v) + "]"
    if isinstance(v, (set, frozenset)):
        return type(v).__name__ + "{" + ",".join(sorted(_digest(x, depth + 1) for x in v)) + "}"
    if isinstance(v, dict):
        return "dict{" + ",".join(sorted(_digest(k, depth + 1) + ":" + _digest(x, depth + 1) for k, x in v.items())) + "}"
    return "<" + type(v).__name__ + ">"


def module_snapshot():
    """name -> digest for every module-level binding of the three transpiler modules that is not a function / class /
    module / compiled pattern / immutable scalar (the verification hook's own log excepted), plus function caches"""
    import types
    import Reduino.transpile.emitter as E
    import Reduino.transpile.ast as A
    out = {}
    for mod in (P, E, A):
        for k, v in list(vars(mod).items()):
            if k.startswith("__") or k == "_VERIF_IGNORED":
                continue
            if isinstance(v, (types.FunctionType, types.BuiltinFunctionType)):
                ci = getattr(v, "cache_info", None)
                if ci is not None:
                    out[f"{mod.__name__}.{k}.<cache>"] = repr(ci().currsize)
                if v.__defaults__:
                    d = [x for x in v.__defaults__ if isinstance(x, (list, dict, set))]
                    if d:
                        out[f"{mod.__name__}.{k}.<defaults>"] = _digest(d)
                if getattr(v, "__dict__", None):
                    out[f"{mod.__name__}.{k}.<attributes>"] = _digest({a: b for a, b in v.__dict__.items() if a != "__wrapped__"})
                continue
            if isinstance(v, (type, types.ModuleType)) or hasattr(v, "pattern"):
                continue
            if isinstance(v, (list, dict, set)):
                out[f"{mod.__name__}.{k}"] = _digest(v)
            elif hasattr(v, "cache_info"):
                out[f"{mod.__name__}.{k}.<cache>"] = repr(v.cache_info().currsize)
    return out


def do_session(texts, want_cpp, limit):
    out = []
    for t in texts:
        before = module_snapshot()
        signal.alarm(limit)
        rec = {}
        try:
            cpp = emit(parse(t))
            rec = {"sha": hashlib.sha256(cpp.encode()).hexdigest(), "exc": None}
            if want_cpp:
                rec["cpp"] = cpp
        except _Timeout:
            rec = {"sha": None, "exc": "Timeout"}
        except BaseException as e:  # noqa
            rec = {"sha": None, "exc": "SyntaxError" if isinstance(e, SyntaxError) else "ValueError" if isinstance(e, ValueError) else type(e).__name__}
        finally:
            signal.alarm(0)
        if hasattr(P, "_VERIF_IGNORED"):
            del P._VERIF_IGNORED[:]
        after = module_snapshot()
        rec["changed"] = sorted(k for k in set(before) | set(after) if before.get(k) != after.get(k))
        out.append(rec)
    return out


PROC_EVENTS = ("subprocess.Popen", "os.system", "os.exec", "os.posix_spawn", "os.spawn", "os.fork", "os.forkpty", "os.startfile",
               "pty.spawn", "os.kill", "os.killpg", "ctypes.dlopen", "webbrowser.open", "cpython.run_command")
NET_PREFIX = ("socket.", "urllib.", "http.", "ftplib.", "smtplib.", "poplib.", "imaplib.", "nntplib.", "telnetlib.")


def _kind(e):
    return "SyntaxError" if isinstance(e, SyntaxError) else "ValueError" if isinstance(e, ValueError) else type(e).__name__


def do_target(text, pio, scratch, limit):
    import os
    import shutil
    import tempfile
    import Reduino
    os.makedirs(scratch, exist_ok=True)
    work = tempfile.mkdtemp(prefix="t-", dir=scratch)
    bindir, tmpdir = os.path.join(work, "bin"), os.path.join(work, "tmp")
    os.makedirs(bindir)
    os.makedirs(tmpdir)
    marker = os.path.join(work, "pio-ran")
    if pio == "fake":
        with open(os.path.join(bindir, "pio"), "w") as f:
            f.write("#!/bin/sh\necho \"$@\" >> '%s'\nexit 0\n" % marker)
        os.chmod(os.path.join(bindir, "pio"), 0o755)
    script = os.path.join(work, "script.py")
    with open(script, "w", encoding="utf-8", errors="surrogatepass") as f:
        f.write(text)
    try:
        emit(parse(text))
        alone = None
    except BaseException as e:  # noqa
        alone = _kind(e)
    main = sys.modules["__main__"]
    saved = {"file": getattr(main, "__file__", None), "path": os.environ.get("PATH"), "tmp": os.environ.get("TMPDIR"), "tempdir": tempfile.tempdir}
    out_fd = os.dup(1)
    exc = msg = None
    returned = None
    _rec["events"] = []
    _env["keys"] = []
    t0 = time.time()
    try:
        main.__file__ = script
        os.environ["PATH"] = bindir
        os.environ["TMPDIR"] = tmpdir
        tempfile.tempdir = tmpdir
        sys.stdout.flush()
        os.dup2(2, 1)            # whatever a started process prints must not end up in the JSON answer
        signal.alarm(limit)
        _rec["on"] = True
        try:
            r = Reduino.target("COM3", upload=False)
            returned = "str" if isinstance(r, str) else type(r).__name__
        except _Timeout:
            exc, msg = "Timeout", f"> {limit}s"
        except BaseException as e:  # noqa
            exc, msg = _kind(e), type(e).__name__ + ": " + str(e)[:200]
        finally:
            _rec["on"] = False
            signal.alarm(0)
    finally:
        sys.stdout.flush()
        os.dup2(out_fd, 1)
        os.close(out_fd)
        main.__file__ = saved["file"]
        os.environ["PATH"] = saved["path"] or ""
        if saved["tmp"] is None:
            os.environ.pop("TMPDIR", None)
        else:
            os.environ["TMPDIR"] = saved["tmp"]
        tempfile.tempdir = saved["tempdir"]
    wall = round(time.time() - t0, 3)
    proc = [ev for ev in _rec["events"] if ev[0] in PROC_EVENTS or ev[0].startswith(NET_PREFIX)]
    pio_ran = None
    if os.path.exists(marker):
        with open(marker) as f:
            pio_ran = f.read()[:200]
    shutil.rmtree(work, ignore_errors=True)
    if hasattr(P, "_VERIF_IGNORED"):
        del P._VERIF_IGNORED[:]
    env = sorted(set(k for k in _env["keys"] if k not in ("TMPDIR", "TEMP", "TMP")))     # (tempfile's own look-ups)
    return {"alone": alone, "exc": exc, "msg": msg, "returned": returned, "proc": proc[:10], "pio_ran": pio_ran, "env": env[:10], "wall": wall}


def do_variants(text, limit):
    """one parse()+emit() with counting wrappers around _parse_function (every body parse: name, forced signature) and
    _parse_simple_lines (every block parse) - the work units of the def / call machinery"""
    log, blocks = [], [0]
    real_pf, real_psl = P._parse_function, P._parse_simple_lines

    def pf(name, params_src, block, ctx, *, forced_signature=None):
        log.append([name, None if forced_signature is None else list(forced_signature)])
        return real_pf(name, params_src, block, ctx, forced_signature=forced_signature)

    def psl(*a, **k):
        blocks[0] += 1
        return real_psl(*a, **k)

    P._parse_function, P._parse_simple_lines = pf, psl
    try:
        r = do_script(text, limit)
    finally:
        P._parse_function, P._parse_simple_lines = real_pf, real_psl
    r["n_parses"] = len(log)
    r["parses"] = log[:4000]
    r["n_blocks"] = blocks[0]
    return r


def do_rematch(fname, name, pattern, flags, texts):
    import re as _re
    obj = None
    if fname == "transpile/parser.py":
        obj = getattr(P, name, None)
    if not hasattr(obj, "fullmatch"):
        obj = _re.compile(pattern, flags)
    return [obj.fullmatch(t) is not None for t in texts]


def main():
    req = json.load(sys.stdin)
    limit = int(req.get("limit", 30))
    try:
        resource.setrlimit(resource.RLIMIT_AS, (8 << 30, 8 << 30))
    except Exception:  # noqa
        pass
    signal.signal(signal.SIGALRM, _alarm)
    out = []
    stop_after = req.get("stop_after_timeouts")
    n_timeouts = 0
    for c in req["cases"]:
        if c[0] == "script":
            if stop_after is not None and n_timeouts >= stop_after:
                out.append({"exc": "Skipped", "msg": "earlier scripts of this batch ran into the limit", "audit": [], "wall": 0.0})
                continue
            out.append(do_script(c[1], limit))
            if out[-1]["exc"] == "Timeout":
                n_timeouts += 1
        elif c[0] == "expr":
            out.append(do_expr(c[1], c[2], limit))
        elif c[0] == "ref":
            try:
                out.append({"cpp_sha": hashlib.sha256(emit(parse(c[1])).encode()).hexdigest()})
            except BaseException as e:  # noqa
                out.append({"cpp_sha": "exc:" + type(e).__name__})
        elif c[0] == "blowup":
            signal.alarm(limit)
            try:
                v = _eval_const("2**2**%d" % int(c[1]), {})
                out.append({"bits": v.bit_length() if isinstance(v, int) else None})
            except BaseException as e:  # noqa
                out.append({"bits": None, "exc": type(e).__name__})
            finally:
                signal.alarm(0)
        elif c[0] == "session":
            out.append(do_session(c[1], bool(c[2]) if len(c) > 2 else False, limit))
        elif c[0] == "variants":
            if stop_after is not None and n_timeouts >= stop_after:
                out.append({"exc": "Skipped", "msg": "earlier scripts of this batch ran into the limit", "audit": [], "wall": 0.0, "n_parses": 0, "parses": [], "n_blocks": 0})
                continue
            out.append(do_variants(c[1], limit))
            if out[-1]["exc"] == "Timeout":
                n_timeouts += 1
        elif c[0] == "target":
            out.append(do_target(c[1], c[2], c[3], limit))
        elif c[0] == "rematch":
            out.append(do_rematch(c[1], c[2], c[3], c[4], c[5]))
        elif c[0] == "tables":
            out.append({"safe_casts": list(P._SAFE_CASTS), "safe_names": sorted(P._SAFE_NAME_REFERENCES),
                        "max_const_bits": getattr(P, "_MAX_CONST_BITS", None)})
    json.dump(out, sys.stdout)


main()
