"""Implementation side of C11: runs the real transpiler (parse + emit) and the real _eval_const on hostile inputs
and reports what it did - exception kind, audit events (sys.addaudithook), builtins called (sys.setprofile),
primitive operations (recording wrappers put into the parser module's own namespace: its `op` module alias,
the values of _SAFE_CASTS, max / min / abs), wall time.  JSON stdin -> JSON stdout.

cases
  ["script", text]                 -> {"exc", "msg", "audit": [...], "wall"}
  ["expr", src, env]               -> {"res", "prims": [...], "builtins": [...], "audit": [...]}
  ["ref", text]                    -> {"cpp_sha"}        (state-leak probe: same text before / after the stream)
  ["blowup", n]                    -> {"bits", "exc"}     bit length of _eval_const("2**2**n"), or the exception it raises
"""
import ast
import hashlib
import json
import math
import resource
import signal
import sys
import time
from fractions import Fraction

from Reduino.transpile import parser as P
from Reduino.transpile.parser import _eval_const, _ExprStr, parse
from Reduino.transpile.emitter import emit

WATCH_PREFIX = ("os.", "subprocess.", "socket.", "shutil.", "ctypes.", "urllib.", "http.", "ftplib.", "smtplib.",
                "webbrowser.", "pty.", "glob.", "tempfile.", "pathlib.", "sqlite3.", "winreg.", "msvcrt.", "fcntl.", "mmap.")
WATCH = {"open", "exec", "import", "builtins.input", "builtins.breakpoint", "sys.addaudithook", "sys.setprofile_x",
         "cpython.run_command", "cpython.run_file", "marshal.loads", "pickle.find_class", "code.__new__"}
_rec = {"on": False, "events": []}


def _hook(event, args):
    if not _rec["on"]:
        return
    if event in WATCH or event.startswith(WATCH_PREFIX):
        # CPython internals, not accesses of the transpiler: building a SyntaxError looks the source line up in a
        # file named like the pseudo file name; the tokenizer imports unicodedata for non-ASCII identifiers
        if event == "open" and args and args[0] in ("<unknown>", "<string>", "<stdin>", "<expr>"):
            return
        if event == "import" and args and args[0] == "unicodedata":
            return
        try:
            a = repr(args)[:120]
        except BaseException:  # noqa
            a = "?"
        _rec["events"].append([event, a])


sys.addaudithook(_hook)


class _Timeout(BaseException):
    pass


def _alarm(sig, frm):
    raise _Timeout()


def enc(v):
    if isinstance(v, _ExprStr):
        return ["other", "_ExprStr"]
    if isinstance(v, bool):
        return ["bool", v]
    if isinstance(v, int):
        if v.bit_length() > 20000:
            return ["special", "hugeint"]
        return ["int", hex(v)]
    if isinstance(v, float):
        if not math.isfinite(v):
            return ["special", repr(v)]
        f = Fraction(v)
        return ["float", hex(f.numerator), hex(f.denominator)]
    if isinstance(v, str):
        return ["str", v]
    if isinstance(v, list):
        return ["list", [enc(x) for x in v]]
    if isinstance(v, tuple):
        return ["tuple", [enc(x) for x in v]]
    if v is None:
        return ["none"]
    return ["other", type(v).__name__]


def dec(w):
    t = w[0]
    if t == "mark":
        return _ExprStr("m")
    if t == "bool":
        return bool(w[1])
    if t == "int":
        return int(w[1], 16)
    if t == "float":
        return int(w[1], 16) / int(w[2], 16)
    if t == "str":
        return w[1]
    if t == "list":
        return [dec(x) for x in w[1]]
    if t == "tuple":
        return tuple(dec(x) for x in w[1])
    return None


def do_script(text, limit):
    _rec["events"] = []
    exc = msg = None
    t0 = time.time()
    signal.alarm(limit)
    _rec["on"] = True
    try:
        prog = parse(text)
        emit(prog)
    except _Timeout:
        exc, msg = "Timeout", f"> {limit}s"
    except BaseException as e:  # noqa
        exc, msg = type(e).__name__, str(e)[:200]
    finally:
        _rec["on"] = False
        signal.alarm(0)
    if hasattr(P, "_VERIF_IGNORED"):
        del P._VERIF_IGNORED[:]
    return {"exc": exc, "msg": msg, "audit": _rec["events"][:10], "wall": round(time.time() - t0, 3)}


class _OpProxy:
    def __init__(self, real, log):
        self._real, self._log = real, log

    def __getattr__(self, name):
        f = getattr(self._real, name)
        log = self._log

        def g(*a, **k):
            log.append(["arith", name])
            return f(*a, **k)
        return g


def do_expr(src, env_w, limit):
    env = {k: dec(v) for k, v in env_w.items()}
    prims, builtins_called = [], []
    saved = {"op": P.op, "casts": dict(P._SAFE_CASTS)}
    P.op = _OpProxy(saved["op"], prims)
    for k, f in saved["casts"].items():
        P._SAFE_CASTS[k] = (lambda kk, ff: (lambda *a, **kw: (prims.append(["cast", kk]), ff(*a, **kw))[1]))(k, f)
    for nm, kind in (("max", "minmax"), ("min", "minmax"), ("abs", "abs")):
        real = getattr(__builtins__, nm) if not isinstance(__builtins__, dict) else __builtins__[nm]
        setattr(P, nm, (lambda kk, ff: (lambda *a, **kw: (prims.append([kk]), ff(*a, **kw))[1]))(kind, real))

    def prof(frame, event, arg):
        if event == "c_call":
            mod = getattr(arg, "__module__", None)
            name = getattr(arg, "__qualname__", None) or getattr(arg, "__name__", "?")
            if mod in ("builtins", "posix", "nt", "os", "io", "_io", "subprocess", "socket", "_socket", "importlib", "_imp"):
                builtins_called.append(f"{mod}.{name}")
        elif event == "call":
            fn = frame.f_code.co_filename
            if not (fn.endswith("parser.py") or fn.endswith("ast.py") or "c11_impl" in fn or fn.startswith("<frozen")
                    or "/lib/python" in fn):
                builtins_called.append(f"pycall:{fn}:{frame.f_code.co_name}")

    _rec["events"] = []
    signal.alarm(limit)
    _rec["on"] = True
    sys.setprofile(prof)
    try:
        r = None
        try:
            r = _eval_const(src, env)
            res = ["ok", None]
        except _Timeout:
            res = ["exc", "Timeout"]
        except BaseException as e:  # noqa
            res = ["exc", type(e).__name__]
    finally:
        sys.setprofile(None)
        _rec["on"] = False
        signal.alarm(0)
        P.op = saved["op"]
        P._SAFE_CASTS.clear()
        P._SAFE_CASTS.update(saved["casts"])
        for nm in ("max", "min", "abs"):
            if nm in P.__dict__:
                del P.__dict__[nm]
    if res[0] == "ok":
        res = ["ok", enc(r)]
    return {"res": res, "prims": prims, "builtins": sorted(set(b for b in builtins_called if b != "builtins.setprofile")),
            "audit": _rec["events"][:10]}


def main():
    req = json.load(sys.stdin)
    limit = int(req.get("limit", 30))
    try:
        resource.setrlimit(resource.RLIMIT_AS, (8 << 30, 8 << 30))
    except Exception:  # noqa
        pass
    signal.signal(signal.SIGALRM, _alarm)
    out = []
    for c in req["cases"]:
        if c[0] == "script":
            out.append(do_script(c[1], limit))
        elif c[0] == "expr":
            out.append(do_expr(c[1], c[2], limit))
        elif c[0] == "ref":
            try:
                out.append({"cpp_sha": hashlib.sha256(emit(parse(c[1])).encode()).hexdigest()})
            except BaseException as e:  # noqa
                out.append({"cpp_sha": "exc:" + type(e).__name__})
        elif c[0] == "blowup":
            signal.alarm(limit)
            try:
                v = _eval_const("2**2**%d" % int(c[1]), {})
                out.append({"bits": v.bit_length() if isinstance(v, int) else None})
            except BaseException as e:  # noqa
                out.append({"bits": None, "exc": type(e).__name__})
            finally:
                signal.alarm(0)
        elif c[0] == "tables":
            out.append({"safe_casts": list(P._SAFE_CASTS), "safe_names": sorted(P._SAFE_NAME_REFERENCES),
                        "max_const_bits": getattr(P, "_MAX_CONST_BITS", None)})
    json.dump(out, sys.stdout)


main()
