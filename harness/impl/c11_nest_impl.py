"""Implementation side of C11's stack-depth part: the real parse() / emit() on the scripts of program trees
(harness/c11_nest.py), in a process WITHOUT audit hook or profiler of its own (a Python-level audit hook is itself a frame on
the interpreter stack whenever an event fires, e.g. inside ast.parse).  JSON stdin -> JSON stdout.

cases
  ["need", tree]                  -> {"parse", "need_parse", "emit", "need_emit"}   deepest interpreter frame of parse() / emit(),
                                     in frames above the caller (sys.setprofile during the measurement only)
  ["run", tree | text, room]      -> {"parse": null | kind, "emit": null | kind}   the pipeline with `room` frames left for each stage
                                     (room 999 = a script that calls parse() at module level under the default limit of 1000)
  ["boundary", spec, room]        -> c11_nest.boundary: the deepest accepted ladder of a family and what emit() does there
  ["first-failing", spec, room]   -> the shallowest ladder parse() accepts and emit() fails on (null: none)
  ["short", tree | text, n]       -> c11_nest.emit_when_short: what emit() does when it is n frames short of its need
"""
import json
import os
import sys

sys.path.insert(0, os.path.dirname(os.path.dirname(os.path.abspath(__file__))))
import c11_nest as NEST  # noqa: E402


def main():
    req = json.load(sys.stdin)
    out = []
    for c in req["cases"]:
        if c[0] == "need":
            out.append(NEST.needs_of_text(NEST.render(c[1])))
        elif c[0] == "run":
            out.append(NEST.run_with_headroom(c[1] if isinstance(c[1], str) else NEST.render(c[1]), int(c[2])))
        elif c[0] == "boundary":
            out.append(NEST.boundary(c[1], int(c[2])))
        elif c[0] == "short":
            out.append(NEST.emit_when_short(c[1] if isinstance(c[1], str) else NEST.render(c[1]), int(c[2])))
        elif c[0] == "first-failing":
            out.append(NEST.first_failing(c[1], int(c[2])))
        else:
            out.append({"error": "unknown case"})
    json.dump(out, sys.stdout)


main()
