"""Implementation side of C12: runs the real Reduino.target() on scenarios (JSON on stdin).

Nothing outside the scenario's scratch directory is touched and no real process is ever
started: while target() runs,
  * subprocess.run (the module attribute used by Reduino.toolchain.pio) is a recorder that
    answers for a usable `pio`, for one that cannot be used (scenario key "pio": true/"ok",
    false/"absent" -> FileNotFoundError, "noexec" -> PermissionError, "badformat" ->
    OSError(ENOEXEC), "notdir" -> NotADirectoryError, each on every start of pio;
    "exit" -> `pio --version` starts and exits non-zero), for non-zero exits of the build /
    upload (faults "build", "upload") and for a pio that can no longer be started at the
    build / upload although the probe worked (faults "buildexec", "uploadexec"),
  * an injected file-system failure is the OSError named by "fkind" (PermissionError,
    ENOSPC, FileNotFoundError, EROFS),
  * the default text encoding of the platform is a scenario parameter ("locale", default
    utf-8): a read_text / write_text on the script or inside the project that does not
    name an encoding gets that one, as it would on a machine with that locale,
  * tempfile.mkdtemp creates its directory inside the scratch directory (or fails),
  * pathlib.Path.read_text / write_text / mkdir are wrapped: calls on the fake __main__
    file and inside the project directory are recorded and may fail by injection, all
    other calls pass through untouched,
  * Reduino.parse / Reduino.emit / Reduino._collect_required_libraries (the globals
    target() looks up) are wrapped to record the attempt and keep their results,
  * sys.modules["__main__"].__file__ points at a file holding the scenario's script.
Afterwards the project directory is inspected on disk (main.cpp bytes, platformio.ini
read back with configparser).  The expected firmware text and library list are computed
by separate, un-patched calls of parse/emit/_collect_required_libraries."""
import configparser
import hashlib
import json
import os
import pathlib
import shutil
import subprocess
import sys
import tempfile

import Reduino
from Reduino.toolchain import pio as pio_mod
from Reduino.transpile.emitter import emit as real_emit
from Reduino.transpile.parser import parse as real_parse

ORIG = {
    "run": subprocess.run, "call": subprocess.call, "check_call": subprocess.check_call,
    "check_output": subprocess.check_output, "Popen": subprocess.Popen,
    "getoutput": subprocess.getoutput, "getstatusoutput": subprocess.getstatusoutput,
    "system": os.system, "mkdtemp": tempfile.mkdtemp,
    "read_text": pathlib.Path.read_text, "write_text": pathlib.Path.write_text,
    "mkdir": pathlib.Path.mkdir,
    "parse": Reduino.parse, "emit": Reduino.emit, "libs": Reduino._collect_required_libraries,
}


class HarnessUnsupported(BaseException):
    """target() used an API the recorder does not emulate (never swallowed by `except Exception`)."""


def sha(s):
    if s is None:
        return None
    if isinstance(s, str):
        s = s.encode("utf-8", "surrogatepass")
    return hashlib.sha256(s).hexdigest()[:16]


def exc_kind(e):
    if isinstance(e, subprocess.CalledProcessError):
        return "CalledProcessError"
    if isinstance(e, OSError):
        return "OSError"
    if isinstance(e, RuntimeError):
        return "RuntimeError"
    if isinstance(e, ValueError):
        return "ValueError"
    return "Other:" + type(e).__name__


def expected_for(src):
    try:
        prog = real_parse(src)
        cpp = real_emit(prog)
        libs = list(ORIG["libs"](real_parse(src)))
        return {"status": "ok", "cpp": cpp, "libs": libs}
    except ValueError:
        return {"status": "ValueError"}
    except Exception as e:  # noqa
        return {"status": "Other:" + type(e).__name__}


EXEC_FAIL = {
    "absent": lambda: FileNotFoundError(2, "No such file or directory", "pio"),
    "noexec": lambda: PermissionError(13, "Permission denied", "pio"),
    "badformat": lambda: OSError(8, "Exec format error", "pio"),
    "notdir": lambda: NotADirectoryError(20, "Not a directory", "pio"),
}


FILE_FAIL = {
    "perm": lambda p: PermissionError(13, "Permission denied (injected)", p),
    "nospc": lambda p: OSError(28, "No space left on device (injected)", p),
    "notfound": lambda p: FileNotFoundError(2, "No such file or directory (injected)", p),
    "rofs": lambda p: OSError(30, "Read-only file system (injected)", p),
}


def pio_state(v):
    if v is True:
        return "ok"
    if v is False or v is None:
        return "absent"
    return str(v)


def classify_argv(argv):
    try:
        a = [str(x) for x in argv]
    except TypeError:
        return "RunOther"
    if not a or os.path.basename(a[0]) not in ("pio", "platformio"):
        return "RunOther"
    rest = a[1:]
    if rest == ["--version"]:
        return "RunPioVersion"
    if rest == ["run"]:
        return "RunBuild"
    if rest in (["run", "-t", "upload"], ["run", "--target", "upload"]):
        return "RunUpload"
    return "RunOther"


def read_ini(text):
    cp = configparser.ConfigParser(interpolation=None)
    try:
        cp.read_string(text)
    except configparser.Error as e:
        return {"__error__": type(e).__name__}
    out = {s: dict(cp.items(s)) for s in cp.sections()}
    if cp.defaults():
        out["DEFAULT"] = dict(cp.defaults())
    return out


def ini_fields(parsed):
    """(port, platform, board, libs) of the single env section, or None"""
    if "__error__" in parsed:
        return None
    secs = [s for s in parsed if s != "DEFAULT"]
    if len(secs) != 1 or not secs[0].startswith("env:"):
        return None
    d = parsed[secs[0]]
    libs = [l for l in d.get("lib_deps", "").split("\n") if l != ""]
    return d.get("upload_port"), d.get("platform"), d.get("board"), libs


def run_scenario(sc, scripts, expected, root):
    faults = set(sc["faults"])
    state = pio_state(sc.get("pio"))
    xkind = sc.get("xkind") or "absent"          # how a start of pio fails at the build / upload
    loc = sc.get("locale") or "utf-8"
    fkind = sc.get("fkind") or "perm"            # which OSError an injected file-system failure is

    def file_fail(path):
        return FILE_FAIL.get(fkind, FILE_FAIL["perm"])(path)
    scratch = pathlib.Path(ORIG["mkdtemp"](prefix="sc-", dir=root))
    main_path = scratch / "sketch_main.py"
    src = scripts[sc["script"]]
    with open(main_path, "w", encoding="utf-8", newline="") as f:
        f.write(src)
    main_abs = os.path.abspath(main_path)
    scratch_abs = os.path.abspath(scratch)
    st = {"tmp": None, "cpp": [], "libs": [], "depth": 0}
    events = []
    runs = []
    writes = {}

    def under(path, base):
        p = os.path.abspath(os.fspath(path))
        return base is not None and (p == base or p.startswith(base + os.sep))

    def dtag(path):
        if path is None:
            return "none"
        return "tmp" if st["tmp"] is not None and os.path.abspath(os.fspath(path)) == st["tmp"] else "other"

    # ---- subprocess
    def fake_run(args, *a, **kw):
        if a:
            raise HarnessUnsupported("subprocess.run with extra positional arguments")
        kind = classify_argv(args)
        check = bool(kw.get("check", False))
        cwd = kw.get("cwd")
        rec = {"kind": kind, "argv": [str(x) for x in args] if not isinstance(args, str) else args,
               "cwd": dtag(cwd), "check": check, "rc": None}
        runs.append(rec)
        events.append([kind] if kind == "RunPioVersion" else ([kind, dtag(cwd)] if kind != "RunOther" else [kind, rec["argv"]]))
        if state in EXEC_FAIL:
            raise EXEC_FAIL[state]()
        if (kind == "RunBuild" and "buildexec" in faults) or (kind == "RunUpload" and "uploadexec" in faults):
            raise EXEC_FAIL[xkind if xkind in EXEC_FAIL else "absent"]()
        fails = ((kind == "RunBuild" and "build" in faults) or (kind == "RunUpload" and "upload" in faults)
                 or (kind == "RunPioVersion" and state == "exit"))
        rc = int(sc.get("rc", 1) or 1) if fails else 0
        rec["rc"] = rc
        if rc and check:
            raise subprocess.CalledProcessError(rc, args)
        return subprocess.CompletedProcess(args, rc)

    def unsupported(name):
        def f(*a, **kw):
            raise HarnessUnsupported("process API not emulated: " + name)
        return f

    # ---- tempfile
    def fake_mkdtemp(suffix=None, prefix=None, dir=None):
        events.append(["Mkdtemp"])
        if "mkdtemp" in faults:
            raise file_fail(str(dir or scratch))
        d = ORIG["mkdtemp"](suffix=suffix, prefix=prefix, dir=str(scratch))
        if st["tmp"] is None:
            st["tmp"] = os.path.abspath(d)
        return d

    # ---- pathlib
    def rel(path):
        return os.path.relpath(os.path.abspath(os.fspath(path)), st["tmp"]).replace(os.sep, "/")

    def with_locale(a, kw):
        """an omitted / None encoding means the platform default: the scenario's locale"""
        if a:
            return ((a[0] if a[0] is not None else loc),) + tuple(a[1:]), kw
        if kw.get("encoding") is None:
            kw = dict(kw, encoding=loc)
        return a, kw

    def w_read_text(self, *a, **kw):
        if os.path.abspath(os.fspath(self)) == main_abs:
            events.append(["ReadMain"])
            if "readmain" in faults:
                raise file_fail(str(self))
            a, kw = with_locale(a, kw)
        return ORIG["read_text"](self, *a, **kw)

    def w_write_text(self, data, *a, **kw):
        if under(self, st["tmp"]):
            r = rel(self)
            a, kw = with_locale(a, kw)
            if r == "src/main.cpp":
                tag = "other"
                if any(data is c or data == c for c in st["cpp"]):
                    tag = "cpp"
                elif data == src:
                    tag = "src"
                events.append(["WriteMain", tag])
                writes.setdefault("main_arg", sha(data))
                if "writemain" in faults:
                    raise file_fail(str(self))
            elif r == "platformio.ini":
                f = ini_fields(read_ini(data)) if isinstance(data, str) else None
                if f is None:
                    tags = ["other"] * 4
                else:
                    libs_known = [list(dict.fromkeys(x for x in l if x)) for l in st["libs"]]
                    tags = ["port" if f[0] == sc["port"] else "other",
                            "platform" if f[1] == sc["platform"] else "other",
                            "board" if f[2] == sc["board"] else "other",
                            "libs" if f[3] in libs_known else ("omitted" if f[3] == [] else "other")]
                events.append(["WriteIni"] + tags)
                if isinstance(data, str):
                    writes.setdefault("ini_arg", data[:4000])
                if "writeini" in faults:
                    raise file_fail(str(self))
            else:
                events.append(["WriteOther", r])
        elif under(self, scratch_abs):
            events.append(["WriteOther", os.path.relpath(os.path.abspath(os.fspath(self)), scratch_abs)])
        return ORIG["write_text"](self, data, *a, **kw)

    def w_mkdir(self, *a, **kw):
        outer = st["depth"] == 0
        if outer and under(self, st["tmp"]):
            r = rel(self)
            events.append(["Mkdir", "tmp"] if r == "src" else ["MkdirOther", r])
            if "mkdir" in faults:
                raise file_fail(str(self))
        elif outer and under(self, scratch_abs):
            events.append(["MkdirOther", os.path.relpath(os.path.abspath(os.fspath(self)), scratch_abs)])
        st["depth"] += 1
        try:
            return ORIG["mkdir"](self, *a, **kw)
        finally:
            st["depth"] -= 1

    # ---- transpiler entry points as target() sees them
    def w_parse(*a, **kw):
        events.append(["Parse"])
        return ORIG["parse"](*a, **kw)

    def w_emit(*a, **kw):
        events.append(["Emit"])
        out = ORIG["emit"](*a, **kw)
        st["cpp"].append(out)
        return out

    def w_libs(*a, **kw):
        out = ORIG["libs"](*a, **kw)
        try:
            st["libs"].append(list(out))
        except TypeError:
            pass
        return out

    main_mod = sys.modules["__main__"]
    had_file = hasattr(main_mod, "__file__")
    old_file = getattr(main_mod, "__file__", None)
    old_cwd = os.getcwd()
    result = None
    ret_val = None
    try:
        subprocess.run = fake_run
        for n in ("call", "check_call", "check_output", "Popen", "getoutput", "getstatusoutput"):
            setattr(subprocess, n, unsupported("subprocess." + n))
        os.system = unsupported("os.system")
        tempfile.mkdtemp = fake_mkdtemp
        pathlib.Path.read_text = w_read_text
        pathlib.Path.write_text = w_write_text
        pathlib.Path.mkdir = w_mkdir
        Reduino.parse = w_parse
        Reduino.emit = w_emit
        Reduino._collect_required_libraries = w_libs
        main_mod.__file__ = str(main_path)
        os.chdir(scratch)
        try:
            ret_val = Reduino.target(sc["port"], upload=sc["upload"], platform=sc["platform"], board=sc["board"])
            if ret_val is None:
                result = ["returned", "none"]
            elif isinstance(ret_val, str) and any(ret_val is c or ret_val == c for c in st["cpp"]):
                result = ["returned", "cpp"]
            else:
                result = ["returned", "other"]
        except HarnessUnsupported as e:
            result = ["unsupported", str(e)]
        except BaseException as e:  # noqa
            result = ["raised", exc_kind(e), type(e).__name__,
                      type(e.__cause__).__name__ if e.__cause__ is not None else None]
    finally:
        os.chdir(old_cwd)
        subprocess.run = ORIG["run"]
        for n in ("call", "check_call", "check_output", "Popen", "getoutput", "getstatusoutput"):
            setattr(subprocess, n, ORIG[n])
        os.system = ORIG["system"]
        tempfile.mkdtemp = ORIG["mkdtemp"]
        pathlib.Path.read_text = ORIG["read_text"]
        pathlib.Path.write_text = ORIG["write_text"]
        pathlib.Path.mkdir = ORIG["mkdir"]
        Reduino.parse = ORIG["parse"]
        Reduino.emit = ORIG["emit"]
        Reduino._collect_required_libraries = ORIG["libs"]
        if had_file:
            main_mod.__file__ = old_file
        else:
            try:
                del main_mod.__file__
            except AttributeError:
                pass

    # ---- what is on disk now
    exp = expected[sc["script"]]
    tree = []
    for p in sorted(scratch.rglob("*")):
        r = str(p.relative_to(scratch)).replace(os.sep, "/")
        if r != "sketch_main.py":
            tree.append(r + ("/" if p.is_dir() else ""))
    disk = {"project_dir": None, "main_exists": False, "ini_exists": False}
    if st["tmp"] is not None and os.path.isdir(st["tmp"]):
        t = pathlib.Path(st["tmp"])
        disk["project_dir"] = str(t.relative_to(scratch))
        m = t / "src" / "main.cpp"
        if m.is_file():
            b = m.read_bytes()
            disk["main_exists"] = True
            disk["main_sha"] = sha(b)
            disk["main_equals_returned"] = isinstance(ret_val, str) and b == ret_val.encode("utf-8", "surrogatepass")
            disk["main_equals_expected"] = exp["status"] == "ok" and b == exp["cpp"].encode("utf-8", "surrogatepass")
        i = t / "platformio.ini"
        if i.is_file():
            txt = i.read_bytes().decode("utf-8", "replace")
            disk["ini_exists"] = True
            disk["ini_text"] = txt if len(txt) < 600 else txt[:600]
            disk["ini_parsed"] = read_ini(txt)
            f = ini_fields(disk["ini_parsed"])
            disk["ini_fields"] = None if f is None else {"port": f[0], "platform": f[1], "board": f[2], "libs": f[3]}
    out = {
        "events": events, "result": result, "runs": runs, "tree": tree, "disk": disk,
        "returned_is_str": isinstance(ret_val, str),
        "returned_sha": sha(ret_val) if isinstance(ret_val, str) else None,
        "returned_equals_expected": isinstance(ret_val, str) and exp["status"] == "ok" and ret_val == exp["cpp"],
        "main_arg_sha": writes.get("main_arg"),
        "ini_arg": writes.get("ini_arg"),
    }
    shutil.rmtree(scratch, ignore_errors=True)
    return out


def main():
    req = json.load(sys.stdin)
    scripts = req["scripts"]
    expected = {k: expected_for(v) for k, v in scripts.items()}
    base = os.environ.get("VERIF_SCRATCH") or None
    root = ORIG["mkdtemp"](prefix="c12-", dir=base)
    real_stdout = sys.stdout
    try:
        outs = []
        sys.stdout = sys.stderr          # anything target() prints must not corrupt the JSON
        for sc in req["cases"]:
            outs.append(run_scenario(sc, scripts, expected, root))
    finally:
        sys.stdout = real_stdout
        shutil.rmtree(root, ignore_errors=True)
    json.dump({
        "expected": {k: {"status": v["status"], "libs": v.get("libs"), "cpp_sha": sha(v.get("cpp")), "cpp_len": len(v.get("cpp", ""))}
                     for k, v in expected.items()},
        "results": outs,
    }, sys.stdout)


main()
