"""Implementation side of C13: runs the real pio.py on JSON cases (stdin) -> JSON (stdout)."""
import configparser
import json
import os
import re
import sys
import tempfile
from pathlib import Path

from Reduino.toolchain import pio


def kind_of(msg: str) -> int:
    if re.search(r"[Uu]nsupported PlatformIO platform", msg):
        return 1
    if re.search(r"[Uu]nsupported PlatformIO board", msg):
        return 2
    if re.search(r"requires PlatformIO platform", msg):
        return 3
    return 0


def do_validate(pl, b):
    try:
        r = pio.validate_platform_board(pl, b)
    except ValueError as e:
        return ["ValueError", kind_of(str(e))]
    except Exception as e:  # noqa
        return ["Other", type(e).__name__]
    return ["ok", repr(r)]


def tree(root: Path):
    out = []
    for p in sorted(root.rglob("*")):
        out.append(str(p.relative_to(root)) + ("/" if p.is_dir() else ""))
    return out


def read_ini(path):
    """configparser.ConfigParser(interpolation=None) on the file.
    parsed: what the public API shows ({section: dict(items)}, DEFAULT if non-empty) - used by the oracle;
    raw: the parser's own tables in insertion order, defaults NOT merged into the sections
         ([[section, [[key, value], ...]], ...], DEFAULT listed last if non-empty) - used to validate the ini_read model."""
    cp = configparser.ConfigParser(interpolation=None)
    try:
        cp.read(path, encoding="utf-8")
    except configparser.Error as e:
        return {"__error__": type(e).__name__}, {"__error__": type(e).__name__}
    parsed = {s: dict(cp.items(s)) for s in cp.sections()}
    if cp.defaults():
        parsed["DEFAULT"] = dict(cp.defaults())
    raw = [[s, [[k, v] for k, v in cp._sections[s].items()]] for s in cp.sections()]
    if cp.defaults():
        raw.append(["DEFAULT", [[k, v] for k, v in cp.defaults().items()]])
    return parsed, raw


def do_iniread(text):
    """the reader alone, on an arbitrary text stored as a UTF-8 file (no newline translation on write)"""
    with tempfile.TemporaryDirectory(prefix="c13r-", dir=os.environ.get("VERIF_SCRATCH")) as d:
        f = Path(d) / "x.ini"
        f.write_bytes(text.encode("utf-8"))
        return read_ini(f)[1]


def do_write(src, port, pl, b, libs, pre_existing):
    with tempfile.TemporaryDirectory(prefix="c13-", dir=os.environ.get("VERIF_SCRATCH")) as d:
        parent = Path(d)
        (parent / "sentinel.txt").write_text("keep")
        (parent / "other").mkdir()
        (parent / "other" / "x.txt").write_text("x")
        proj = parent / "proj"
        if pre_existing:
            (proj / "src").mkdir(parents=True)
            (proj / "src" / "main.cpp").write_text("old")
            (proj / "platformio.ini").write_text("[env:old]\nboard = old\n")
        before = tree(parent)
        try:
            pio.write_project(proj, src, port, platform=pl, board=b, lib_deps=libs)
        except ValueError as e:
            return {"status": "ValueError", "kind": kind_of(str(e)), "tree_unchanged": tree(parent) == before}
        except Exception as e:  # noqa
            return {"status": "Other", "exc": type(e).__name__, "msg": str(e)[:200]}
        after = tree(parent)
        outside_ok = (parent / "sentinel.txt").read_text() == "keep" and (parent / "other" / "x.txt").read_text() == "x"
        main_bytes = (proj / "src" / "main.cpp").read_bytes()
        ini_text = (proj / "platformio.ini").read_bytes().decode("utf-8")
        parsed, raw = read_ini(proj / "platformio.ini")
        return {"status": "ok", "main_equal": main_bytes == src.encode("utf-8"),
                "ini": ini_text, "parsed": parsed, "raw": raw, "new_entries": [x for x in after if x not in before],
                "removed_entries": [x for x in before if x not in after], "outside_ok": outside_ok}


def main():
    req = json.load(sys.stdin)
    out = []
    for c in req["cases"]:
        if c[0] == "validate":
            out.append(do_validate(c[1], c[2]))
        elif c[0] == "write":
            out.append(do_write(*c[1:]))
        elif c[0] == "registry":
            out.append({"platforms": {k: sorted(v) for k, v in pio.SUPPORTED_PLATFORMS.items()},
                        "b2p": dict(pio.BOARD_TO_PLATFORM)})
        elif c[0] == "iniread":
            out.append(do_iniread(c[1]))
        elif c[0] == "libsec":
            out.append(pio._format_lib_section(c[1]))
        elif c[0] == "envname":
            out.append(pio._sanitize_env_name(c[1]))
    json.dump(out, sys.stdout)


main()
