"""Implementation side of C13: runs the real pio.py on JSON cases (stdin) -> JSON (stdout)."""
import configparser
import hashlib
import json
import os
import re
import sys
import tempfile
from pathlib import Path

from Reduino.toolchain import pio


def kind_of(msg: str) -> int:
    """which of the three rejections (the message quotes the caller's names, which may themselves contain
    message fragments: the head of the message decides, the old unanchored search is only the fallback)"""
    if re.match(r"\s*[Uu]nsupported PlatformIO platform", msg):
        return 1
    if re.match(r"\s*[Uu]nsupported PlatformIO board", msg):
        return 2
    if re.match(r"\s*[Bb]oard\b", msg) and re.search(r"requires PlatformIO platform", msg):
        return 3
    if re.search(r"[Uu]nsupported PlatformIO platform", msg):
        return 1
    if re.search(r"[Uu]nsupported PlatformIO board", msg):
        return 2
    if re.search(r"requires PlatformIO platform", msg):
        return 3
    return 0


def do_validate(pl, b):
    try:
        r = pio.validate_platform_board(pl, b)
    except ValueError as e:
        return ["ValueError", kind_of(str(e))]
    except Exception as e:  # noqa
        return ["Other", type(e).__name__]
    return ["ok", repr(r)]


def tree(root: Path):
    out = []
    for p in sorted(root.rglob("*")):
        out.append(str(p.relative_to(root)) + ("/" if p.is_dir() and not p.is_symlink() else ""))
    return out


def snapshot(root: Path):
    """names AND contents: {relative path: sha1 of the bytes | 'dir' | 'link:<target>'}"""
    out = {}
    for p in sorted(root.rglob("*")):
        rel = str(p.relative_to(root))
        if p.is_symlink():
            out[rel] = "link:" + os.readlink(p)
        elif p.is_dir():
            out[rel + "/"] = "dir"
        else:
            out[rel] = hashlib.sha1(p.read_bytes()).hexdigest()
    return out


def read_ini(path):
    """configparser.ConfigParser(interpolation=None) on the file.
    parsed: what the public API shows ({section: dict(items)}, DEFAULT if non-empty) - used by the oracle;
    raw: the parser's own tables in insertion order, defaults NOT merged into the sections
         ([[section, [[key, value], ...]], ...], DEFAULT listed last if non-empty) - used to validate the ini_read model."""
    cp = configparser.ConfigParser(interpolation=None)
    try:
        cp.read(path, encoding="utf-8")
    except configparser.Error as e:
        return {"__error__": type(e).__name__}, {"__error__": type(e).__name__}
    parsed = {s: dict(cp.items(s)) for s in cp.sections()}
    if cp.defaults():
        parsed["DEFAULT"] = dict(cp.defaults())
    raw = [[s, [[k, v] for k, v in cp._sections[s].items()]] for s in cp.sections()]
    if cp.defaults():
        raw.append(["DEFAULT", [[k, v] for k, v in cp.defaults().items()]])
    return parsed, raw


def do_iniread(text):
    """the reader alone, on an arbitrary text stored as a UTF-8 file (no newline translation on write)"""
    with tempfile.TemporaryDirectory(prefix="c13r-", dir=os.environ.get("VERIF_SCRATCH")) as d:
        f = Path(d) / "x.ini"
        f.write_bytes(text.encode("utf-8"))
        return read_ini(f)[1]


# how the project directory is spelled by the caller (always the same directory <parent>/<PROJ_REL[form]>)
PROJ_REL = {0: "proj", 1: "proj", 2: "a b/\u00e9 \u6f22/proj", 3: "proj", 4: "deep/er/proj"}


def project_path(parent: Path, form: int) -> Path:
    if form == 1:          # relative to the current directory (which is <parent>/cwd)
        return Path("..") / "proj"
    if form == 2:          # missing ancestors with blanks and non-ASCII names
        return parent / "a b" / "\u00e9 \u6f22" / "proj"
    if form == 3:          # not normalised: '.', '..' and a trailing component
        return Path(str(parent) + "/./other/../proj")
    if form == 4:          # relative, missing ancestors
        return Path("..") / "deep" / "er" / "proj"
    return parent / "proj"


def do_write(src, port, pl, b, libs, pre_existing, form=0):
    with tempfile.TemporaryDirectory(prefix="c13-", dir=os.environ.get("VERIF_SCRATCH")) as d:
        parent = Path(d).resolve()
        (parent / "sentinel.txt").write_text("keep")
        (parent / "other").mkdir()
        (parent / "other" / "x.txt").write_text("x")
        # the process' current directory and HOME are inside the watched tree, so a file dropped
        # "next to the script" or into the user's home shows up as an entry outside the project
        (parent / "cwd").mkdir()
        (parent / "home").mkdir()
        old_cwd, old_home = os.getcwd(), os.environ.get("HOME")
        os.chdir(parent / "cwd")
        os.environ["HOME"] = str(parent / "home")
        try:
            return _do_write(parent, src, port, pl, b, libs, pre_existing, form)
        finally:
            os.chdir(old_cwd)
            if old_home is None:
                os.environ.pop("HOME", None)
            else:
                os.environ["HOME"] = old_home


def _do_write(parent, src, port, pl, b, libs, pre_existing, form):
        proj = project_path(parent, form)
        real = parent / PROJ_REL[form]
        if isinstance(pre_existing, list):
            # the project directory was written before by an earlier write_project call (a related source,
            # another port / library list): the property says "always writes", whatever is already there
            src0, port0, libs0 = pre_existing[1:4]
            pl0, b0 = (pre_existing[4], pre_existing[5]) if len(pre_existing) >= 6 else (pl, b)
            try:
                pio.write_project(proj, src0, port0, platform=pl0, board=b0, lib_deps=libs0)
            except Exception as e:  # noqa - the earlier call is itself a write for a registered pair inside the guard
                return {"status": "Other", "exc": type(e).__name__, "msg": str(e)[:200], "stage": "the earlier write_project call",
                        "earlier_call": [src0[:80], port0, pl0, b0, libs0]}
        elif pre_existing:
            (real / "src").mkdir(parents=True)
            (real / "src" / "main.cpp").write_text("old")
            (real / "platformio.ini").write_text("[env:old]\nboard = old\n")
        before = tree(parent)
        snap = snapshot(parent)
        try:
            pio.write_project(proj, src, port, platform=pl, board=b, lib_deps=libs)
        except ValueError as e:
            return {"status": "ValueError", "kind": kind_of(str(e)), "tree_unchanged": snapshot(parent) == snap}
        except Exception as e:  # noqa
            return {"status": "Other", "exc": type(e).__name__, "msg": str(e)[:200]}
        after = tree(parent)
        snap2 = snapshot(parent)
        prefix = PROJ_REL[form] + "/"
        changed_outside = sorted(k for k in set(snap) | set(snap2)
                                 if snap.get(k) != snap2.get(k) and not k.startswith(prefix) and not prefix.startswith(k))
        outside_ok = (parent / "sentinel.txt").read_text() == "keep" and (parent / "other" / "x.txt").read_text() == "x"
        main_p, ini_p = real / "src" / "main.cpp", real / "platformio.ini"
        main_bytes = main_p.read_bytes() if main_p.is_file() else None
        try:
            ini_text = ini_p.read_bytes().decode("utf-8") if ini_p.is_file() else None
        except UnicodeDecodeError:
            ini_text = None
        parsed, raw = read_ini(ini_p) if ini_text is not None else ({"__error__": "missing"}, {"__error__": "missing"})
        return {"status": "ok", "main_equal": main_bytes == src.encode("utf-8"),
                "ini": ini_text, "parsed": parsed, "raw": raw, "new_entries": [x for x in after if x not in before],
                "removed_entries": [x for x in before if x not in after], "outside_ok": outside_ok,
                "changed_outside": changed_outside, "proj_rel": prefix}


def harvest():
    """every string the module itself holds: members (keys, values, elements, nested) of its module-level
    containers, its module-level strings, and the string constants of its source text"""
    import ast
    import inspect
    found = {}

    def add(s, where):
        if isinstance(s, str) and len(s) <= 80:
            found.setdefault(s, where)

    def walk(v, where, depth=0):
        if isinstance(v, str):
            add(v, where)
        elif depth < 4 and isinstance(v, dict):
            for k, x in v.items():
                walk(k, where + ".key", depth + 1)
                walk(x, where + ".value", depth + 1)
        elif depth < 4 and isinstance(v, (set, frozenset, list, tuple)):
            for x in v:
                walk(x, where, depth + 1)

    for name, v in vars(pio).items():
        if name.startswith("__") and name.endswith("__"):
            continue
        walk(v, name)
    try:
        for node in ast.walk(ast.parse(inspect.getsource(pio))):
            if isinstance(node, ast.Constant) and isinstance(node.value, str):
                add(node.value, "source-constant")
    except (OSError, SyntaxError):
        pass
    return sorted(found.items())


def main():
    req = json.load(sys.stdin)
    out = []
    for c in req["cases"]:
        if c[0] == "validate":
            out.append(do_validate(c[1], c[2]))
        elif c[0] == "write":
            out.append(do_write(*c[1:]))
        elif c[0] == "registry":
            out.append({"platforms": {k: sorted(v) for k, v in pio.SUPPORTED_PLATFORMS.items()},
                        "b2p": dict(pio.BOARD_TO_PLATFORM)})
        elif c[0] == "iniread":
            out.append(do_iniread(c[1]))
        elif c[0] == "libsec":
            out.append(pio._format_lib_section(c[1]))
        elif c[0] == "envname":
            out.append(pio._sanitize_env_name(c[1]))
        elif c[0] == "harvest":
            out.append(harvest())
    json.dump(out, sys.stdout)


main()
