"""Implementation side of C14: real parse / _collect_required_libraries / emit / _format_lib_section.

stdin : {"sources": [script, ...]}
stdout: [{"ok": True, "libs": [...], "cpp": text, "libsec": text, "skeleton": [setup, loop, functions, globals],
          "names": {identifier: number}, "unencodable": [..]} | {"ok": False, "exc": kind, "msg": ...}]

The skeleton is the wire encoding of coq/Tool/Libs.v `node` (see coq/Wire/C14W.v), obtained by walking the
real Program dataclasses.
"""
import json
import signal
import sys

from Reduino import _collect_required_libraries
from Reduino.toolchain import pio
from Reduino.transpile import ast as A
from Reduino.transpile.emitter import emit
from Reduino.transpile.parser import parse


class _Timeout(Exception):
    pass


def _alarm(signum, frame):
    raise _Timeout()


def _holds_decl(value, seen=None) -> bool:
    """generic deep search (same shape as _program_contains) for a ServoDecl/LCDDecl below `value`"""
    seen = seen if seen is not None else set()
    if isinstance(value, (A.ServoDecl, A.LCDDecl)):
        return True
    if isinstance(value, (str, bytes, bytearray)):
        return False
    if isinstance(value, (list, tuple, set, frozenset)):
        return any(_holds_decl(v, seen) for v in value)
    if isinstance(value, dict):
        return any(_holds_decl(v, seen) for v in value.values())
    if hasattr(value, "__dict__"):
        if id(value) in seen:
            return False
        seen.add(id(value))
        return any(_holds_decl(v, seen) for v in value.__dict__.values())
    return False


class Skel:
    def __init__(self):
        self.names = {}
        self.unencodable = []

    def nid(self, name):
        return self.names.setdefault(str(name), len(self.names))

    def body(self, nodes, where):
        if not isinstance(nodes, list):
            self.unencodable.append(f"{where}: body is {type(nodes).__name__}")
            return []
        return [self.node(n, where) for n in nodes]

    def node(self, n, where):
        if isinstance(n, A.ServoDecl):
            return [0, self.nid(n.name)]
        if isinstance(n, A.LCDDecl):
            if n.interface == "parallel":
                return [1, self.nid(n.name)]
            if n.interface == "i2c":
                return [2, self.nid(n.name)]
            self.unencodable.append(f"{where}: LCDDecl.interface={n.interface!r}")
            return [4]
        if isinstance(n, A.IfStatement):
            if _holds_decl([b.condition for b in n.branches]):
                self.unencodable.append(f"{where}: decl in if condition")
            return [5, [self.body(b.body, where + "/if") for b in n.branches] + [self.body(n.else_body, where + "/else")]]
        if isinstance(n, A.WhileLoop):
            return [6, self.body(n.body, where + "/while")]
        if isinstance(n, A.ForRangeLoop):
            return [7, self.body(n.body, where + "/for")]
        if isinstance(n, A.TryStatement):
            return [8, [self.body(n.try_body, where + "/try")] + [self.body(h.body, where + "/except") for h in n.handlers]]
        # leaf: must not hide a declaration in some attribute the model does not know about
        if _holds_decl(n):
            self.unencodable.append(f"{where}: {type(n).__name__} holds a device declaration")
        if type(n).__name__.endswith("Decl"):
            return [3]
        return [4]

    def program(self, p):
        known = {"setup_body", "loop_body", "functions", "global_decls"}
        for k, v in p.__dict__.items():
            if k not in known and _holds_decl(v):
                self.unencodable.append(f"Program.{k} holds a device declaration")
        fns = []
        for f in p.functions:
            if isinstance(f, A.FunctionDef):
                fns.append(self.body(f.body, f"fn:{f.name}"))
                if _holds_decl([f.params, f.return_type, f.name]):
                    self.unencodable.append(f"fn:{f.name}: decl in signature")
            else:
                fns.append([self.node(f, "functions")])
        return [self.body(p.setup_body, "setup"), self.body(p.loop_body, "loop"), fns,
                self.body(p.global_decls, "globals")]


ONE_LINE_CMDS = ("LCDWrite", "LCDLine", "LCDClear", "LCDProgress")
OTHER_LCD_CMDS = ("LCDMessage", "LCDDisplay", "LCDBacklight", "LCDBrightness", "LCDGlyph", "LCDAnimate", "LCDTick")


class Items:
    """the same walk, keeping the argument fields of ServoDecl / LCDDecl and the LCD commands that emit exactly
    one line (wire encoding of coq/Tool/LibObjs.v `item`, see coq/Wire/C14W.v case 1)"""

    def __init__(self):
        self.unsupported = []

    def val(self, v, where):
        if v is None:
            return []
        if isinstance(v, bool) or not isinstance(v, (int, str)):
            self.unsupported.append(f"{where}: field value {v!r} ({type(v).__name__})")
            return []
        return [0, v] if isinstance(v, int) else [1, v]

    def pulse(self, v, where):
        if isinstance(v, float) and v == v and abs(v) != float("inf"):
            n, d = v.as_integer_ratio()
            return [2, {"frac": [n, d]}]
        if isinstance(v, bool) or not isinstance(v, (int, str)):
            self.unsupported.append(f"{where}: pulse bound {v!r} ({type(v).__name__})")
            return [0, 0]
        return [0, v] if isinstance(v, int) else [1, v]

    def body(self, nodes, where):
        return [self.node(n, where) for n in nodes] if isinstance(nodes, list) else []

    def node(self, n, where):
        t = type(n).__name__
        if isinstance(n, A.ServoDecl):
            return [0, str(n.name), self.val(n.pin, where), self.pulse(n.min_pulse_us, where), self.pulse(n.max_pulse_us, where)]
        if isinstance(n, A.LCDDecl):
            if n.interface not in ("parallel", "i2c"):
                self.unsupported.append(f"{where}: LCDDecl.interface={n.interface!r}")
            return [1, str(n.name), 1 if n.interface == "i2c" else 0] + [
                self.val(getattr(n, f), where) for f in ("cols", "rows", "rs", "en", "d4", "d5", "d6", "d7", "rw", "backlight_pin", "i2c_addr")]
        if isinstance(n, A.IfStatement):
            return [5, [self.body(b.body, where) for b in n.branches] + [self.body(n.else_body, where)]]
        if isinstance(n, A.WhileLoop):
            return [6, self.body(n.body, where)]
        if isinstance(n, A.ForRangeLoop):
            return [7, self.body(n.body, where)]
        if isinstance(n, A.TryStatement):
            return [8, [self.body(n.try_body, where)] + [self.body(h.body, where) for h in n.handlers]]
        if t in ONE_LINE_CMDS:
            return [9, str(n.name)]
        if t in OTHER_LCD_CMDS or t == "ServoWriteMicroseconds":
            self.unsupported.append(f"{where}: {t} (emits a number of lines the item model does not describe)")
            return [4]
        if t.endswith("Decl"):
            return [3]
        return [4]

    def program(self, p):
        fns = [self.body(f.body, f"fn:{f.name}") if isinstance(f, A.FunctionDef) else [self.node(f, "functions")] for f in p.functions]
        return [self.body(p.setup_body, "setup"), self.body(p.loop_body, "loop"), fns, self.body(p.global_decls, "globals")]


def one(src):
    prog = parse(src)
    libs = _collect_required_libraries(prog)
    sk = Skel()
    skeleton = sk.program(prog)      # before emit(): emit must not be able to disturb what the walk saw
    it = Items()
    items = it.program(prog)
    libs_json = [x if isinstance(x, str) else repr(x) for x in libs]
    cpp = emit(prog)
    libs_after = _collect_required_libraries(prog)
    return {"ok": True, "libs": libs_json, "libs_after_emit": [x if isinstance(x, str) else repr(x) for x in libs_after],
            "cpp": cpp, "libsec": pio._format_lib_section(libs), "skeleton": skeleton,
            "names": sk.names, "unencodable": sk.unencodable, "items": items, "items_unsupported": it.unsupported}


def main():
    req = json.load(sys.stdin)
    per = int(req.get("timeout", 20))
    signal.signal(signal.SIGALRM, _alarm)
    out = []
    for src in req["sources"]:
        signal.alarm(per)
        try:
            out.append(one(src))
        except _Timeout:
            out.append({"ok": False, "exc": "Timeout", "msg": f"> {per}s"})
        except BaseException as e:  # noqa
            out.append({"ok": False, "exc": type(e).__name__, "msg": str(e)[:300]})
        finally:
            signal.alarm(0)
    json.dump(out, sys.stdout)


main()
