"""Implementation side of C15 (host classes): drives the real Reduino.Sensors objects with scripted
signals.  JSON cases on stdin -> JSON results on stdout.

  ["button", has_callback, [levels...]]  -> {"calls": [[clicked, result], ...]}   one is_pressed() per level
  ["pot", [values...]]                   -> {"values": [...], "provider_calls": n}   one read() per value
  ["ultra", [[num, den] ...]]            -> {"values": [...]}                        one measure_distance() per distance
"""
import json
import sys
from fractions import Fraction

from Reduino.Sensors import Button, Potentiometer, Ultrasonic


def do_button(has_cb, levels):
    it = iter(levels)
    clicks = [0]

    def provider():
        return next(it)

    def cb():
        clicks[0] += 1

    try:
        b = Button(7, on_click=cb if has_cb else None, state_provider=provider)
        calls = []
        for _ in levels:
            before = clicks[0]
            r = b.is_pressed()
            calls.append([clicks[0] - before, r])
        return {"status": "ok", "calls": calls}
    except Exception as e:  # noqa
        return {"status": "exc", "exc": type(e).__name__}


def do_pot(values):
    it = iter(values)
    n = [0]

    def provider():
        n[0] += 1
        return next(it)

    try:
        p = Potentiometer("A0", value_provider=provider)
        out = [p.read() for _ in values]
        return {"status": "ok", "values": out, "provider_calls": n[0]}
    except Exception as e:  # noqa
        return {"status": "exc", "exc": type(e).__name__}


def do_ultra(dists):
    it = iter(dists)

    def provider():
        n, d = next(it)
        return float(Fraction(n, d))

    try:
        u = Ultrasonic(9, 10, distance_provider=provider)
        return {"status": "ok", "values": [u.measure_distance() for _ in dists]}
    except Exception as e:  # noqa
        return {"status": "exc", "exc": type(e).__name__}


def main():
    req = json.load(sys.stdin)
    out = []
    for c in req["cases"]:
        if c[0] == "button":
            out.append(do_button(c[1], c[2]))
        elif c[0] == "pot":
            out.append(do_pot(c[1]))
        elif c[0] == "ultra":
            out.append(do_ultra(c[1]))
        else:
            out.append({"status": "bad-case"})
    json.dump(out, sys.stdout)


main()
