"""Implementation side of C15 (host classes): drives the real Reduino.Sensors objects with scripted
signals.  JSON cases on stdin -> JSON results on stdout.

  ["button", has_callback, [levels...]]  -> {"calls": [[clicked, result], ...]}   one is_pressed() per level
  ["hist", h, provider, [provider values...], [["set", v] | ["poll"] ...]]
        -> {"calls": [[event...] per op], "ok": bool}   whole call history of one Button: h = -1 no on_click, n >= 0 an on_click
           handler that calls b.is_pressed() n times; provider: a state_provider is given (returns the listed values call after
           call, the last one repeats; none: False); event [0] = on_click entered, [1, r] = an is_pressed() call returned r;
           ok = False: the last listed call raised RecursionError (the history stops there)
  ["pot", [values...]]                   -> {"values": [...], "provider_calls": n}   one read() per value
  ["ultra", [[num, den] ...]]            -> {"values": [...]}                        one measure_distance() per distance
"""
import json
import sys
from fractions import Fraction

from Reduino.Sensors import Button, Potentiometer, Ultrasonic


def do_button(has_cb, levels):
    it = iter(levels)
    clicks = [0]

    def provider():
        return next(it)

    def cb():
        clicks[0] += 1

    try:
        b = Button(7, on_click=cb if has_cb else None, state_provider=provider)
        calls = []
        for _ in levels:
            before = clicks[0]
            r = b.is_pressed()
            calls.append([clicks[0] - before, r])
        return {"status": "ok", "calls": calls}
    except Exception as e:  # noqa
        return {"status": "exc", "exc": type(e).__name__}


def do_hist(h, provider, pvals, ops):
    log = []
    np_ = [0]

    def prov():
        k = np_[0]
        np_[0] += 1
        if not pvals:
            return False
        return pvals[k] if k < len(pvals) else pvals[-1]

    def poll():
        r = b.is_pressed()
        log.append([1, r])
        return r

    def cb():
        log.append([0])
        for _ in range(h):
            poll()

    try:
        kw = {}
        if h >= 0:
            kw["on_click"] = cb
        if provider:
            kw["state_provider"] = prov
        b = Button(7, **kw)
        calls = []
        for op in ops:
            del log[:]
            if op[0] == "set":
                r = b.set_pressed(op[1])
                if r is not None:
                    return {"status": "exc", "exc": "set_pressed returned " + repr(r)}
            else:
                try:
                    poll()
                except RecursionError:
                    calls.append(list(log))
                    return {"status": "ok", "calls": calls, "ok": False}
            calls.append(list(log))
        return {"status": "ok", "calls": calls, "ok": True}
    except Exception as e:  # noqa
        return {"status": "exc", "exc": type(e).__name__}


def do_pot(values):
    it = iter(values)
    n = [0]

    def provider():
        n[0] += 1
        return next(it)

    try:
        p = Potentiometer("A0", value_provider=provider)
        out = [p.read() for _ in values]
        return {"status": "ok", "values": out, "provider_calls": n[0]}
    except Exception as e:  # noqa
        return {"status": "exc", "exc": type(e).__name__}


def do_ultra(dists):
    it = iter(dists)

    def provider():
        n, d = next(it)
        return float(Fraction(n, d))

    try:
        u = Ultrasonic(9, 10, distance_provider=provider)
        return {"status": "ok", "values": [u.measure_distance() for _ in dists]}
    except Exception as e:  # noqa
        return {"status": "exc", "exc": type(e).__name__}


def main():
    req = json.load(sys.stdin)
    out = []
    for c in req["cases"]:
        if c[0] == "button":
            out.append(do_button(c[1], c[2]))
        elif c[0] == "hist":
            out.append(do_hist(c[1], c[2], c[3], c[4]))
        elif c[0] == "pot":
            out.append(do_pot(c[1]))
        elif c[0] == "ultra":
            out.append(do_ultra(c[1]))
        else:
            out.append({"status": "bad-case"})
    json.dump(out, sys.stdout)


main()
