"""Implementation side of C16 (tables only; the firmware itself is run through harness/fw.py):
reports the live melody tables of the real parser and emitter.  JSON stdin -> JSON stdout."""
import json
import sys

from Reduino.transpile import emitter, parser


def main():
    json.load(sys.stdin)
    tbl = emitter._BUZZER_MELODIES
    out = {
        "parser_names": sorted(parser._BUZZER_MELODIES),
        "emitter": {k: {"tempo": float(v["tempo"]), "sequence": [[float(f), float(b)] for f, b in v["sequence"]]}
                    for k, v in tbl.items()},
    }
    json.dump(out, sys.stdout)


main()
