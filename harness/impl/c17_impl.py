"""Implementation side of C17 (host half): drives the real Reduino.Displays.LCD with op
sequences given as JSON on stdin, prints the observable state after every call.

case  {"geom": [cols, rows, i2c, blpin|None], "ops": [op...]}
op    ["write", col, row, text, clear, align] | ["line", row, text, align, clear]
      | ["message", top|None, bottom|None, top_align, bottom_align, clear] | ["clear"]
      | ["progress", row, value, max_value, width|None, style, label|None]
      | ["display", on] | ["backlight", on] | ["brightness", level] | ["glyph", slot, bitmap]
grid  request {"grid": [[cols, width|None, max_value, [value...], label|None, style], ...]}: one fresh LCD
      (one row) per entry, progress(0, value, max_value, width=, style=, label=) for every value in order;
      -> per entry the list of filled lengths read back from LCD.buffer[0] (number of style glyphs at the
      start of the bar, the rest of the bar blank; the raw row string when the bar is not of that shape or
      is cut by the display edge; the exception class name when the call raises)
result {"ctor": "ok"|exc, "steps": [{"st": "ok"|exception class name, "buf": [row strings],
        "display": b, "backlight": b, "bright": n, "glyphs": {slot: [8 ints]}}...]}"""
import json
import sys

from Reduino.Displays import LCD


def make(geom):
    cols, rows, i2c, bl = geom
    if i2c:
        return LCD(i2c_addr=0x27, cols=cols, rows=rows, backlight_pin=bl)
    return LCD(rs=12, en=11, d4=5, d5=4, d6=3, d7=2, cols=cols, rows=rows, backlight_pin=bl)


def apply(lcd, op):
    k = op[0]
    if k == "write":
        lcd.write(op[1], op[2], op[3], clear_row=op[4], align=op[5])
    elif k == "line":
        lcd.line(op[1], op[2], align=op[3], clear_row=op[4])
    elif k == "message":
        lcd.message(op[1], op[2], top_align=op[3], bottom_align=op[4], clear_rows=op[5])
    elif k == "clear":
        lcd.clear()
    elif k == "progress":
        lcd.progress(op[1], op[2], op[3], width=op[4], style=op[5], label=op[6])
    elif k == "display":
        lcd.display(op[1])
    elif k == "backlight":
        lcd.backlight(op[1])
    elif k == "brightness":
        lcd.brightness(op[1])
    elif k == "glyph":
        lcd.glyph(op[1], op[2])
    else:
        raise AssertionError("unknown op " + repr(op))


def snapshot(lcd, st):
    return {"st": st, "buf": list(lcd.buffer), "dump": lcd.dump(), "display": bool(lcd.display_on),
            "backlight": bool(lcd.backlight_on), "bright": lcd.brightness_level,
            "glyphs": {str(k): list(v) for k, v in lcd.glyphs.items()}}


def run_case(case):
    try:
        lcd = make(case["geom"])
    except Exception as e:  # noqa
        return {"ctor": type(e).__name__, "steps": []}
    steps = []
    for op in case["ops"]:
        try:
            apply(lcd, op)
            st = "ok"
        except Exception as e:  # noqa
            st = type(e).__name__
        steps.append(snapshot(lcd, st))
    return {"ctor": "ok", "steps": steps}


GLYPH = {"block": "\u2588", "hash": "#", "pipe": "|", "dot": "."}


def run_grid(entry):
    cols, width, maxv, values, label, style = entry
    lcd = LCD(rs=12, en=11, d4=5, d5=4, d6=3, d7=2, cols=cols, rows=1)
    tw = cols if width is None else max(1, min(cols, width))
    start = (len(label) + 1) if label else 0
    glyph = GLYPH[style.lower()]
    out = []
    for v in values:
        try:
            lcd.progress(0, v, maxv, width=width, style=style, label=label)
        except Exception as e:  # noqa
            out.append(type(e).__name__)
            continue
        row = lcd.buffer[0]
        bar = row[start:start + tw]
        n = len(bar) - len(bar.lstrip(glyph))
        if len(row) != cols or len(bar) != tw or bar[n:].strip(" ") or row[start + tw:].strip(" ") \
                or (label and row[:start] != label + " "):
            out.append(row)
        else:
            out.append(n)
    return out


def main():
    req = json.load(sys.stdin)
    if "grid" in req:
        json.dump([run_grid(e) for e in req["grid"]], sys.stdout)
        return
    json.dump([run_case(c) for c in req["cases"]], sys.stdout)


main()
