"""Implementation side of C17 (host half): drives the real Reduino.Displays.LCD with op
sequences given as JSON on stdin, prints the observable state after every call.

case  {"geom": [cols, rows, i2c, blpin|None], "ops": [op...]}
op    ["write", col, row, text, clear, align] | ["line", row, text, align, clear]
      | ["message", top|None, bottom|None, top_align, bottom_align, clear] | ["clear"]
      | ["progress", row, value, max_value, width|None, style, label|None]
      | ["display", on] | ["backlight", on] | ["brightness", level] | ["glyph", slot, bitmap]
result {"ctor": "ok"|exc, "steps": [{"st": "ok"|exception class name, "buf": [row strings],
        "display": b, "backlight": b, "bright": n, "glyphs": {slot: [8 ints]}}...]}"""
import json
import sys

from Reduino.Displays import LCD


def make(geom):
    cols, rows, i2c, bl = geom
    if i2c:
        return LCD(i2c_addr=0x27, cols=cols, rows=rows, backlight_pin=bl)
    return LCD(rs=12, en=11, d4=5, d5=4, d6=3, d7=2, cols=cols, rows=rows, backlight_pin=bl)


def apply(lcd, op):
    k = op[0]
    if k == "write":
        lcd.write(op[1], op[2], op[3], clear_row=op[4], align=op[5])
    elif k == "line":
        lcd.line(op[1], op[2], align=op[3], clear_row=op[4])
    elif k == "message":
        lcd.message(op[1], op[2], top_align=op[3], bottom_align=op[4], clear_rows=op[5])
    elif k == "clear":
        lcd.clear()
    elif k == "progress":
        lcd.progress(op[1], op[2], op[3], width=op[4], style=op[5], label=op[6])
    elif k == "display":
        lcd.display(op[1])
    elif k == "backlight":
        lcd.backlight(op[1])
    elif k == "brightness":
        lcd.brightness(op[1])
    elif k == "glyph":
        lcd.glyph(op[1], op[2])
    else:
        raise AssertionError("unknown op " + repr(op))


def snapshot(lcd, st):
    return {"st": st, "buf": list(lcd.buffer), "dump": lcd.dump(), "display": bool(lcd.display_on),
            "backlight": bool(lcd.backlight_on), "bright": lcd.brightness_level,
            "glyphs": {str(k): list(v) for k, v in lcd.glyphs.items()}}


def run_case(case):
    try:
        lcd = make(case["geom"])
    except Exception as e:  # noqa
        return {"ctor": type(e).__name__, "steps": []}
    steps = []
    for op in case["ops"]:
        try:
            apply(lcd, op)
            st = "ok"
        except Exception as e:  # noqa
            st = type(e).__name__
        steps.append(snapshot(lcd, st))
    return {"ctor": "ok", "steps": steps}


def main():
    req = json.load(sys.stdin)
    json.dump([run_case(c) for c in req["cases"]], sys.stdout)


main()
