"""Implementation side of C18 (host half): drives the real Reduino.Displays.LCD object.

stdin JSON {"cases": [{"cols", "rows", "i2c": bool, "anims": [[style_name, row, text, speed, loop], ...],
                        "nows": [t, ...]}]}
stdout JSON list, one entry per case:
  {"new": "ok" | exc-kind,
   "animate": [{"status": "ok" | exc-kind, "events": [[row, text], ...]}],
   "snap": {"buffer": [...], "states": [[...12 fields...]], "keys": [...]},
   "ticks": [{"status": "ok" | exc-kind, "events": [[row, text], ...], "snap": {...}, "sleeps": n}],
   "cross": [{"by": operation, "changed": "peer" | "main", "before": {...}, "after": {...}}]}
A case may carry "between": {"k": [["line", row, text] | ["write", col, row, text] | ["clear"], ...]}: other LCD calls made just
before tick number k; that tick's entry then has "pre" = the snapshot after those calls (else null).
A case may carry "peer": {"cols", "rows", "anims": [...], "tick_before": [k, ...]}: a second display created before the
main one.  Its first animation is started before the main display's animate calls, the others after them, and it is
ticked (with the same time) just before the main display's ticks number k.  "cross" lists every operation on one of the
two displays across which the buffer or the animation states of the OTHER one changed.
A case with "hist": [op, ...] is a whole call history on ONE display (registry bookkeeping): op = ["animate", style, row,
text, speed, loop] | ["tick", now] | ["line", row, text] | ["clear"] | ["begin"] | (outside the model's vocabulary) ["write", col,
row, text] | ["message", top, bottom] | ["progress", row, value, max] | ["display", on] | ["backlight", on] | ["brightness", n] |
["glyph", slot, bitmap].  Result {"new", "hist": [per op
{"status", "events", "sleeps", "started": j | None, "snap": {"buffer", "keys", "states", "who": [j | -1, ...]},
 "tracked": [[registered?, [12 fields]], ...]}]}: every state object a successful animate call added to lcd.animations is
remembered (by identity) as tracked animation j; "who" names the tracked animation behind each registered value, "tracked"
reports for every remembered object whether lcd.animations still holds it and its current fields.
Every assignment  lcd.buffer[r] = s  is recorded through a list subclass (the object is otherwise
the real one); every call of time.sleep (hence of Reduino.Utils.sleep) is counted, never executed."""
import json
import sys
import time

SLEEPS = []


def _fake_sleep(seconds):
    SLEEPS.append(seconds)


time.sleep = _fake_sleep

from Reduino.Displays import LCD  # noqa: E402
import Reduino.Displays.LCD as lcd_mod  # noqa: E402

for _n in ("sleep",):
    if hasattr(lcd_mod, _n):
        setattr(lcd_mod, _n, lambda *a, **k: SLEEPS.append(a[0] if a else None))


class RecBuffer(list):
    """list that records item assignments (row index as given by the caller, value)"""

    def __init__(self, it, log):
        super().__init__(it)
        self.log = log

    def __setitem__(self, idx, value):
        self.log.append([idx if isinstance(idx, int) else repr(idx), value])
        super().__setitem__(idx, value)


FIELDS = ["animation", "row", "text", "speed_ms", "loop", "last_tick", "offset", "active",
          "direction", "visible", "show", "cycles"]


def snap(lcd):
    return {"buffer": list(lcd.buffer), "dump": lcd.dump(),
            "states": [[getattr(s, f) for f in FIELDS] for s in lcd.animations.values()],
            "keys": list(lcd.animations.keys())}


def kind(e):
    return type(e).__name__


def psnap(lcd):
    return {"buffer": list(lcd.buffer), "states": [[getattr(s, f) for f in FIELDS] for s in lcd.animations.values()]}


def run_case(c):
    out = {"animate": [], "ticks": []}
    peer = None
    if c.get("peer"):
        try:
            peer = LCD(i2c_addr=0x26, cols=c["peer"]["cols"], rows=c["peer"]["rows"])
        except Exception as e:  # noqa
            out["new"] = "peer:" + kind(e)
            return out
    try:
        if c.get("i2c"):
            lcd = LCD(i2c_addr=0x27, cols=c["cols"], rows=c["rows"])
        else:
            lcd = LCD(rs=12, en=11, d4=5, d5=4, d6=3, d7=2, cols=c["cols"], rows=c["rows"])
    except Exception as e:  # noqa
        out["new"] = kind(e)
        return out
    out["new"] = "ok"
    log = []
    lcd.buffer = RecBuffer(lcd.buffer, log)
    pc = c.get("peer")
    cross = []
    out["cross"] = cross

    def guarded(other, changed, by, op):
        """run op(); report when the display `other` (the one NOT operated on) changed across it"""
        if other is None:
            return op()
        before = psnap(other)
        try:
            return op()
        finally:
            after = psnap(other)
            if before != after:
                cross.append({"by": by, "changed": changed, "before": before, "after": after})

    def peer_op(by, op):
        try:
            guarded(lcd, "main", by, op)
        except Exception as e:  # noqa
            cross.append({"by": by, "changed": "peer", "before": "no exception", "after": kind(e)})

    if pc:
        for i, a in enumerate(pc["anims"][:1]):
            peer_op(f"peer.animate #{i}", lambda a=a: peer.animate(a[0], a[1], a[2], speed_ms=a[3], loop=a[4]))
    for i, a in enumerate(c["anims"]):
        del log[:]
        n0 = len(SLEEPS)
        try:
            guarded(peer, "peer", f"main.animate #{i}", lambda a=a: lcd.animate(a[0], a[1], a[2], speed_ms=a[3], loop=a[4]))
            st = "ok"
        except Exception as e:  # noqa
            st = kind(e)
        if not isinstance(lcd.buffer, RecBuffer):   # a whole-buffer assignment: not an item write
            log.append(["*", list(lcd.buffer)])
            lcd.buffer = RecBuffer(lcd.buffer, log)
        out["animate"].append({"status": st, "events": [list(x) for x in log], "sleeps": len(SLEEPS) - n0})
    if pc:
        for i, a in enumerate(pc["anims"][1:]):
            del log[:]
            peer_op(f"peer.animate #{i + 1}", lambda a=a: peer.animate(a[0], a[1], a[2], speed_ms=a[3], loop=a[4]))
    out["snap"] = snap(lcd)
    for k, now in enumerate(c["nows"]):
        if pc and k in pc.get("tick_before", []):
            del log[:]
            peer_op(f"peer.tick({now}) before main tick #{k}", lambda now=now: peer.tick(now))
        pre = None
        ops = (c.get("between") or {}).get(str(k))
        if ops:
            # other LCD calls between two ticks (the script's own writes): never a reason for tick to raise
            for op in ops:
                try:
                    if op[0] == "line":
                        lcd.line(op[1], op[2])
                    elif op[0] == "write":
                        lcd.write(op[1], op[2], op[3])
                    elif op[0] == "clear":
                        lcd.clear()
                except Exception as e:  # noqa
                    out.setdefault("between_errors", []).append([k, op, kind(e)])
            if not isinstance(lcd.buffer, RecBuffer):
                lcd.buffer = RecBuffer(lcd.buffer, log)
            pre = snap(lcd)
        del log[:]
        n0 = len(SLEEPS)
        t0 = time.perf_counter()
        try:
            if c.get("tick_none") and now == 0:
                lcd.tick()                      # now_ms=None -> 0
            elif c.get("tick_kw"):
                guarded(peer, "peer", f"main.tick({now}) #{k}", lambda now=now: lcd.tick(now_ms=now))
            else:
                guarded(peer, "peer", f"main.tick({now}) #{k}", lambda now=now: lcd.tick(now))
            st = "ok"
        except Exception as e:  # noqa
            st = kind(e)
        if not isinstance(lcd.buffer, RecBuffer):
            log.append(["*", list(lcd.buffer)])
            lcd.buffer = RecBuffer(lcd.buffer, log)
        out["ticks"].append({"status": st, "events": [list(x) for x in log], "snap": snap(lcd),
                             "sleeps": len(SLEEPS) - n0, "wall": time.perf_counter() - t0, "pre": pre})
        if st != "ok":
            break
    return out


def run_hist(c):
    out = {"hist": []}
    try:
        if c.get("i2c"):
            lcd = LCD(i2c_addr=0x27, cols=c["cols"], rows=c["rows"])
        else:
            lcd = LCD(rs=12, en=11, d4=5, d5=4, d6=3, d7=2, cols=c["cols"], rows=c["rows"])
    except Exception as e:  # noqa
        out["new"] = kind(e)
        return out
    out["new"] = "ok"
    log = []
    lcd.buffer = RecBuffer(lcd.buffer, log)
    tracked = []                # the state objects animate registered, in call order (strong references: ids stay unique)

    def fields(s):
        return [getattr(s, f) for f in FIELDS]

    for op in c["hist"]:
        del log[:]
        n0 = len(SLEEPS)
        before_ids = {id(v) for v in lcd.animations.values()}
        try:
            if op[0] == "animate":
                lcd.animate(op[1], op[2], op[3], speed_ms=op[4], loop=op[5])
            elif op[0] == "tick":
                lcd.tick(op[1])
            elif op[0] == "line":
                lcd.line(op[1], op[2])
            elif op[0] == "clear":
                lcd.clear()
            elif op[0] == "begin":
                lcd.begin()
            elif op[0] == "write":
                lcd.write(op[1], op[2], op[3])
            elif op[0] == "message":
                lcd.message(op[1], op[2])
            elif op[0] == "progress":
                lcd.progress(op[1], op[2], op[3])
            elif op[0] == "display":
                lcd.display(op[1])
            elif op[0] == "backlight":
                lcd.backlight(op[1])
            elif op[0] == "brightness":
                lcd.brightness(op[1])
            elif op[0] == "glyph":
                lcd.glyph(op[1], op[2])
            elif op[0] == "tick_none":
                lcd.tick()
            st = "ok"
        except Exception as e:  # noqa
            st = kind(e)
        if not isinstance(lcd.buffer, RecBuffer):   # a whole-buffer assignment (clear, begin): not an item write
            log.append(["*", list(lcd.buffer)])
            lcd.buffer = RecBuffer(lcd.buffer, log)
        started = None
        if op[0] == "animate":
            fresh = [v for v in lcd.animations.values() if id(v) not in before_ids]
            known = {id(t) for t in tracked}
            fresh = [v for v in fresh if id(v) not in known]
            if len(fresh) == 1:
                tracked.append(fresh[0])
                started = len(tracked) - 1
            elif len(fresh) > 1:
                started = "several"
        reg = list(lcd.animations.values())
        idx = {id(t): j for j, t in enumerate(tracked)}
        out["hist"].append({
            "status": st, "events": [list(x) for x in log], "sleeps": len(SLEEPS) - n0, "started": started,
            "snap": {"buffer": list(lcd.buffer), "keys": list(lcd.animations.keys()), "states": [fields(v) for v in reg],
                     "who": [idx.get(id(v), -1) for v in reg]},
            "tracked": [[any(v is t for v in reg), fields(t)] for t in tracked]})
    return out


def main():
    req = json.load(sys.stdin)
    json.dump([run_hist(c) if "hist" in c else run_case(c) for c in req["cases"]], sys.stdout)


main()
