"""Implementation side of unit C19_led: drives the real Reduino.Actuators.Led / RGBLed.

stdin : {"cases": [[cls, ctor_args, [[method, arg, ...], ...]], ...]}   cls in {"Led", "RGBLed"}
        arguments are plain JSON values (5 / 2.5 / true / null / "abc" / [..] for a pattern) or a
        state-relative argument {"cur": [i, delta, spelling]} (coq/Host/RelArgs.v): channel i of what
        get_color() returns at that point (Led: get_brightness()) + delta, spelled "int" | "bool"
        (True/False when the number is 1/0) | "float"; resolved HERE, against the real object
stdout: per case {"ctor": ["ok", snapshot] | [exc_kind], "ops": [per op
          {"res": "ok"|"ValueError"|"TypeError"|"Other:<name>", "ret": enc, "snap": {attr: enc},
           "events": [["s", enc] | ["l", [enc, ...]], ...],
           "args": [the concrete arguments the method was called with],
           "get": {getter name: enc of what the public getter returns after the call}}]}
        enc = ["i", n] | ["f", x] | ["b", bool] | ["n"] | ["t", [enc...]] | ["o", type name]

Sleep is recorded by replacing the package-level Reduino.Actuators.sleep exactly as
tests/test_actuators.py does; level events by wrapping Led.set_brightness / RGBLed.set_color
(in this process only): one event per COMPLETED call, carrying the value stored."""
import json
import sys

import Reduino.Actuators as A
from Reduino.Actuators import Led, RGBLed

EVENTS = []


def enc(v):
    if isinstance(v, bool):
        return ["b", v]
    if isinstance(v, int):
        return ["i", v]
    if isinstance(v, float):
        return ["f", v]
    if v is None:
        return ["n"]
    if isinstance(v, tuple):
        return ["t", [enc(x) for x in v]]
    return ["o", type(v).__name__]


def fake_sleep(duration, *, sleep_func=None):
    EVENTS.append(["s", enc(duration)])


A.sleep = fake_sleep

_orig_sb = Led.set_brightness
_orig_sc = RGBLed.set_color


def _sb(self, *a, **k):
    r = _orig_sb(self, *a, **k)
    EVENTS.append(["l", [enc(self.brightness)]])
    return r


def _sc(self, *a, **k):
    r = _orig_sc(self, *a, **k)
    c = self._color
    EVENTS.append(["l", [enc(x) for x in c] if isinstance(c, tuple) else [enc(c)]])
    return r


Led.set_brightness = _sb
RGBLed.set_color = _sc


def snapshot(obj):
    return {k: enc(v) for k, v in sorted(vars(obj).items())}


def kind_of(e):
    n = type(e).__name__
    return n if n in ("ValueError", "TypeError") else "Other:" + n


def getters(obj):
    out = {}
    names = ("get_state", "get_brightness") if isinstance(obj, Led) else ("get_color", "get_state", "pins")
    for n in names:
        try:
            v = getattr(obj, n)
            out[n] = enc(v if n == "pins" else v())
        except Exception as e:  # noqa
            out[n] = ["o", "raised " + type(e).__name__]
    return out


def resolve(obj, a):
    """a state-relative argument -> the concrete Python value, read through the public getter"""
    if isinstance(a, list):
        return [resolve(obj, e) for e in a]
    if not (isinstance(a, dict) and "cur" in a):
        return a
    i, delta, sp = a["cur"]
    base = obj.get_brightness() if isinstance(obj, Led) else obj.get_color()[i]
    v = base + delta
    if sp == "float":
        return float(v)
    if sp == "bool" and v in (0, 1):
        return bool(v)
    return v


def call(obj, name, args):
    if name == "pins":              # a property
        return obj.pins
    return getattr(obj, name)(*args)


def run_case(case):
    cls, cargs, ops = case
    klass = {"Led": Led, "RGBLed": RGBLed}[cls]
    try:
        obj = klass(*cargs)
    except Exception as e:  # noqa
        return {"ctor": [kind_of(e)], "ops": []}
    out = {"ctor": ["ok", snapshot(obj)], "get0": getters(obj), "ops": []}
    for op in ops:
        name = op[0]
        args = [resolve(obj, a) for a in op[1:]]
        del EVENTS[:]
        rec = {"args": args}
        try:
            r = call(obj, name, args)
            rec["res"] = "ok"
            rec["ret"] = enc(r)
        except Exception as e:  # noqa
            rec["res"] = kind_of(e)
            rec["ret"] = ["n"]
        rec["snap"] = snapshot(obj)
        rec["events"] = list(EVENTS)
        rec["get"] = getters(obj)
        out["ops"].append(rec)
    return out


def signatures():
    """positional parameters (without self) of every public method: [[name, has_default, default], ...]"""
    import inspect
    out = {}
    for klass in (Led, RGBLed):
        d = {}
        for name, fn in vars(klass).items():
            if name.startswith("_") and name != "__init__":
                continue
            f = {_sb: _orig_sb, _sc: _orig_sc}.get(fn, fn)
            if not inspect.isfunction(f):
                continue
            ps = list(inspect.signature(f).parameters.values())[1:]
            d[name] = [[q.name, q.default is not inspect.Parameter.empty,
                        None if q.default is inspect.Parameter.empty else q.default] for q in ps]
        out[klass.__name__] = d
    return out


def main():
    req = json.load(sys.stdin)
    if req.get("signatures"):
        json.dump(signatures(), sys.stdout)
        return
    json.dump([run_case(c) for c in req["cases"]], sys.stdout)


main()
