"""Implementation side of unit C19_motor: drives the real Reduino.Actuators.Servo /
DCMotor classes on JSON cases (stdin) and prints JSON (stdout).

Values are tagged lists: ["i", n] int | ["f", num, den] float (exact ratio) | ["b", v] bool |
["o"] None | ["s", text] str | ["t", [..]] tuple | ["x", repr] non-finite float | ["?", repr].
An omitted optional argument is JSON null.

case   = {"cls": "servo"|"motor", "ctor": [values or null], "ops": [[name, value...], ...]}
result = {"ctor": ["ok", snapshot] | ["raise", exc_name],
          "steps": [{"res": "ok"|"raise", "ret": value | exc_name, "snap": {attr: value},
                     "events": [["lvl", ...] | ["sleep", value]], "get": {getter: value}}]}

Sleeps are recorded by replacing the package-level ``Reduino.Actuators.sleep`` (what
tests/test_actuators.py monkeypatches; DCMotor._sleep looks it up at call time).  Level
events (DESIGN.md A.2) are recorded by wrapping Servo.write / write_us and
DCMotor._apply_speed / stop / coast in this process only; an event is appended when the
wrapped call completes.  "get" holds what the public getters return after the call.
"""
import functools
import json
import math
import sys

import Reduino.Actuators as A
from Reduino.Actuators.DCMotor import DCMotor
from Reduino.Actuators.Servo import Servo

EVENTS = []


def enc(v):
    if isinstance(v, bool):
        return ["b", v]
    if isinstance(v, int):
        return ["i", v]
    if isinstance(v, float):
        if not math.isfinite(v):
            return ["x", repr(v)]
        n, d = v.as_integer_ratio()
        return ["f", n, d]
    if v is None:
        return ["o"]
    if isinstance(v, str):
        return ["s", v]
    if isinstance(v, tuple):
        return ["t", [enc(x) for x in v]]
    return ["?", repr(v)[:80]]


def dec(t):
    k = t[0]
    if k == "i":
        return int(t[1])
    if k == "f":
        return int(t[1]) / int(t[2])      # exact: generators send dyadic rationals
    if k == "b":
        return bool(t[1])
    if k == "o":
        return None
    if k == "s":
        return t[1]
    raise ValueError(f"cannot decode {t!r}")


def fake_sleep(duration, *, sleep_func=None):
    EVENTS.append(["sleep", enc(duration)])


A.sleep = fake_sleep


def wrap(cls, name, snap):
    orig = cls.__dict__[name]

    @functools.wraps(orig)
    def wrapper(self, *a, **kw):
        r = orig(self, *a, **kw)
        EVENTS.append(["lvl"] + snap(self))
        return r

    setattr(cls, name, wrapper)


def servo_lvl(s):
    return [enc(s._current_angle), enc(s._current_pulse)]


def motor_lvl(m):
    return [enc(m._speed), enc(m._applied_speed), enc(m._mode)]


wrap(Servo, "write", servo_lvl)
wrap(Servo, "write_us", servo_lvl)
wrap(DCMotor, "_apply_speed", motor_lvl)
wrap(DCMotor, "stop", motor_lvl)
wrap(DCMotor, "coast", motor_lvl)

SERVO_KW = ["min_angle", "max_angle", "min_pulse_us", "max_pulse_us"]
SERVO_GET = ["read", "read_us"]
MOTOR_GET = ["get_speed", "get_applied_speed", "is_inverted", "get_mode"]


def snapshot(obj):
    return {k: enc(v) for k, v in sorted(vars(obj).items())}


def getters(obj, names):
    out = {}
    for n in names:
        try:
            out[n] = enc(getattr(obj, n)())
        except Exception as e:  # noqa
            out[n] = ["?", "raised " + type(e).__name__]
    return out


def build(case):
    c = case["ctor"]
    if case["cls"] == "servo":
        args = [] if c[0] is None else [dec(c[0])]
        kw = {k: dec(v) for k, v in zip(SERVO_KW, c[1:]) if v is not None}
        return Servo(*args, **kw), SERVO_GET
    return DCMotor(*[dec(v) for v in c]), MOTOR_GET


def run_case(case):
    del EVENTS[:]
    try:
        obj, gnames = build(case)
    except Exception as e:  # noqa
        return {"ctor": ["raise", type(e).__name__], "steps": []}
    del EVENTS[:]
    out = {"ctor": ["ok", snapshot(obj)], "get0": getters(obj, gnames), "steps": []}
    for op in case["ops"]:
        name, args = op[0], [dec(a) for a in op[1:]]
        del EVENTS[:]
        try:
            r = getattr(obj, name)(*args)
            step = {"res": "ok", "ret": enc(r)}
        except Exception as e:  # noqa
            step = {"res": "raise", "ret": type(e).__name__}
        step["events"] = list(EVENTS)
        del EVENTS[:]
        step["snap"] = snapshot(obj)
        step["get"] = getters(obj, gnames)
        del EVENTS[:]
        out["steps"].append(step)
    return out


def main():
    req = json.load(sys.stdin)
    sys.stdout.write(json.dumps([run_case(c) for c in req["cases"]]))


main()
