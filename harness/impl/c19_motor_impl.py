"""Implementation side of unit C19_motor: the real Reduino.Actuators.DCMotor.DCMotor on JSON cases
(protocol and recording: c19_sm_runner.py).  Level events: one per completed
_apply_speed / stop / coast; sleeps through the package-level Reduino.Actuators.sleep."""
import c19_sm_runner as R
from Reduino.Actuators.DCMotor import DCMotor


def motor_lvl(m):
    return [R.enc(m._speed), R.enc(m._applied_speed), R.enc(m._mode)]


R.wrap(DCMotor, "_apply_speed", motor_lvl)
R.wrap(DCMotor, "stop", motor_lvl)
R.wrap(DCMotor, "coast", motor_lvl)


def build(c):
    return DCMotor(*[R.dec(v) for v in c])


R.main("motor", build, ["get_speed", "get_applied_speed", "is_inverted", "get_mode"])
