"""Implementation side of unit C19_servo: the real Reduino.Actuators.Servo.Servo on JSON cases
(protocol and recording: c19_sm_runner.py).  Level events: one per completed write / write_us."""
import c19_sm_runner as R
from Reduino.Actuators.Servo import Servo

SERVO_KW = ["min_angle", "max_angle", "min_pulse_us", "max_pulse_us"]


def servo_lvl(s):
    return [R.enc(s._current_angle), R.enc(s._current_pulse)]


R.wrap(Servo, "write", servo_lvl)
R.wrap(Servo, "write_us", servo_lvl)


def build(c):
    args = [] if c[0] is None else [R.dec(c[0])]
    kw = {k: R.dec(v) for k, v in zip(SERVO_KW, c[1:]) if v is not None}
    return Servo(*args, **kw)


R.main("servo", build, ["read", "read_us"])
