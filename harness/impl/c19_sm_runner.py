"""Shared implementation-side runner of units C19_servo / C19_motor: drives a real
Reduino.Actuators class on JSON cases (stdin) and prints JSON (stdout).  Imported by
c19_servo_impl.py / c19_motor_impl.py (same directory = sys.path[0]).

Values are tagged lists: ["i", n] int | ["f", num, den] float (exact ratio) | ["b", v] bool |
["o"] None | ["s", text] str | ["t", [..]] tuple | ["x", repr] non-finite float (as input also -0.0) | ["?", repr].
An omitted optional argument is JSON null.

request = {"cases": [case...], "real_sleep": bool}
case    = {"cls": "servo"|"motor", "ctor": [values or null], "ops": [[name, value...], ...]}
result  = {"ctor": ["ok", snapshot] | ["raise", exc_name], "get0": {getter: value},
           "steps": [{"res": "ok"|"raise", "ret": value | exc_name, "snap": {attr: value},
                      "events": [["lvl", ...] | ["sleep", value]], "get": {getter: value}}]}

Sleeps are recorded by replacing the package-level ``Reduino.Actuators.sleep`` (what
tests/test_actuators.py monkeypatches; DCMotor._sleep looks it up at call time).  With
"real_sleep" the recorder then calls the REAL Reduino.Utils.sleep with a sleep_func that
hands non-finite durations to the real time.sleep (CPython raises at once: ValueError for
NaN, OverflowError for inf) and skips the wait for finite ones; a sleep event is recorded only
when that call returned.  Level events (DESIGN.md
A.2) are recorded by wrapping the given methods in this process only; an event is
appended when the wrapped call completes.  "get" holds what the public getters return.
"""
import functools
import json
import math
import sys
import time

import Reduino.Actuators as A
import Reduino.Utils as U

EVENTS = []
REAL_SLEEP = U.sleep
MODE = {"real_sleep": False}


def enc(v):
    if isinstance(v, bool):
        return ["b", v]
    if isinstance(v, int):
        return ["i", v]
    if isinstance(v, float):
        if not math.isfinite(v):
            return ["x", repr(v)]
        n, d = v.as_integer_ratio()
        return ["f", n, d]
    if v is None:
        return ["o"]
    if isinstance(v, str):
        return ["s", v]
    if isinstance(v, tuple):
        return ["t", [enc(x) for x in v]]
    return ["?", repr(v)[:80]]


def dec(t):
    k = t[0]
    if k == "i":
        return int(t[1])
    if k == "f":
        return int(t[1]) / int(t[2])      # exact: generators send dyadic rationals
    if k == "b":
        return bool(t[1])
    if k == "o":
        return None
    if k == "s":
        return t[1]
    if k == "x":
        return float(t[1])
    raise ValueError(f"cannot decode {t!r}")


def _no_wait(seconds):
    if not math.isfinite(seconds):
        time.sleep(seconds)        # raises immediately


def fake_sleep(duration, *, sleep_func=None):
    if MODE["real_sleep"]:
        REAL_SLEEP(duration, sleep_func=_no_wait)       # may raise: then no sleep happened
    EVENTS.append(["sleep", enc(duration)])


A.sleep = fake_sleep


def wrap(cls, name, snap):
    orig = cls.__dict__[name]

    @functools.wraps(orig)
    def wrapper(self, *a, **kw):
        r = orig(self, *a, **kw)
        EVENTS.append(["lvl"] + snap(self))
        return r

    setattr(cls, name, wrapper)


def snapshot(obj):
    return {k: enc(v) for k, v in sorted(vars(obj).items())}


def getters(obj, names):
    out = {}
    for n in names:
        try:
            out[n] = enc(getattr(obj, n)())
        except Exception as e:  # noqa
            out[n] = ["?", "raised " + type(e).__name__]
    return out


def run_case(case, build, gnames):
    del EVENTS[:]
    try:
        obj = build(case["ctor"])
    except Exception as e:  # noqa
        return {"ctor": ["raise", type(e).__name__], "steps": []}
    del EVENTS[:]
    out = {"ctor": ["ok", snapshot(obj)], "get0": getters(obj, gnames), "steps": []}
    for op in case["ops"]:
        name, args = op[0], [dec(a) for a in op[1:]]
        del EVENTS[:]
        try:
            r = getattr(obj, name)(*args)
            step = {"res": "ok", "ret": enc(r)}
        except Exception as e:  # noqa
            step = {"res": "raise", "ret": type(e).__name__}
        step["events"] = list(EVENTS)
        del EVENTS[:]
        step["snap"] = snapshot(obj)
        step["get"] = getters(obj, gnames)
        del EVENTS[:]
        out["steps"].append(step)
    return out


def main(cls_name, build, gnames):
    req = json.load(sys.stdin)
    MODE["real_sleep"] = bool(req.get("real_sleep"))
    for c in req["cases"]:
        if c["cls"] != cls_name:
            raise SystemExit(f"this runner drives {cls_name!r} only, got {c['cls']!r}")
    sys.stdout.write(json.dumps([run_case(c, build, gnames) for c in req["cases"]]))
