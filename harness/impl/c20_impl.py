"""Implementation side of C20: drives the real Reduino host helpers on JSON cases
(stdin) and prints JSON (stdout).  Case shapes (native JSON values; floats are the
binary64 numbers themselves, None is null):

  ["core", ops, ni]       ops: ["pin_mode",p,m] ["digital_write",p,v] ["analog_write",p,v]
                               ["digital_read",p] ["analog_read",p];  the three dicts are
                               cleared first; ni = list of pins to watch for interference
  ["map", x, fl, fh, tl, th]          -> [status, value | exception name, type name, float.hex() | None]
  ["corex", ops]          Core history whose pins may be any JSON value (True, 7.0, 7.5, None, [7] ...);
                          keys of the reported state are canonicalised the way dict lookup identifies them
  ["sleep", d, patched]   patched: also run once through a monkeypatched time.sleep
  ["button", pin, click, provider, ops]     ops: ["set", v] | ["poll", sample]
  ["pot", pin, provider, samples]
  ["ultra", sensor, model, trig, echo, default, provider, samples]
  ["serial", backend, baud, port_given, newline, ops]   ops: ["write", v] ["close"] ["connect"]
"""
import json
import sys
import time
from types import SimpleNamespace

import Reduino.Core as core
import Reduino.Utils as utils
import Reduino.Communication as comm
from Reduino.Communication import SerialMonitor
from Reduino.Sensors import Button, Potentiometer, Ultrasonic


def call(f, *a, **kw):
    try:
        return ["ok", f(*a, **kw)]
    except Exception as e:  # noqa: BLE001 - the kind is the observation
        return ["raise", type(e).__name__]


def jsonable(v):
    if v is None or isinstance(v, (bool, int, float, str)):
        return v
    return {"__repr__": repr(v)[:80], "__type__": type(v).__name__}


def norm(p):
    return int(p) if isinstance(p, str) and p.isascii() and p.isdigit() else p


CORE_FUN = {"pin_mode": core.pin_mode, "digital_write": core.digital_write, "analog_write": core.analog_write,
            "digital_read": core.digital_read, "analog_read": core.analog_read}


def do_core(ops, ni):
    core._pin_modes.clear()
    core._digital_values.clear()
    core._analog_values.clear()
    results = []
    interference = []
    for i, op in enumerate(ops):
        watch = [q for q in (ni or []) if norm(q) != norm(op[1])]
        before = [(call(core.digital_read, q), call(core.analog_read, q)) for q in watch]
        r = call(CORE_FUN[op[0]], *op[1:])
        after = [(call(core.digital_read, q), call(core.analog_read, q)) for q in watch]
        for q, b, a in zip(watch, before, after):
            if b != a:
                interference.append({"op_index": i, "op": op, "pin": q, "before": b, "after": a})
        results.append([r[0], jsonable(r[1])])
    state = {name: [[k, jsonable(v)] for k, v in d.items() if isinstance(k, (int, str))]
             for name, d in (("modes", core._pin_modes), ("digital", core._digital_values), ("analog", core._analog_values))}
    odd = [repr(k) for d in (core._pin_modes, core._digital_values, core._analog_values) for k in d
           if not isinstance(k, (int, str)) or isinstance(k, bool)]
    return {"results": results, "state": state, "odd_keys": odd, "interference": interference}


def fhex(v):
    return v.hex() if isinstance(v, float) else None


def do_map(args):
    r = call(utils.map, *args)
    return [r[0], jsonable(r[1]), type(r[1]).__name__, fhex(r[1])]


def canon_key(k):
    """the dict key as Python's hash/== identifies it: True is 1, 7.0 is 7"""
    if isinstance(k, bool):
        return int(k)
    if isinstance(k, float) and k == k and k not in (float("inf"), float("-inf")):
        if k == int(k):
            return int(k)
        n, d = k.as_integer_ratio()
        return ["float", n, d]
    if k is None:
        return ["none"]
    if isinstance(k, (int, str)):
        return k
    return ["other", repr(k)[:40]]


def do_corex(ops):
    core._pin_modes.clear()
    core._digital_values.clear()
    core._analog_values.clear()
    results = []
    for op in ops:
        r = call(CORE_FUN[op[0]], *op[1:])
        results.append([r[0], jsonable(r[1])])
    state = {name: [[canon_key(k), jsonable(v)] for k, v in d.items()]
             for name, d in (("modes", core._pin_modes), ("digital", core._digital_values), ("analog", core._analog_values))}
    return {"results": results, "state": state}


def do_sleep(d, patched):
    out = {}
    rec = []
    r = call(utils.sleep, d, sleep_func=rec.append)
    out["func"] = [r[0], r[1] if r[0] == "raise" else None, [jsonable(x) for x in rec], [fhex(x) for x in rec]]
    if patched:
        rec2 = []
        real = time.sleep
        time.sleep = rec2.append
        try:
            r2 = call(utils.sleep, d)
        finally:
            time.sleep = real
        out["patched"] = [r2[0], r2[1] if r2[0] == "raise" else None, [jsonable(x) for x in rec2], [fhex(x) for x in rec2]]
    return out


def do_button(pin, click, provider, ops):
    clicks = []
    cur = {"sample": None, "calls": 0}

    def prov():
        cur["calls"] += 1
        return cur["sample"]

    kw = {}
    if click:
        kw["on_click"] = lambda: clicks.append(1)
    if provider:
        kw["state_provider"] = prov
    try:
        b = Button(pin, **kw)
    except Exception as e:  # noqa: BLE001
        return ["raise", type(e).__name__]
    outs = []
    for op in ops:
        if op[0] == "set":
            r = call(b.set_pressed, op[1])
            outs.append(None if r[0] == "ok" else r)
        else:
            cur["sample"] = op[1]
            n0 = len(clicks)
            r = call(b.is_pressed)
            outs.append([r[0], jsonable(r[1]), len(clicks) - n0])
    return ["ok", outs]


def do_pot(pin, provider, samples):
    cur = {"sample": None}
    kw = {"value_provider": (lambda: cur["sample"])} if provider else {}
    try:
        p = Potentiometer(pin, **kw)
    except Exception as e:  # noqa: BLE001
        return ["raise", type(e).__name__]
    res = []
    for s in samples:
        cur["sample"] = s
        r = call(p.read)
        res.append([r[0], jsonable(r[1]), type(r[1]).__name__])
    return ["ok", jsonable(p.pin), res]


def do_ultra(sensor, model, trig, echo, default, provider, samples):
    cur = {"sample": None}
    kw = {"sensor": sensor, "model": model, "default_distance": default}
    if provider:
        kw["distance_provider"] = lambda: cur["sample"]
    try:
        u = Ultrasonic(trig, echo, **kw)
    except Exception as e:  # noqa: BLE001
        return ["raise", type(e).__name__]
    res = []
    for s in samples:
        cur["sample"] = s
        r = call(u.measure_distance)
        res.append([r[0], jsonable(r[1]), type(r[1]).__name__])
    return ["ok", res]


class FakeSerial:
    """In-memory stand-in for serial.Serial (same shape as tests/test_utils.py DummySerial)."""
    log = None

    def __init__(self, *, port, baudrate, timeout):
        self.port = port
        self.baudrate = baudrate
        self.timeout = timeout
        self.is_open = True
        FakeSerial.log["opened"].append([jsonable(port), jsonable(baudrate)])

    def write(self, payload):
        FakeSerial.log["writes"].append(payload)
        return len(payload)

    def readline(self):
        return b""

    def close(self):
        self.is_open = False
        FakeSerial.log["closed"] += 1


def do_serial(backend, baud, port_given, newline, ops):
    FakeSerial.log = {"opened": [], "writes": [], "closed": 0}
    saved = getattr(comm, "serial", None)
    comm.serial = SimpleNamespace(Serial=FakeSerial) if backend else None
    try:
        try:
            m = SerialMonitor(baud, "/dev/ttyFAKE" if port_given else None, 0.5, newline)
        except Exception as e:  # noqa: BLE001
            return ["raise", type(e).__name__]
        outs = []
        for op in ops:
            n0 = len(FakeSerial.log["writes"])
            if op[0] == "write":
                r = call(m.write, op[1])
            elif op[0] == "close":
                r = call(m.close)
            else:
                r = call(m.connect, "/dev/ttyFAKE2")
            new = FakeSerial.log["writes"][n0:]
            payloads = []
            for b in new:
                if isinstance(b, (bytes, bytearray)):
                    try:
                        payloads.append({"hex": bytes(b).hex(), "text": bytes(b).decode("utf-8")})
                    except UnicodeDecodeError:
                        payloads.append({"hex": bytes(b).hex(), "text": None})
                else:
                    payloads.append({"hex": None, "text": None, "type": type(b).__name__})
            outs.append([payloads, [r[0], jsonable(r[1])]])
        return ["ok", outs, FakeSerial.log["opened"]]
    finally:
        comm.serial = saved


def main():
    req = json.load(sys.stdin)
    out = []
    for c in req["cases"]:
        k = c[0]
        if k == "core":
            out.append(do_core(c[1], c[2] if len(c) > 2 else None))
        elif k == "map":
            out.append(do_map(c[1:6]))
        elif k == "corex":
            out.append(do_corex(c[1]))
        elif k == "sleep":
            out.append(do_sleep(c[1], c[2]))
        elif k == "button":
            out.append(do_button(*c[1:5]))
        elif k == "pot":
            out.append(do_pot(*c[1:4]))
        elif k == "ultra":
            out.append(do_ultra(*c[1:8]))
        elif k == "serial":
            out.append(do_serial(*c[1:6]))
        else:
            out.append({"error": "unknown case kind"})
    json.dump(out, sys.stdout)


main()
