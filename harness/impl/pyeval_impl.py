"""CPython's own eval of expression sources in given environments (reference for coq/Lang/PySem.v)."""
import json
import sys
from fractions import Fraction


def enc(v):
    if isinstance(v, bool):
        return ["bool", v]
    if isinstance(v, int):
        return ["int", str(v)]
    if isinstance(v, float):
        if v != v or v in (float("inf"), float("-inf")):
            return ["special", repr(v)]
        f = Fraction(v)
        return ["float", str(f.numerator), str(f.denominator)]
    if isinstance(v, str):
        return ["str", v]
    if isinstance(v, list):
        return ["list", [enc(x) for x in v]]
    if isinstance(v, tuple):
        return ["tuple", [enc(x) for x in v]]
    if v is None:
        return ["none"]
    return ["other", type(v).__name__]


def dec(w):
    t = w[0]
    if t == "bool":
        return bool(w[1])
    if t == "int":
        return int(w[1])
    if t == "float":
        return int(w[1]) / int(w[2])
    if t == "str":
        return w[1]
    if t == "list":
        return [dec(x) for x in w[1]]
    if t == "tuple":
        return tuple(dec(x) for x in w[1])
    return None


SAFE = {"abs": abs, "min": min, "max": max, "int": int, "float": float, "bool": bool, "len": len, "str": str}

req = json.load(sys.stdin)
out = []
for src, env in req["cases"]:
    e = {k: dec(v) for k, v in env.items()}
    try:
        v = eval(compile(src, "<e>", "eval"), {"__builtins__": SAFE}, e)
        out.append(["ok", enc(v)])
    except BaseException as ex:  # noqa
        out.append(["err", type(ex).__name__])
json.dump(out, sys.stdout)
