"""CPython reference runner: executes a Reduino script under CPython against the host-side
modules and records the same event vocabulary as the mock Arduino core.

stdin JSON {"jobs":[{"src":..., "input":..., "loops":N}], "timeout":s} -> stdout JSON list of
{"events":[...], "exc": None | [kind, msg]}.
Each job runs in a forked child so module state never leaks between jobs."""
import ast
import json
import os
import signal
import sys


class _StopLoops(BaseException):
    pass


def parse_input(text):
    cfg = {"dr": {}, "ar": {}, "pi": {}, "loops": None}
    for ln in (text or "").splitlines():
        parts = ln.split()
        if not parts:
            continue
        if parts[0] in ("dr", "ar", "pi"):
            cfg[parts[0]][int(parts[1])] = [int(x) for x in parts[2:]]
        elif parts[0] == "loops":
            cfg["loops"] = int(parts[1])
    return cfg


PIN_ALIASES = {f"A{i}": 14 + i for i in range(8)}


def pin_num(pin):
    if isinstance(pin, str):
        s = pin.strip()
        if s in PIN_ALIASES:
            return PIN_ALIASES[s]
        if s.isdigit():
            return int(s)
        return s
    return int(pin)


def run_job(job):
    events = []
    cfg = parse_input(job.get("input"))
    loops = job.get("loops", 0)
    idx = {"dr": {}, "ar": {}, "pi": {}}
    pin_out = {}
    pin_mode = {}

    def nxt(kind, pin):
        seq = cfg[kind].get(pin)
        if not seq:
            return None
        i = idx[kind].get(pin, 0)
        v = seq[i if i < len(seq) else len(seq) - 1]
        if i < len(seq):
            idx[kind][pin] = i + 1
        return v

    import Reduino
    import Reduino.Utils as U
    import Reduino.Core as K
    import Reduino.Communication as Comm
    import Reduino.Sensors as Sens
    import Reduino.Actuators as Act
    from importlib import import_module
    SM = import_module("Reduino.Communication.SerialMonitor")
    B = import_module("Reduino.Sensors.Button")
    P = import_module("Reduino.Sensors.Potentiometer")
    US = import_module("Reduino.Sensors.Ultrasonic")

    def rec_sleep(duration, *, sleep_func=None):
        if duration < 0:
            raise ValueError("duration must be non-negative")
        events.append("D %s" % fmt_num(duration))

    def fmt_num(v):
        if isinstance(v, bool):
            return str(int(v))
        if isinstance(v, float) and v == int(v):
            return str(int(v))
        return str(v)

    # sleep: patch every module that imported the name
    U.sleep = rec_sleep
    for modname, mod in list(sys.modules.items()):
        if modname.startswith("Reduino") and mod is not None and getattr(mod, "sleep", None) is not None and modname != "Reduino.Utils":
            try:
                mod.sleep = rec_sleep
            except Exception:
                pass
    Reduino.target = lambda *a, **k: None

    mode_code = {"INPUT": 0, "OUTPUT": 1, "INPUT_PULLUP": 2}

    def k_pin_mode(pin, mode):
        p = pin_num(pin)
        pin_mode[p] = mode
        events.append("PM %s %s" % (p, mode_code.get(mode, mode)))

    def k_dw(pin, value):
        p = pin_num(pin)
        pin_out[p] = 1 if bool(value) else 0
        events.append("DW %s %d" % (p, pin_out[p]))

    def k_aw(pin, value):
        events.append("AW %s %s" % (pin_num(pin), fmt_num(value)))

    def k_dr(pin):
        p = pin_num(pin)
        v = nxt("dr", p)
        if v is None:
            v = pin_out.get(p, 1 if pin_mode.get(p) == "INPUT_PULLUP" else 0)
        v = 1 if v else 0
        events.append("DR %s %d" % (p, v))
        return v

    def k_ar(pin):
        p = pin_num(pin)
        v = nxt("ar", p)
        v = 0 if v is None else v
        events.append("AR %s %d" % (p, v))
        return v

    K.pin_mode, K.digital_write, K.analog_write, K.digital_read, K.analog_read = k_pin_mode, k_dw, k_aw, k_dr, k_ar

    def sm_write(self, value):
        text = f"{value}"
        events.append("S " + escape(text) + "\t" + type(value).__name__)
        return text

    SM.SerialMonitor.write = sm_write
    SM.SerialMonitor.connect = lambda self, port: None

    # sensors read the scripted inputs
    orig_pot_init = P.Potentiometer.__init__

    def pot_init(self, pin="A0", *, value_provider=None):
        orig_pot_init(self, pin)
        p = pin_num(self.pin)

        def prov():
            v = nxt("ar", p)
            v = 0 if v is None else v
            events.append("AR %s %d" % (p, v))
            return v
        self._value_provider = prov
    P.Potentiometer.__init__ = pot_init

    orig_btn_init = B.Button.__init__

    def btn_init(self, pin, *, on_click=None, state_provider=None):
        orig_btn_init(self, pin, on_click=on_click)
        p = pin_num(pin)

        def prov():
            v = nxt("dr", p)
            v = 0 if v is None else v
            events.append("DR %s %d" % (p, 1 if v else 0))
            return bool(v)
        self._state_provider = prov
    B.Button.__init__ = btn_init

    orig_us_init = US.UltrasonicSensor.__init__

    def us_init(self, trig, echo, *, distance_provider=None, default_distance=0.0):
        orig_us_init(self, trig, echo)
        st = {"last": 400.0, "have": False}

        def prov():
            for _ in range(3):
                v = nxt("pi", int(echo))
                v = 0 if v is None else v
                events.append("PI %d %d" % (int(echo), v))
                if v > 0:
                    st["last"] = v * 0.0343 / 2.0
                    st["have"] = True
                    return st["last"]
            return st["last"] if st["have"] else 400.0
        self._distance_provider = prov
    US.UltrasonicSensor.__init__ = us_init

    src = job["src"]
    tree = ast.parse(src)
    # cut the top-level `while True:` after `loops` passes
    counter = {"k": 0}

    def __verif_pass():
        if counter["k"] >= loops:
            raise _StopLoops()
        events.append("M loop %d" % counter["k"])
        counter["k"] += 1

    for node in tree.body:
        if isinstance(node, ast.While) and isinstance(node.test, ast.Constant) and node.test.value is True:
            call = ast.Expr(ast.Call(ast.Name("__verif_pass", ast.Load()), [], []))
            node.body.insert(0, call)
    ast.fix_missing_locations(tree)
    ns = {"__name__": "__main__", "__verif_pass": __verif_pass}
    events.append("M setup")
    exc = None
    try:
        exec(compile(tree, "<script>", "exec"), ns)
    except _StopLoops:
        pass
    except _Timeout:
        exc = ["Timeout", ""]
    except BaseException as e:  # noqa
        exc = [type(e).__name__, str(e)[:200]]
    events.append("M end")
    return {"events": events, "exc": exc}


def escape(s):
    o = []
    for ch in s.encode("utf-8"):
        if ch == 0x5C:
            o.append("\\\\")
        elif 0x20 <= ch < 0x7F:
            o.append(chr(ch))
        else:
            o.append("\\x%02x" % ch)
    return "".join(o)


class _Timeout(BaseException):
    pass


def _alarm(sig, frm):
    raise _Timeout()


def main():
    req = json.load(sys.stdin)
    per = int(req.get("timeout", 10))
    out = []
    for job in req["jobs"]:
        r, w = os.pipe()
        pid = os.fork()
        if pid == 0:
            os.close(r)
            signal.signal(signal.SIGALRM, _alarm)
            signal.alarm(per)
            try:
                sys.stdout = open(os.devnull, "w")
                res = run_job(job)
            except BaseException as e:  # noqa
                res = {"events": [], "exc": ["Harness:" + type(e).__name__, str(e)[:300]]}
            data = json.dumps(res).encode()
            with os.fdopen(w, "wb") as f:
                f.write(data)
            os._exit(0)
        os.close(w)
        with os.fdopen(r, "rb") as f:
            data = f.read()
        os.waitpid(pid, 0)
        try:
            out.append(json.loads(data))
        except Exception:
            out.append({"events": [], "exc": ["Crash", ""]})
    json.dump(out, sys.stdout)


main()
