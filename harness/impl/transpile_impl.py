"""Runs the real parse()+emit() on a batch of sources (JSON stdin -> JSON stdout)."""
import json
import signal
import sys

from Reduino.transpile.parser import parse
from Reduino.transpile.emitter import emit


class _Timeout(Exception):
    pass


def _alarm(signum, frame):
    raise _Timeout()


def main():
    req = json.load(sys.stdin)
    per = int(req.get("timeout", 20))
    signal.signal(signal.SIGALRM, _alarm)
    out = []
    for src in req["sources"]:
        signal.alarm(per)
        try:
            prog = parse(src)
            cpp = emit(prog)
            out.append({"ok": True, "cpp": cpp})
        except _Timeout:
            out.append({"ok": False, "exc": "Timeout", "msg": f"> {per}s"})
        except BaseException as e:  # noqa
            out.append({"ok": False, "exc": type(e).__name__, "msg": str(e)[:300]})
        finally:
            signal.alarm(0)
    json.dump(out, sys.stdout)


main()
