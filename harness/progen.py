"""Seeded generator of Reduino scripts of the documented core-language subset, as a small
statement tree (so the same program can be rendered to source text with different layouts,
and encoded for the Coq models) — used by C01/C05/C07 style differential checks.

Statement tree (lists of tuples):
  ("assign", name, expr_src)            ("aug", name, op, expr_src)
  ("swap", a, b)                        ("tuple", [names], [expr_srcs])
  ("write", expr_src)                   ("sleep", expr_src)
  ("dw", pin, expr_src)                 ("aw", pin, expr_src)
  ("read", name, "analog"|"digital", pin)
  ("if", [(cond_src, body), ...], else_body)
  ("while", cond_src, body)             ("for", var, count_src, body)
  ("break",) ("continue",) ("pass",)    ("call", fname, [args])   ("callassign", name, fname, [args])
  ("return", expr_src | None)           ("global", [names])       (helper bodies; "head": statements above the defs)
Program: {"funcs": [(name, params, body, ret_src)], "pre": [...], "main": [...] or None, "inputs": str}
"""
from __future__ import annotations

HEADER = (
    "from Reduino import target\n"
    "from Reduino.Core import pin_mode, digital_write, analog_write, digital_read, analog_read, OUTPUT, INPUT\n"
    "from Reduino.Communication import SerialMonitor\n"
    "from Reduino.Utils import sleep\n"
    "target(\"COM3\", upload=False)\n"
    "mon = SerialMonitor(9600)\n"
)


COMMENTS = ["# note", "#", "# i0 = 99", "#i1 = i0 + 1", "# else:", "# if i0 > 1:", "# while True:", "#end", "# it's off",
            '# say "hi', "# mon.write(777)", "# break", "# continue", "# pass", "#    indented text", "# for k9 in range(3):",
            "# elif i0 < 0:", "# return 0", "# def f9(a):", "# sleep(999)", "## TODO: x += 1", "#!shebang-like", "# 100% # twice"]


class Noise:
    """Meaning-preserving layout noise for `render` (CPython ignores all of it: Language Reference 2.1.3 comments, 2.1.7
    blank lines, 2.1.8 indentation, 2.1.9 whitespace between tokens): comment-only lines at EVERY column - 0, the column of the
    enclosing block header, anything between 0 and the current indentation, the current indentation, deeper -, blank and
    blanks-only lines, before any statement (also the first of a block, also elif / else headers) and after the last statement
    of a block; trailing comments / trailing blanks on statements and on headers (if / elif / else / while / for / def / the
    main loop).  With wide=True additionally: every block chooses its own indentation width (1, 2, 3, 4, 8 blanks - or the
    whole script indents with one tab per level), optional blanks around `=` / augmented operators / commas, inside call
    parentheses, before the colon of a header and between the words of a header, CRLF line ends, no newline at the end of
    the file, non-ASCII text in comments.  Never produced (the listed C07 layout findings): tabs mixed with blanks in
    indentation, a blank between a callee / `range` and its parenthesis or around the dot of a method call, `if(` / `while(`
    without the blank, two statements on one line, continuation lines.  `stats` counts what was placed; a comment-only line
    no deeper than the enclosing header that is FOLLOWED by a statement of the same block is counted as
    `dedented-comment-inside-block`."""

    def __init__(self, rng, p_line=0.3, p_trail=0.18, p_blank=0.12, wide=False, p_space=0.25):
        self.rng, self.p_line, self.p_trail, self.p_blank, self.wide = rng, p_line, p_trail, p_blank, wide
        self.stats = {}
        self.tabs = wide and rng.random() < 0.12           # the whole script indents with tabs only
        self.crlf = wide and rng.random() < 0.15
        self.no_final_newline = wide and rng.random() < 0.2
        self.p_space = p_space if wide else 0.0
        if self.tabs:
            self._n("script:tab-indented")
        if self.crlf:
            self._n("script:crlf")

    def _n(self, k):
        self.stats[k] = self.stats.get(k, 0) + 1

    # ---- indentation
    def step(self, indent):
        """the extra indentation of one block"""
        if not self.wide:
            return indent
        if self.tabs:
            return "\t"
        w = self.rng.choice([1, 2, 2, 3, 4, 4, 4, 8])
        self._n(f"block-indent:{w}")
        return " " * w

    # ---- optional blanks between tokens
    def gap(self, normal, what):
        """the white space at an optional-blank position whose usual spelling is `normal` ("" or " ")"""
        if self.rng.random() >= self.p_space:
            return normal
        g = self.rng.choice(["", " ", "  ", "   "])
        if g != normal:
            self._n("spacing:" + what)
        return g

    def gap1(self, what):
        """a position where at least one blank is required (after if / elif / while / for / in / def / return / global)"""
        if self.rng.random() >= self.p_space:
            return " "
        self._n("spacing:" + what)
        return self.rng.choice(["  ", "   "])

    # ---- junk lines
    def junk(self, lvl, unit, inside, follows):
        """junk lines in front of a line of nesting level lvl with `unit` blanks per level"""
        return self.junk_cols(lvl * unit, max(0, lvl * unit - unit), inside and lvl > 0, follows)

    def junk_cols(self, cur, hdr, inside, follows):
        """junk lines in front of a line indented to column cur (inside: the position is inside a block whose header is at
        column hdr; follows: a statement of that block comes after the junk)"""
        r, out = self.rng, []
        while r.random() < self.p_line:
            k = r.random()
            if k < 0.30:
                col = 0
            elif k < 0.50:
                col = hdr                                 # the column of the enclosing header
            elif k < 0.65:
                col = r.randrange(0, cur + 1)             # any column up to the current indentation
            elif k < 0.85:
                col = cur
            else:
                col = cur + r.choice([1, 2, 4, 8])
            out.append(" " * col + r.choice(COMMENTS + (COMMENTS_WIDE if self.wide else [])) + "\n")
            rel = ("deeper" if col > cur else "at-indent" if col == cur else "at-header-column" if col == hdr
                   else "left-of-header" if col < hdr else "between-header-and-indent")
            self._n("comment-line:" + rel)
            if inside and col <= hdr and follows:
                self._n("dedented-comment-inside-block")
        while r.random() < self.p_blank:
            out.insert(r.randrange(len(out) + 1), " " * r.choice([0, 0, 0, 1, 4, cur, cur + 3]) + "\n")
            self._n("blank-line")
        return out

    def trail(self, header):
        r = self.rng
        if r.random() >= self.p_trail:
            return ""
        if r.random() < 0.2:
            self._n("trailing-blanks")
            return " " * r.choice([1, 2, 5])
        self._n("trailing-comment:" + ("header" if header else "statement"))
        return r.choice(["  ", " ", "   ", ""]) + r.choice(COMMENTS + (COMMENTS_WIDE if self.wide else []))

    def file_level(self, header, body):
        if self.no_final_newline and body.endswith("\n") and not body.endswith("\n\n"):
            body = body[:-1]
            self._n("script:no-final-newline")
        if self.crlf:
            body = body.replace("\n", "\r\n")
        return header + body


COMMENTS_WIDE = ["# caf\u00e9 \u2713", "# \u00fcber \u4e2d\u6587", "#\u00a0nbsp", "# tab\there"]


def same_python(a, b):
    """True iff CPython parses the two sources into the same syntax tree (layout, comments and blank lines aside)"""
    import ast
    try:
        return ast.dump(ast.parse(a)) == ast.dump(ast.parse(b))
    except SyntaxError:
        return False


def noisy_text(src, noise, unit=4):
    """layout noise (see Noise) for a script given as TEXT in which every physical line is one logical line and the
    indentation is `unit` blanks per level; returned unchanged when that cannot be established, and whenever CPython
    would not read the noisy text as the very same program (ast equality)"""
    lines = src.split("\n")
    if any(q in src for q in ('"""', "'''")) or any(l.rstrip().endswith(("\\", ",", "(", "[", "{")) for l in lines):
        return src
    out, prev_lvl = [], 0
    for l in lines:
        if not l.strip() or l.lstrip().startswith("#"):
            out.append(l)
            continue
        ind = len(l) - len(l.lstrip(" "))
        if ind % unit or l[:ind].strip(" "):
            return src
        lvl = ind // unit
        out.extend(j[:-1] for j in noise.junk(lvl, unit, lvl > 0 and lvl <= prev_lvl, True))
        out.append(l.rstrip() + noise.trail(l.rstrip().endswith(":")))
        prev_lvl = lvl
    res = "\n".join(out)
    return res if same_python(res, src) else src


def render(prog, indent="    ", noise=None) -> str:
    """noise=None: the plain layout (one statement per line, 4 blanks per level, nothing else).
    noise=Noise(rng): the same statement tree with meaning-preserving layout noise (see Noise)."""
    out = []
    nz = noise

    def g(normal, what):                 # optional blanks
        return normal if nz is None else nz.gap(normal, what)

    def g1(what):                        # at least one blank
        return " " if nz is None else nz.gap1(what)

    def eq(op="="):
        return g(" ", "assign") + op + g(" ", "assign")

    def commas(items, what="comma"):
        res = ""
        for i, it in enumerate(items):
            if i:
                res += g("", what) + "," + g(" ", what)
            res += it
        return res

    def call(fn, args):
        return f"{fn}(" + g("", "paren") + commas(args, "arg-comma") + g("", "paren") + ")"

    def colon():
        return g("", "colon") + ":"

    def put(pad, hdr, text, header=False, inside=False):
        if nz is not None:
            out.extend(nz.junk_cols(len(pad), hdr, inside, True))
            text += nz.trail(header)
        out.append(pad + text + "\n")

    def block(stmts, pad, hdr, inside=True):
        """stmts at indentation pad; hdr = column of the enclosing header; inside: this is the body of a block"""
        if not stmts:
            put(pad, hdr, "pass", inside=inside)

        def sub(body):
            block(body, pad + (indent if nz is None else nz.step(indent)), len(pad))
        for s in stmts:
            k = s[0]
            if k == "assign":
                put(pad, hdr, f"{s[1]}{eq()}{s[2]}", inside=inside)
            elif k == "aug":
                put(pad, hdr, f"{s[1]}{eq(s[2] + '=')}{s[3]}", inside=inside)
            elif k == "swap":
                put(pad, hdr, f"{commas([s[1], s[2]])}{eq()}{commas([s[2], s[1]])}", inside=inside)
            elif k == "tuple":
                put(pad, hdr, f"{commas(s[1])}{eq()}{commas(s[2])}", inside=inside)
            elif k == "write":
                put(pad, hdr, call("mon.write", [s[1]]), inside=inside)
            elif k == "sleep":
                put(pad, hdr, call("sleep", [s[1]]), inside=inside)
            elif k == "dw":
                put(pad, hdr, call("digital_write", [s[1], s[2]]), inside=inside)
            elif k == "aw":
                put(pad, hdr, call("analog_write", [s[1], s[2]]), inside=inside)
            elif k == "read":
                fn = "analog_read" if s[2] == "analog" else "digital_read"
                put(pad, hdr, f"{s[1]}{eq()}{call(fn, [s[3]])}", inside=inside)
            elif k == "if":
                for i, (c, b) in enumerate(s[1]):
                    put(pad, hdr, f"{'if' if i == 0 else 'elif'}{g1('keyword')}{c}{colon()}", header=True, inside=inside)
                    sub(b)
                if s[2]:
                    put(pad, hdr, f"else{colon()}", header=True, inside=inside)
                    sub(s[2])
            elif k == "while":
                put(pad, hdr, f"while{g1('keyword')}{s[1]}{colon()}", header=True, inside=inside)
                sub(s[2])
            elif k == "for":
                put(pad, hdr, f"for{g1('keyword')}{s[1]}{g1('keyword')}in{g1('keyword')}{call('range', [s[2]])}{colon()}", header=True, inside=inside)
                sub(s[3])
            elif k in ("break", "continue", "pass"):
                put(pad, hdr, k, inside=inside)
            elif k == "call":
                put(pad, hdr, call(s[1], s[2]), inside=inside)
            elif k == "callassign":
                put(pad, hdr, f"{s[1]}{eq()}{call(s[2], s[3])}", inside=inside)
            elif k == "return":          # inside helper bodies (harness/c01_helpers.py); None = bare `return`
                put(pad, hdr, "return" if s[1] is None else f"return{g1('keyword')}{s[1]}", inside=inside)
            elif k == "global":
                put(pad, hdr, f"global{g1('keyword')}{commas(s[1])}", inside=inside)
            else:
                raise ValueError(k)
        if nz is not None and inside:
            out.extend(nz.junk_cols(len(pad), hdr, True, False))       # junk after the last statement of a block

    if prog.get("head"):                 # statements above the function definitions (globals a helper updates)
        block(prog["head"], "", 0, inside=False)
    for name, params, body, ret in prog.get("funcs", []):
        put("", 0, f"def{g1('keyword')}{call(name, params)}{colon()}", header=True)
        stm = list(body) if body else [("pass",)]
        if ret is not None:
            stm.append(("return", ret))      # the final `return` belongs to the body: junk in front of it sits inside the def block
        block(stm, indent if nz is None else nz.step(indent), 0)
        out.append("\n")
    block(prog["pre"], "", 0, inside=False) if prog["pre"] else None
    if prog.get("main") is not None:
        put("", 0, f"while{g1('keyword')}True{colon()}", header=True)
        block(prog["main"], indent if nz is None else nz.step(indent), 0)
    if nz is not None:
        out.extend(nz.junk_cols(0, 0, False, False))
        return nz.file_level(HEADER, "".join(out))
    return HEADER + "".join(out)


class Gen:
    """features: set of strings enabling constructs.  Default = the guarded core fragment.
    'div' (// % on signed operands), 'truediv_int', 'pow', 'continue' (in for / while loops - whose counter then
    advances at the head of the body - and in the body of the main loop, directly and under nested ifs), 'retype', 'branch_first'
    (first assignment inside a branch/loop), 'loop_first' (first assignment inside while True),
    'funcs', 'float', 'str', 'tuple', 'chain_read', 'pass' (do-nothing if arms in chains with a later arm, `pass` between
    statements), 'bound_var' (small int variables m0 / m1 - constant-initialised, then re-assigned from sensor reads, in
    branches, in enclosing loops and between passes of the main loop - used BARE as range() bounds, sleep / analog_write
    arguments and in conditions; with 'funcs' the first parameter of every helper is such a bound, half of them spelled like
    the global m0) are opt-in."""

    def __init__(self, rng, features=()):
        self.rng = rng
        self.f = set(features)
        self.ints = []      # declared int variables
        self.floats = []
        self.bools = []
        self.strs = []
        self.counter = 0
        self.loopvars = []
        self.funcs = []
        self.in_main = False    # generating the body of `while True:` (a `continue` there ends the pass)
        self.n_continue = {"for": 0, "while": 0, "main": 0}
        self.loop_kinds = []    # stack of the enclosing for/while loops
        self.n_pass = {}        # `pass` statements generated (as the only statement of an if arm / between statements)
        self.bounds = []        # feature 'bound_var': small int variables used bare as range() bounds
        self.locked = []        # ... those that are the bound of an enclosing for loop (its body never assigns them)
        self.n_bound = {}       # what was generated for them (by kind)

    # ---- expressions
    def int_atom(self, allow_vars=True):
        r = self.rng
        pool = self.ints + self.loopvars + self.bounds
        if allow_vars and pool and r.random() < 0.6:
            return r.choice(pool)
        v = r.choice([0, 1, 2, 3, 4, 5, 7, 10, 12, 100, -1, -3, -8])
        return f"({v})" if v < 0 else str(v)

    def int_expr(self, d=2):
        r = self.rng
        if d <= 0 or r.random() < 0.3:
            return self.int_atom()
        k = r.random()
        if k < 0.5:
            return f"({self.int_expr(d - 1)} {r.choice(['+', '-', '*', '+', '-'])} {self.int_expr(d - 1)})"
        if k < 0.6:
            if "div" in self.f:
                return f"({self.int_expr(d - 1)} {r.choice(['//', '%'])} {r.choice(['2', '3', '(-3)', '7'])})"
            return f"(abs({self.int_expr(d - 1)}) {r.choice(['//', '%'])} {r.choice(['2', '3', '7', '10'])})"
        if k < 0.68:
            return f"abs({self.int_expr(d - 1)})"
        if k < 0.76:
            return f"{r.choice(['min', 'max'])}({self.int_expr(d - 1)}, {self.int_expr(d - 1)})"
        if k < 0.84:
            return f"({self.int_expr(d - 1)} if {self.bool_expr(d - 1)} else {self.int_expr(d - 1)})"
        if k < 0.88:
            return f"(-{self.int_atom()})"
        if k < 0.92 and self.floats and "float" in self.f:
            return f"int({self.float_expr(d - 1)})"
        if k < 0.95 and "pow" in self.f:
            return f"({self.int_atom()} ** 2)"
        if k < 0.98 and self.funcs and "calls_nested" in self.f:
            fn = r.choice(self.funcs)
            return f"{fn[0]}({', '.join(self.call_args(fn, d - 1))})"
        return self.int_atom()

    def float_expr(self, d=1):
        r = self.rng
        atoms = self.floats + [repr(x) for x in (0.5, 1.5, 2.25, 10.0, -0.75)]
        if d <= 0 or r.random() < 0.4:
            a = r.choice(atoms)
            return f"({a})" if a.startswith("-") else a
        k = r.random()
        if k < 0.5:
            return f"({self.float_expr(d - 1)} {r.choice(['+', '-', '*'])} {self.float_expr(d - 1)})"
        if k < 0.7:
            return f"({self.int_expr(d - 1)} * {r.choice(['0.5', '0.25', '1.5'])})"
        if k < 0.85:
            return f"({self.int_expr(d - 1)} / {r.choice(['2.0', '4.0', '8.0'])})"
        return f"float({self.int_expr(d - 1)})"

    def bool_expr(self, d=1):
        r = self.rng
        if d <= 0 or r.random() < 0.5:
            if self.bools and r.random() < 0.3:
                return r.choice(self.bools)
            return f"({self.int_expr(0)} {r.choice(['<', '<=', '>', '>=', '==', '!='])} {self.int_expr(1)})"
        k = r.random()
        if k < 0.4:
            return f"({self.bool_expr(d - 1)} {r.choice(['and', 'or'])} {self.bool_expr(d - 1)})"
        if k < 0.6:
            return f"(not {self.bool_expr(d - 1)})"
        if k < 0.8:
            return f"({self.int_expr(0)} {r.choice(['<', '<='])} {self.int_expr(0)} {r.choice(['<', '<='])} {self.int_expr(0)})"
        return f"({self.int_expr(1)} {r.choice(['<', '>', '=='])} {self.int_expr(1)})"

    def write_expr(self):
        r = self.rng
        k = r.random()
        if k < 0.55:
            return self.int_expr(2)
        if k < 0.65:
            return self.bool_expr(1)
        if k < 0.75 and "float" in self.f:
            return self.float_expr(1)
        if k < 0.9:
            v = self.int_expr(1)
            return 'f"' + r.choice(["v=", "x ", ""]) + "{" + v + "}" + r.choice(["", "!", " u"]) + '"'
        return '"' + r.choice(["hi", "a b", "tick", "#1"]) + '"'

    # ---- statements
    def new_int(self):
        n = f"i{len(self.ints)}"
        return n

    def continue_stmt(self, depth, in_loop):
        """feature 'continue': a `continue` for the innermost enclosing loop (for / while / the main loop), reached
        directly, under one `if`, under nested `if`s, or in an elif/else arm; statements follow it in the loop body,
        so that dropping it (or giving it another target) changes the trace"""
        r = self.rng
        self.n_continue[self.loop_kinds[-1] if in_loop else "main"] += 1
        cont = [("continue",)]
        if r.random() < 0.4:
            cont = [("write", self.write_expr())] + cont
        shape = r.random()
        if shape < 0.45:
            return ("if", [(self.bool_expr(1), cont)], [])
        if shape < 0.65:
            inner = ("if", [(self.bool_expr(0), cont)], [("write", self.write_expr())] if r.random() < 0.5 else [])
            return ("if", [(self.bool_expr(0), [inner] + ([("write", self.write_expr())] if r.random() < 0.5 else []))], [])
        if shape < 0.80:
            return ("if", [(self.bool_expr(0), [("write", self.write_expr())]), (self.bool_expr(0), cont)], [("write", self.write_expr())])
        if shape < 0.92:
            return ("if", [(self.bool_expr(0), [("write", self.write_expr())])], cont)
        return ("continue",)


    # ---- feature 'bound_var'
    def _nb(self, what):
        self.n_bound[what] = self.n_bound.get(what, 0) + 1

    def small_arg(self):
        """a value that is small at run time (it becomes a range() bound inside a helper)"""
        r = self.rng
        k = r.random()
        if k < 0.4 and self.bounds:
            return r.choice(self.bounds)
        if k < 0.55 and self.bounds:
            return f"({r.choice(self.bounds)} + 1)"
        if k < 0.65 and self.loopvars:
            return r.choice(self.loopvars)
        return r.choice(["0", "1", "2", "3", "4"])

    def call_args(self, fn, d):
        if "bound_var" in self.f:          # the first parameter of such a helper is the bound of a for-range loop
            return [self.small_arg()] + [self.int_expr(d) for _ in fn[1][1:]]
        return [self.int_expr(d) for _ in fn[1]]

    def bound_for(self, depth, in_loop, v=None):
        """`for k in range(m):` with a BARE variable bound; the body never assigns m (F-C01-range-bound-reeval)"""
        r = self.rng
        m = v or r.choice(self.bounds)
        k = f"k{len(self.loopvars)}"
        self.loopvars.append(k)
        self.locked.append(m)
        saved = list(self.ints)
        self.loop_kinds.append("for")
        body = [("write", r.choice([k, f"({k} * 10 + {m})", f"({m} - {k})"]))] if r.random() < 0.6 else []
        body += self.block(max(depth - 1, 0), True, False, n=r.choice([1, 1, 2]))
        self.loop_kinds.pop()
        if "branch_first" not in self.f:
            self.ints = list(saved)
        self.locked.pop()
        self.loopvars.pop()
        self._nb("for-bare-bound" + ("-in-main" if self.in_main else "") + ("-nested" if in_loop else ""))
        return ("for", k, m, body)

    def bound_stmt(self, depth, in_loop, top):
        """a statement that changes a bound variable (never one that bounds an enclosing for loop); values stay small:
        plain / augmented +-1 steps, modular steps, literals (under an `if` too), sensor reads reduced mod 4, copies"""
        r = self.rng
        free = [m for m in self.bounds if m not in self.locked]
        if not free:
            return ("write", r.choice(self.bounds))
        m = r.choice(free)
        k = r.random()
        where = ("main" if self.in_main else "setup") + ("-in-loop" if in_loop else "")
        if k < 0.2:
            self._nb("plain-step:" + where)
            return ("assign", m, f"({m} + 1)" if r.random() < 0.7 else f"({m} - 1)")
        if k < 0.3:
            self._nb("aug-step:" + where)
            return ("aug", m, r.choice(["+", "+", "-"]), "1")
        if k < 0.45:
            self._nb("modular-step:" + where)
            return ("assign", m, f"(({m} + {r.choice([1, 2, 3])}) % {r.choice([3, 4, 5])})")
        if k < 0.55:
            self._nb("literal:" + where)
            return ("assign", m, r.choice(["0", "1", "2", "3", "4", "5"]))
        if k < 0.67:
            self._nb("literal-under-if:" + where)
            c = r.choice([f"({m} > {r.choice([1, 2, 3])})", f"({m} < {r.choice([1, 2])})", self.bool_expr(0)])
            return ("if", [(c, [("assign", m, r.choice(["0", "1", "2", "4"]))])], [("assign", m, f"({m} + 1)")] if r.random() < 0.3 else [])
        if k < 0.77:
            self._nb("digital-read:" + where)
            return ("read", m, "digital", "4")
        if k < 0.9:
            self._nb("analog-read-mod:" + where)
            return ("seq", [("read", m, "analog", r.choice(['"A0"', '"A1"'])), ("assign", m, f"({m} % {r.choice([3, 4, 5])})")])
        if k < 0.94 and "tuple" in self.f and len(free) >= 2:
            self._nb("swap:" + where)
            a_, b_ = r.sample(free, 2)
            return ("swap", a_, b_)
        others = [x for x in self.bounds + self.loopvars if x != m]
        if others:
            self._nb("copy:" + where)
            return ("assign", m, r.choice(others))
        self._nb("literal:" + where)
        return ("assign", m, "2")

    def stmt(self, depth, in_loop, top):
        r = self.rng
        if "bound_var" in self.f and self.bounds:
            k = r.random()
            if k < 0.2:
                return self.bound_stmt(depth, in_loop, top)
            if k < 0.36 and depth > 0:
                return self.bound_for(depth, in_loop)
            if k < 0.42:
                m = r.choice(self.bounds)
                j = r.random()
                self._nb("bare-argument")
                # bare variable as the argument (guarded: a negative delay / duty is not a well-defined script)
                return ("if", [(f"({m} >= 0)", [("sleep", m) if j < 0.5 else ("aw", r.choice(["5", "6"]), m)])], [])
        if "continue" in self.f and (in_loop or self.in_main) and r.random() < 0.22:
            return self.continue_stmt(depth, in_loop)
        if top and "tuple" in self.f and self.ints and len(self.ints) < 7 and r.random() < 0.2:
            # tuple DECLARATION of all-new names at top level; the right-hand sides read existing
            # (possibly re-assigned) variables, so they must be evaluated at this point of setup()
            n1 = self.new_int()
            self.ints.append(n1)
            n2 = self.new_int()
            self.ints.pop()
            rhs = [self.int_expr(1), self.int_expr(1)]
            self.ints += [n1, n2]
            return ("tuple", [n1, n2], rhs)
        if "tuple" in self.f and len(self.ints) >= 2 and r.random() < 0.1:
            # tuple ASSIGNMENT to declared names (through the parser's block-local temporaries), at any level:
            # swap of two ints / two floats, rotation of three, parallel assignment with expressions
            j = r.random()
            if j < 0.25 and "float" in self.f and len(self.floats) >= 2:
                a, b = r.sample(self.floats, 2)
                return ("swap", a, b)
            if j < 0.5 and len(self.ints) >= 3:
                a, b, c = r.sample(self.ints, 3)
                return ("tuple", [a, b, c], [b, c, a])
            a, b = r.sample(self.ints, 2)
            if j < 0.75:
                return ("tuple", [a, b], [b, f"({a} + {self.int_atom()})"])
            return ("swap", a, b)
        k = r.random()
        if k < 0.22 or not self.ints:
            if top and (not self.ints or (len(self.ints) < 4 and r.random() < 0.5)):
                n = self.new_int()
                s = ("assign", n, self.int_expr(1))
                self.ints.append(n)
                return s
            if (not top) and ("branch_first" in self.f) and len(self.ints) < 6 and r.random() < 0.3:
                n = self.new_int()
                s = ("assign", n, self.int_expr(1))
                self.ints.append(n)
                return s
            if not self.ints:
                return ("write", self.write_expr())
            return ("assign", r.choice(self.ints), self.int_expr(2))
        if k < 0.30:
            return ("aug", r.choice(self.ints), r.choice(["+", "-", "*"] if "div" not in self.f else ["+", "-", "*", "//", "%"]), self.int_expr(1) if "div" not in self.f else r.choice(["2", "3", "5"]))
        if k < 0.52:
            return ("write", self.write_expr())
        if k < 0.56:
            return ("sleep", r.choice(["1", "10", "250", self.int_atom(False).strip("()").lstrip("-") or "1"]))
        if k < 0.60:
            return ("dw", r.choice(["13", "7"]), self.bool_expr(0) if r.random() < 0.6 else r.choice(["1", "0", "True", "False"]))
        if k < 0.63:
            return ("aw", r.choice(["5", "6"]), f"abs({self.int_expr(1)})")
        if k < 0.68 and top is False or (k < 0.68 and r.random() < 0.3):
            n = r.choice(self.ints)
            return ("read", n, "analog", r.choice(['"A0"', '"A1"'])) if r.random() < 0.7 else ("read", n, "digital", "4")
        if k < 0.80 and depth > 0:
            nb = r.choice([1, 1, 2, 3])
            saved = list(self.ints)
            branches = []
            for _ in range(nb):
                c = self.bool_expr(1)
                b = self.block(depth - 1, in_loop, False)
                branches.append((c, b))
                if "branch_first" not in self.f:
                    self.ints = list(saved)
            els = self.block(depth - 1, in_loop, False) if r.random() < 0.5 else []
            if "branch_first" not in self.f:
                self.ints = list(saved)
                # a do-nothing arm (`pass` only) in a chain with a later arm: dropping it, or its condition, changes which arm runs
                if "pass" in self.f and (nb > 1 or els) and r.random() < 0.3:
                    j = r.randrange(nb + (1 if els else 0))
                    if j < nb:
                        branches[j] = (branches[j][0], [("pass",)])
                    else:
                        els = [("pass",)]
                    self.n_pass["arm"] = self.n_pass.get("arm", 0) + 1
            return ("if", branches, els)
        if k < 0.87 and depth > 0:
            v = f"k{len(self.loopvars)}"
            if "bound_var" in self.f and self.bounds and r.random() < 0.5:
                return self.bound_for(depth, in_loop)
            if "range_var" in self.f and r.random() < 0.4:
                cnt = f"abs({self.int_atom()}) % 4"
            elif r.random() < 0.3:
                cnt = r.choice(["n0", "(n0 + 1)", "abs(n0 - 2)"])      # n0 is never re-assigned
            else:
                cnt = r.choice(["0", "1", "2", "3", "4"])
            self.loopvars.append(v)
            saved = list(self.ints)
            self.loop_kinds.append("for")
            body = self.block(depth - 1, True, False)
            self.loop_kinds.pop()
            if "branch_first" not in self.f:
                self.ints = list(saved)
            self.loopvars.pop()
            return ("for", v, cnt, body)
        if k < 0.93 and depth > 0 and self.ints:
            # bounded while: a dedicated counter
            c = f"w{self.counter}"
            self.counter += 1
            saved = list(self.ints)
            self.loop_kinds.append("while")
            wlim = None
            free = [m for m in self.bounds if m not in self.locked]
            if "bound_var" in self.f and free and r.random() < 0.45:
                # the limit of the while loop is a bare bound variable (its body never assigns it: the loop terminates)
                wlim = r.choice(free)
                self.locked.append(wlim)
                self._nb("while-limit-bare" + ("-in-main" if self.in_main else ""))
            if "continue" in self.f:
                # the counter advances FIRST: a `continue` anywhere in the body cannot skip it (the loop terminates)
                body = [("assign", c, f"({c} + 1)")] + self.block(depth - 1, True, False)
            else:
                body = self.block(depth - 1, True, False) + [("assign", c, f"({c} + 1)")]
            self.loop_kinds.pop()
            if "branch_first" not in self.f:
                self.ints = list(saved)
            lim = r.choice(["0", "1", "2", "3"])
            if wlim is not None:
                self.locked.pop()
                lim = wlim
            return ("seq", [("assign", c, "0"), ("while", f"({c} < {lim})" if r.random() < 0.7 else f"({c} < {lim} and {self.bool_expr(0)})", body)])
        if k < 0.96 and in_loop:
            c = self.bool_expr(0)
            kind = "continue" if ("continue" in self.f and r.random() < 0.5) else "break"
            if kind == "continue":
                self.n_continue[self.loop_kinds[-1]] += 1
            return ("if", [(c, [(kind,)])], [])
        if k < 0.98 and len(self.ints) >= 2 and "tuple" in self.f:
            a, b = r.sample(self.ints, 2)
            return ("swap", a, b)
        if self.funcs and r.random() < 0.7:
            fn = r.choice(self.funcs)
            args = self.call_args(fn, 1)
            if r.random() < 0.5:
                return ("callassign", r.choice(self.ints), fn[0], args)
            return ("write", f"{fn[0]}({', '.join(args)})")
        return ("write", self.write_expr())

    def block(self, depth, in_loop, top, n=None):
        n = n or self.rng.choice([1, 2, 2, 3, 4])
        out = []
        for _ in range(n):
            s = self.stmt(depth, in_loop, top)
            if s[0] == "seq":
                # the while counter must be declared at top level for the guarded fragment
                out.extend(s[1])
            else:
                out.append(s)
        if "pass" in self.f and self.rng.random() < 0.1:             # a `pass` between / around the statements of a block
            out.insert(self.rng.randrange(len(out) + 1), ("pass",))
            self.n_pass["between"] = self.n_pass.get("between", 0) + 1
        return out

    def program(self, with_main=True):
        r = self.rng
        if "funcs" in self.f:
            for i in range(r.choice([1, 2])):
                params = [f"p{j}" for j in range(r.choice([1, 2]))]
                sub = Gen(r, self.f - {"funcs"})
                sub.ints = list(params)
                sub.counter = 50 + 10 * i      # function-local while counters get their own names
                lead = []
                if "bound_var" in self.f:
                    # the first parameter is a loop bound (small at every call site); half of them shadow the global m0
                    params = [r.choice(["m0", "p0"]), "p1"]
                    sub.ints = ["p1"]
                    sub.bounds = [params[0]]
                    sub.n_bound = self.n_bound
                    if r.random() < 0.7:
                        lead = [sub.bound_for(1, False, params[0])]
                        self._nb("for-bound-is-parameter" + ("-shadowing-global" if params[0] == "m0" else ""))
                body = lead + sub.block(1, False, False, n=r.choice([0, 1, 2]))
                # locals of the function: keep only params visible for the return
                ret = sub.int_expr(1)
                self.funcs.append((f"fn{i}", params, body, ret))
        pre = []
        head = []
        if "bound_var" in self.f:
            # constant-initialised (non-zero literal mostly), or first assigned from a sensor read; with helpers mostly
            # ABOVE the defs (a parameter spelled like such a global then shadows a name the parser already knows)
            bdecl = head if (self.funcs and r.random() < 0.65) else pre
            for m in ["m0", "m1"][:r.choice([1, 2, 2])]:
                if r.random() < 0.8:
                    bdecl.append(("assign", m, r.choice(["1", "2", "3", "4", "2", "0"])))
                else:
                    bdecl.append(("read", m, "digital", "4"))
                self.bounds.append(m)
        # declare a few ints (and floats/bools) up front so that everything is assigned before use
        for _ in range(r.choice([2, 3, 4])):
            n = self.new_int()
            pre.append(("assign", n, self.int_expr(1) if self.ints else str(r.choice([0, 1, 5, -2]))))
            self.ints.append(n)
        if "float" in self.f:
            for j in range(r.choice([1, 2])):
                n = f"f{j}"
                pre.append(("assign", n, self.float_expr(1)))
                self.floats.append(n)
        if r.random() < 0.5:
            pre.append(("assign", "b0", self.bool_expr(0)))
            self.bools.append("b0")
        # while counters must exist at top level (declared before any block uses them)
        body_pre = self.block(2, False, True, n=r.choice([2, 3, 5]))
        self.in_main = True
        main = self.block(2, False, False, n=r.choice([2, 3, 4])) if with_main else None
        self.in_main = False
        wdecl = [("assign", "n0", str(r.choice([0, 1, 2, 3])))] + [("assign", f"w{j}", "0") for j in range(self.counter)]
        prog = {"funcs": [(f[0], f[1], f[2], f[3]) for f in self.funcs], "pre": wdecl + pre + body_pre, "main": main}
        if "bound_var" in self.f:
            prog["n_bound"] = dict(self.n_bound)
            if head:
                prog["head"] = head
                self._nb("declared-above-the-defs")
                prog["n_bound"] = dict(self.n_bound)
        if "continue" in self.f:
            prog["n_continue"] = dict(self.n_continue)     # by innermost enclosing loop (helper-function bodies not counted)
        return prog
