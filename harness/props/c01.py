"""C01 - reject-or-preserve for the core language (expression layer + statement layer)."""
from __future__ import annotations

import importlib

from harness import common as C

UNITS = ["C01_stmt"]
try:  # the expression-layer unit is optional until it is merged
    importlib.import_module("harness.props.c01_expr")
    UNITS = ["C01_expr", "C01_stmt"]
except Exception:  # noqa
    pass

META = {
    "id": "C01",
    "technique": "Coq proof about Gallina models of the transpiler (expression translation ToC/CSem vs PySem; statement translation Transl with skeleton-preservation and simulation theorems) + model/IR and model/firmware correspondence + firmware-vs-CPython trace oracle",
    "level_text": "Theorems in coq/Props/C01_*.v are proved for all programs/expressions of the modelled fragment; the models are tied to parser.py by regenerated operator tables, by comparing the model's IR with the real parser's IR, and by running the emitted C++ (g++ + mock Arduino core) against the model and against CPython on generated programs. Known deviations of Reduino from Python (int true division, macro double evaluation, re-evaluated range bound, loop variable assigned in a for-range body, serial text of bool/float) are refuted theorems + listed findings; generated cases stay inside the guard. Floor division and modulo (emitted as C / and %) and ** (emitted verbatim) are repaired (fixed findings F-C01-floordiv, F-C01-mod-sign, F-C01-mod-float, F-C01-pow: // and % are calls of helper templates with Python's semantics, ** is rejected): their witnesses are replayed first on every run (a failure is a VIOLATION), the refuted theorems are replaced by positive ones (C01_floordiv_helper_floors, C01_mod_helper_sign_of_divisor, C01_floordiv_preserved, C01_mod_preserved, C01_floordiv_closed, C01_mod_closed, C01_pow_never_emitted) and // % are generated on operands of every sign and kind. `continue`, which the parser used to drop silently, is repaired (fixed finding F-C01-continue-dropped: witness replayed first on every run, a failure is a VIOLATION); it is outside the Coq statement fragment and is covered by the firmware-vs-CPython trace oracle on generated programs with `continue` in for/while loops, nested ifs and the main loop body.",
    "level_note": "Trusted: Coq kernel, extraction, the mock Arduino core and g++ as the definition of the device, CPython as the definition of Python, translator for operator tables. The statement-level simulation is proved modulo the expression-level theorem (shared opaque expression semantics). Helper functions: return type and returned value are modelled (Lang/FnRet.v), the order of tuple right-hand sides is proved on the emitted node list (Lang/TupleOrder.v); parameters, variants, call sites inside expressions, lists, try/except and strings beyond literals are covered only by the differential oracle (generated helpers with several return statements and effectful call sites in every expression position).",
    "design_ref": "DESIGN.md section 4 C01, Appendix B",
}


def run(ctx: C.Ctx):
    parts = {}
    cov = {"evaluations": 0, "distinct_nontrivial": 0, "samples": [], "rule": []}
    # repaired defects (kind "fixed" in known_findings) suppress nothing: their witnesses are replayed before anything
    # else, so that a defect that returned is the first VIOLATION and its replay is the witness
    ctx.c01_fixed_replayed = importlib.import_module("harness.props.c01_stmt").replay_fixed(ctx)
    if "C01_expr" in UNITS:
        importlib.import_module("harness.props.c01_expr").replay_fixed(ctx)
    for u in UNITS:
        mod = importlib.import_module("harness.props." + u.lower())
        r = mod.run_unit(ctx) or {}
        parts[u] = r
        cov["evaluations"] += int(r.get("evaluations", 0))
        cov["distinct_nontrivial"] += int(r.get("distinct_nontrivial", 0))
        cov["samples"] += list(r.get("samples", []))[:3]
        if r.get("rule"):
            cov["rule"].append(f"{u}: {r['rule']}")
    ctx.coverage.update({
        "evaluations": cov["evaluations"], "distinct_nontrivial": cov["distinct_nontrivial"],
        "samples": cov["samples"], "rule": " | ".join(cov["rule"]), "units": parts,
        "guard": "operators // and % on any numeric operands with a non-zero divisor (a zero divisor is not a well-defined script); / only with a float operand; ** only where the transpiler folds it (otherwise rejected); no side-effecting call inside abs/min/max or a chained comparison; at most one effectful helper call per sequenced region of an expression and no read of a global it writes; the return statements of one helper have one kind (int-like / float / str); a global a helper assigns is first assigned above the def; range() bound independent of the loop body; the body of a for-range loop does not assign its loop variable; stable variable types; serial values compared at value level (bool 1/0, floats to 2 decimals)",
        "unmodelled": ["`continue` (no constructor in Lang/StmtAst.v: a stated limit of the proved fragment; differential oracle only)", "helper parameters / per-signature variants / call sites inside expressions (return type and returned value are modelled: Lang/FnRet.v), C++ operand evaluation order inside one expression (finding F-C01-eval-order), lists/comprehensions, try/except, string methods (differential oracle only)", "16-bit int overflow on a real AVR (mock is a 32-bit hosted g++)", "CPython recursion limits"],
        "trusted_base": C.COMMON_TRUSTED + ["mock/ Arduino core + g++ 12 (definition of the device)", "harness/impl/pyrun_impl.py (CPython reference trace)", "harness/impl/c01_stmt_impl.py (IR shape of the real parser)"],
    })
    ctx.assumptions += ["expression-level correctness is assumed by the statement-level simulation theorem as a shared opaque semantics (discharged for the modelled expression fragment by unit C01_expr)"]
