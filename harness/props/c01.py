"""C01 - reject-or-preserve for the core language (TEMPORARY single-unit driver of work package C01_expr;
the coordinator replaces this file with the two-unit version UNITS = ["C01_expr", "C01_stmt"])."""
from harness import common as C
from harness.props import c01_expr

UNITS = ["C01_expr"]

META = {
    "id": "C01",
    "technique": c01_expr.META_PART["technique"],
    "level_text": c01_expr.META_PART["level_text"],
    "level_note": c01_expr.META_PART["level_note"],
    "design_ref": c01_expr.META_PART["design_ref"],
}


def run(ctx: C.Ctx):
    cov = c01_expr.run_unit(ctx)
    ctx.coverage.update({k: v for k, v in cov.items() if k != "unit"})
