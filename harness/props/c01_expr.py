"""C01_expr - the expression layer of C01: _to_c_expr (emit) with the tables _BIN/_UN/_CMP.

Ties of the Coq models (coq/Lang/CAst.v, CSem.v, ToC.v) to the working tree of /repo:
  (a) text:      real _to_c_expr(src, env, ctx) == print_c (to_c e), accept/reject agreement (ValueError)
  (b) behaviour: scripts `mon.write(<expr>)` transpiled by the real parse+emit, compiled with g++ against
                 the mock core and run; the printed line == serial_text (ceval (to_c e)) of the model
  (c) oracle:    firmware value == CPython value of the same script, for expressions inside expr_guard
plus the spec-side validation of PySem against CPython's eval (pysem_check) on the same expressions and
the replay of the listed known findings (known_findings.d/C01_expr.json, property C01).
The coordinator's harness/props/c01.py calls run_unit(ctx) with ctx.id == "C01"."""
from __future__ import annotations

import json
import random
import re
from fractions import Fraction

from harness import common as C
from harness import fw, progen
from harness import pyast_wire as W
from harness import pysem_check as PS

UNIT = "C01_expr"

META_PART = {
    "unit": UNIT,
    "technique": "Coq proof (value preservation of the transcribed emitter by induction over expressions, operator tables regenerated from parser.py - the emitted form of every binary operator probed on parser._emit_binop - and checked by reflection, one refuted theorem per guard clause, positive theorems for the repaired // % **) + extracted-model correspondence with the real _to_c_expr text and with the real emitted firmware under g++/mock core + firmware-vs-CPython oracle inside the extracted guard",
    "level_text": "Theorems C01_* of coq/Props/C01_expr.v are proved for all expressions, environments and inputs about Gallina models of emit (ToC.v), of the emitted C++ (CSem.v: 32-bit int with explicit range guard, exact-rational float, Arduino macros) and of CPython (PySem.v); the tables _BIN/_UN/_CMP and the form in which _emit_binop emits each operator (infix / helper template / rejected) are regenerated from parser.py on every run; the models are run against the real _to_c_expr, the real firmware and CPython on generated expressions.",
    "level_note": "Trusted: Coq kernel, translator harness/gen/optables.py, extraction, OCaml driver, g++ and the mock Arduino core as the definition of the device (int = 32 bit there; AVR's 16 bit int is not modelled), CPython 3.12 as the definition of Python. Floats are exact rationals in the models; generated floats are dyadic so that binary rounding does not show. Lists, subscripts, comprehensions, methods, user functions are outside the transcribed fragment (NotModelled, counted).",
    "design_ref": "DESIGN.md section 4 C01, Appendix B",
}

TYPES = {"a": "int", "b": "int", "f": "float", "t": "bool", "s": "String"}
TYCODE = {"int": 0, "float": 1, "bool": 2, "String": 3}
MY_FINDINGS = ("F-C01-floordiv", "F-C01-mod-sign", "F-C01-truediv-int", "F-C01-pow", "F-C01-macro-double-eval",
               "F-C01-chain-double-eval", "F-C01-serial-text", "F-C01-boolop-value", "F-C01-cond-mixed-type",
               "F-C01-str-bool", "F-C01-strlit-concat", "F-C01-len-utf8", "F-C01-shift-range", "F-C01-mod-float",
               "F-C01-int-strlit-cond")

HEADER = ("from Reduino.Communication import SerialMonitor\n"
          "from Reduino.Core import analog_read, digital_read\n"
          "mon = SerialMonitor(9600)\n")
ENV_LINES = ('a = analog_read("A0") - 300\n'
             'b = analog_read("A1") - 300\n'
             "f = a / 4.0\n"
             "t = a > 0\n"
             "s = str(b)\n")

A_VALUES = [-7, -1, 0, 1, 2, 7, 8, 100, -300, 255, 13, -12, 64, 723]
B_VALUES = [-3, -2, -1, 1, 2, 3, 5, 10, -8, 4, 0, 300]


def env_of(a, b):
    return {"a": a, "b": b, "f": Fraction(a, 4), "t": a > 0, "s": str(b)}


def py_env(env):
    return {k: (float(v) if isinstance(v, Fraction) else v) for k, v in env.items()}


# ------------------------------------------------------------------ typed generator
INT_LITS = [0, 1, 2, 3, 5, 7, 10, 100, 255, 256, 1000]
FLOAT_LITS = ["0.5", "1.5", "2.5", "0.25", "3.0", "100.0", "7.75", "0.0", "2.0"]
STR_LITS = ['"a"', '"ab"', '""', '"12"', '"x y"', '"-3"', '"q\\"r"', '"a#b"']      # "a#b": a '#' inside a literal is not a comment
NUM_LITS = ['"12"', '"13"', '"-3"', '" 7 "', '"0"', '"+41"', '"1000"']
CMP = ["==", "!=", "<", "<=", ">", ">="]


class Gen:
    """Typed generator: every produced expression is well typed for CPython (ints a b, float f, bool t, str s);
    `risky` is the probability of a construct that is outside expr_guard by construction."""

    def __init__(self, rng, risky=0.08):
        self.rng = rng
        self.risky = risky
        self.kinds = {}

    def note(self, k):
        self.kinds[k] = self.kinds.get(k, 0) + 1

    def num(self, d):
        return self.int_(d) if self.rng.random() < 0.65 else self.float_(d)

    def atom(self, ty):
        r = self.rng
        if ty == "int":
            return r.choice(["a", "b", "a", "b", str(r.choice(INT_LITS))])
        if ty == "float":
            return r.choice(["f", "f", r.choice(FLOAT_LITS)])
        if ty == "bool":
            return r.choice(["t", "t", "True", "False"])
        return r.choice(["s", "s", r.choice(STR_LITS)])

    def int_(self, d):
        r = self.rng
        if d <= 0 or r.random() < 0.15:
            return self.atom("int")
        if r.random() < self.risky:
            k = r.choice(["pow", "and-int", "shift-big", "minmax3"])
            self.note("risky:" + k)
            if k == "pow":
                return f"({self.int_(d - 1)} ** 2)"
            if k == "and-int":
                return f"({self.int_(d - 1)} {r.choice(['and', 'or'])} {self.int_(d - 1)})"
            if k == "shift-big":
                return f"({self.int_(d - 1)} >> 40)"
            return f"{r.choice(['min', 'max'])}({self.int_(d - 1)}, {self.int_(d - 1)}, {self.int_(d - 1)})"
        k = r.choice(["add", "sub", "mul", "floordiv", "mod", "bit", "shift", "neg", "pos", "abs", "minmax", "int-float",
                      "int-bool", "int-str", "len", "ifexp", "bool-arith", "add", "sub", "floordiv", "mod", "minmax", "int-strlit-cond"])
        self.note(k)
        if k in ("add", "sub"):
            return f"({self.int_(d - 1)} {'+' if k == 'add' else '-'} {self.int_(d - 1)})"
        if k == "mul":
            return f"({self.int_(d - 1)} * {r.choice(['2', '3', '-1', 'b', '10', self.int_(d - 2)])})"
        if k == "floordiv":      # operands of either sign (repaired: F-C01-floordiv); a bool operand is an int operand
            return f"({self.int_(d - 1)} // {r.choice(['b', '2', '3', '7', '(-2)', '(-3)', '(-7)', '(-1)', '(t + 1)', self.int_(d - 1)])})"
        if k == "mod":           # (repaired: F-C01-mod-sign)
            return f"({self.int_(d - 1)} % {r.choice(['b', '2', '3', '7', '(-3)', '(-2)', '(-7)', '(-1)', '(t + 2)', self.int_(d - 1)])})"
        if k == "bit":
            return f"({self.int_(d - 1)} {r.choice(['&', '|', '^'])} {self.int_(d - 1)})"
        if k == "shift":
            return f"({self.int_(d - 1)} {r.choice(['<<', '>>'])} {r.choice([0, 1, 2, 3])})"
        if k == "neg":
            return f"(-{self.int_(d - 1)})"
        if k == "pos":
            return f"(+{self.int_(d - 1)})"
        if k == "abs":
            return f"abs({self.int_(d - 1)})"
        if k == "minmax":
            return f"{r.choice(['min', 'max'])}({self.int_(d - 1)}, {self.int_(d - 1)})"
        if k == "int-float":
            return f"int({self.float_(d - 1)})"
        if k == "int-bool":
            return f"int({self.bool_(d - 1)})"
        if k == "int-strlit-cond":   # int() of a choice between literals: const char* in C++ (repaired: F-C01-int-strlit-cond)
            return f"int({self.charp(d - 1, NUM_LITS)})"
        if k == "int-str":
            return r.choice(["int(s)", 'int("12")', 'int(" -7 ")', f"int(str({self.int_(d - 1)}))", 'int(s + "0")'])
        if k == "len":
            return r.choice(['len("abc")', "len(s)", f"len({self.str_(d - 1)})", 'len("")'])
        if k == "ifexp":
            return f"({self.int_(d - 1)} if {self.bool_(d - 1)} else {self.int_(d - 1)})"
        return f"({self.bool_(d - 1)} {r.choice(['+', '-', '*'])} {self.int_(d - 1)})"

    def float_(self, d):
        r = self.rng
        if d <= 0 or r.random() < 0.15:
            return self.atom("float")
        if r.random() < self.risky:
            k = r.choice(["cond-mixed", "truediv-int", "minmax-mixed", "pow-float"])
            self.note("risky:" + k)
            if k == "cond-mixed":
                return f"({self.int_(d - 1)} if {self.bool_(d - 1)} else {self.float_(d - 1)})"
            if k == "truediv-int":
                return f"({self.int_(d - 1)} / {self.int_(d - 1)})"
            if k == "minmax-mixed":
                return f"{r.choice(['min', 'max'])}({self.int_(d - 1)}, {self.float_(d - 1)})"
            return f"({self.float_(d - 1)} ** 2)"
        k = r.choice(["add", "sub", "mul", "div-pow2", "div", "float-int", "float-bool", "abs", "minmax", "neg", "ifexp",
                      "add", "div-pow2", "floordiv", "mod", "floordiv", "mod"])
        self.note("f:" + k)
        if k in ("floordiv", "mod"):
            # // and % with a float operand (repaired: F-C01-floordiv float clause, F-C01-mod-float): float // num, num // float,
            # float % num, num % float, divisors of either sign, dyadic so that the exact-rational model and binary64 agree
            o = "//" if k == "floordiv" else "%"
            dv = r.choice(["2", "0.5", "3", "(-2)", "(-0.5)", "1.5", "(-1.5)", "4.0", "b", "(-0.25)", "2.5"])
            form = r.choice([0, 0, 1, 2])
            if form == 0:
                return f"({self.float_(d - 1)} {o} {dv})"
            if form == 1:
                return f"({self.int_(d - 1)} {o} {r.choice(['0.5', '(-0.5)', '1.5', '(-2.5)', '4.0', 'f'])})"
            return f"({self.float_(d - 1)} {o} {self.num(d - 1)})"
        if k in ("add", "sub"):
            return f"({self.float_(d - 1)} {'+' if k == 'add' else '-'} {self.num(d - 1)})"
        if k == "mul":
            return f"({self.num(d - 1)} * {self.float_(d - 1)})"
        if k == "div-pow2":
            return f"({self.num(d - 1)} / {r.choice(['2.0', '4.0', '0.5', '8.0'])})"
        if k == "div":
            return f"({self.float_(d - 1)} / {r.choice(['b', '2', '4', self.int_(d - 1)])})"
        if k == "float-int":
            return f"float({self.int_(d - 1)})"
        if k == "float-bool":
            return f"float({self.bool_(d - 1)})"
        if k == "abs":
            return f"abs({self.float_(d - 1)})"
        if k == "minmax":
            return f"{r.choice(['min', 'max'])}({self.float_(d - 1)}, {self.float_(d - 1)})"
        if k == "neg":
            return f"(-{self.float_(d - 1)})"
        return f"({self.float_(d - 1)} if {self.bool_(d - 1)} else {self.float_(d - 1)})"

    def bool_(self, d):
        r = self.rng
        if d <= 0 or r.random() < 0.15:
            return self.atom("bool")
        if r.random() < self.risky:
            k = r.choice(["lit-compare", "not-str"])
            self.note("risky:" + k)
            if k == "lit-compare":
                return f'("a" {r.choice(["==", "<"])} "b")'
            return f"(not {self.str_(d - 1)})"
        k = r.choice(["cmp", "cmp", "cmp", "chain", "not", "not-num", "and", "or", "bool-num", "ifexp", "str-cmp", "bitbool"])
        self.note("b:" + k)
        if k == "cmp":
            return f"({self.num(d - 1)} {r.choice(CMP)} {self.num(d - 1)})"
        if k == "chain":
            return f"({self.num(d - 1)} {r.choice(CMP)} {self.num(d - 1)} {r.choice(CMP)} {self.num(d - 1)})"
        if k == "not":
            return f"(not {self.bool_(d - 1)})"
        if k == "not-num":
            return f"(not {self.num(d - 1)})"
        if k in ("and", "or"):
            n = r.choice([2, 2, 3])
            return "(" + f" {k} ".join(self.bool_(d - 1) for _ in range(n)) + ")"
        if k == "bool-num":
            return f"bool({self.num(d - 1)})"
        if k == "ifexp":
            return f"({self.bool_(d - 1)} if {self.bool_(d - 1)} else {self.bool_(d - 1)})"
        if k == "str-cmp":
            return f"({self.strobj(d - 1)} {r.choice(CMP)} {self.str_(d - 1)})"
        return f"({self.bool_(d - 1)} {r.choice(['&', '|', '^'])} {self.bool_(d - 1)})"

    def strobj(self, d):
        """a str expression that is a String object in C++ (never a bare literal)"""
        r = self.rng
        if d <= 0 or r.random() < 0.3:
            return "s"
        k = r.choice(["concat", "str-int", "fstring", "ifexp"])
        self.note("s:" + k)
        if k == "concat":
            return f"({self.strobj(d - 1)} + {self.str_(d - 1)})" if r.random() < 0.7 else f"({r.choice(STR_LITS)} + {self.strobj(d - 1)})"
        if k == "str-int":
            return f"str({self.int_(d - 1)})"
        if k == "fstring":
            parts = []
            for _ in range(r.choice([1, 2, 3])):
                parts.append(r.choice(["v=", "", " ", "x"]))
                inner = self.int_(d - 1) if r.random() < 0.6 else self.strobj(d - 1)
                parts.append("{" + inner.replace('"', "'") + "}")
            parts.append(r.choice(["", " end"]))
            return 'f"' + "".join(parts) + '"'
        return f"({self.strobj(d - 1)} if {self.bool_(d - 1)} else {self.str_(d - 1)})"

    def str_(self, d):
        r = self.rng
        if r.random() < self.risky and d > 0:
            k = r.choice(["str-bool", "str-float", "fstr-bool"])
            self.note("risky:" + k)
            if k == "str-bool":
                return f"str({self.bool_(d - 1)})"
            if k == "str-float":
                return f"str({self.float_(d - 1)})"
            return 'f"{' + self.bool_(d - 1).replace('"', "'") + '}"'
        if r.random() < 0.3:
            return r.choice(STR_LITS)
        if d > 0 and r.random() < 0.2:
            return self.litconcat(d)
        return self.strobj(d)

    def charp(self, d, lits=None):
        """an expression the emitter prints as const char*: a literal, an f-string without fields, a choice between such"""
        r = self.rng
        lits = lits or STR_LITS
        if d <= 0 or r.random() < 0.45:
            q = r.choice(lits)
            return ("f" + q) if r.random() < 0.15 and "{" not in q and "\\" not in q else q
        return f"({self.charp(d - 1, lits)} if {self.bool_(d - 1)} else {self.charp(d - 1, lits)})"

    def litconcat(self, d):
        """`+` of two const char* expressions (repaired: F-C01-strlit-concat / F-C06-literal-concat), alone, chained to the
        left and to the right, and next to a String object"""
        r = self.rng
        self.note("s:lit-concat")
        a, b = self.charp(d - 1), self.charp(d - 1)
        form = r.choice([0, 0, 1, 2, 3, 4])
        if form == 0:
            return f"({a} + {b})"
        if form == 1:
            return f"(({a} + {b}) + {self.charp(d - 1)})"
        if form == 2:
            return f"({a} + ({b} + {self.charp(d - 1)}))"
        if form == 3:
            return f"(({a} + {b}) + {self.strobj(d - 1)})"
        return f"({self.strobj(d - 1)} + ({a} + {b}))"

    def expr(self, d):
        ty = self.rng.choice(["int", "int", "float", "bool", "str"])
        return ty, {"int": self.int_, "float": self.float_, "bool": self.bool_, "str": self.str_}[ty](d)


# // and % on every combination of signs, exact and inexact division, int / bool / float operands in both positions, the
# augmented-assignment spellings are covered by the statement layer (progen feature `div`); run on every environment of
# DIV_ENVS in every tier (the region the guards of F-C01-floordiv / F-C01-mod-sign / F-C01-mod-float used to exclude)
DIV_CORPUS = [
    ("int", "a // b"), ("int", "a % b"), ("int", "a // 2"), ("int", "a % 3"), ("int", "a // (-2)"), ("int", "a % (-3)"),
    ("int", "(-a) // b"), ("int", "(-a) % b"), ("int", "(a // b) * b + a % b"), ("int", "a // (t + 1)"), ("int", "t % b"),
    ("int", "(a * 3 + 1) // (b * 2)"), ("int", "(a - 1) % (b * 5)"), ("int", "a // b // 2"), ("int", "a % b % 2"),
    ("int", "-(a // b)"), ("int", "-a // b"), ("int", "abs(a) // abs(b)"), ("int", "int(s) // 3"), ("int", "a % int(s)"),
    ("float", "f // 2"), ("float", "f % 2"), ("float", "f // b"), ("float", "f % b"), ("float", "a // 0.5"), ("float", "a % 2.5"),
    ("float", "f // (-0.5)"), ("float", "f % (-1.5)"), ("float", "b // f"), ("float", "b % f"), ("float", "(f // b) * b + f % b"),
    ("float", "f // 0.25 % 3"), ("float", "(f + 0.5) % (b / 2.0)"), ("float", "t // 0.5"), ("float", "7.75 % f"),
    ("bool", "a % 2 == 1"), ("bool", "a // b < 0"), ("bool", "0 <= a % b < b"), ("bool", "f % 1 == 0.0"),
    ("str", "str(a // b)"), ("str", 'f"{a % b}"'),
]
DIV_ENVS = [(-7, 2), (-7, -2), (7, -2), (7, 2), (-8, 4), (8, -4), (-1, 3), (1, -3), (-7, -3), (13, 5), (-300, 7), (723, -8),
            (2, 3), (-2, 3), (-1, -1), (100, -3)]


# ------------------------------------------------------------------ scripts
def build_script(groups, noise=None):
    """groups: [((ra, rb), [(case_id, expr_src)])] -> (script, input text); noise: a progen.Noise - comment-only lines (column 0
    and deeper), blank lines and trailing comments / blanks around the statement lines (CPython ignores them)"""
    s, inp = _build_script(groups)
    if noise is not None:
        out = []
        for l in s.split("\n"):
            if l.strip():
                out.extend(j[:-1] for j in noise.junk(0, 4, False, False))
                l += noise.trail(False)
            out.append(l)
        t = "\n".join(out)
        if progen.same_python(t, s):
            s = t
    return s, inp


def _build_script(groups):
    lines = [HEADER]
    ra, rb = [], []
    for (va, vb), cases in groups:
        ra.append(va + 300)
        rb.append(vb + 300)
        lines.append(ENV_LINES)
        for cid, src in cases:
            lines.append(f'mon.write("##case {cid}")\n')
            lines.append(f"mon.write({src})\n")
    lines.append('mon.write("##case end")\n')
    inp = "ar 14 " + " ".join(map(str, ra)) + "\nar 15 " + " ".join(map(str, rb)) + "\n"
    return "".join(lines), inp


NUM_RE = re.compile(r"-?\d+\.\d+")


def serial_same(model_text, fw_text, tol=0.0101):
    """equal, or equal up to the last printed decimal of float renderings (binary rounding / tie rule of the mock)"""
    if model_text == fw_text:
        return True
    if NUM_RE.sub("#", model_text) != NUM_RE.sub("#", fw_text):
        return False
    a, b = NUM_RE.findall(model_text), NUM_RE.findall(fw_text)
    return len(a) == len(b) and all(abs(float(x) - float(y)) <= tol for x, y in zip(a, b))


def value_same(py_line, fw_line):
    """property oracle at value level: CPython `S text\\ttype` vs firmware `S text`.
    int exact; bool True/False == 1/0; float to 0.006 (two printed decimals); str exact."""
    if not py_line.startswith("S ") or not fw_line.startswith("S "):
        return False
    body, _, ty = py_line[2:].rpartition("\t")
    got = fw_line[2:]
    if ty == "int" or ty == "str":
        return body == got
    if ty == "bool":
        return got == ("1" if body == "True" else "0")
    if ty == "float":
        try:
            return abs(float(body) - float(got)) <= 0.006
        except ValueError:
            return False
    return False


def case1(env, src, ins=()):
    return [1, W.enc_env(env), [], [[[an, pin], list(vals)] for (an, pin), vals in ins], W.enc_src(src)]


def dec_case1(m):
    """-> dict(tr=('ok',text)|('rej',)|('nm',k), guard, py=('ok',v)|('err',k), c=('ok',(tag,val),text,left)|('stuck',)|('undef',)|('none',), small)"""
    tr, g, py, ce, small = m
    if tr[0] == 0:
        t = ("ok", C.wstr(tr[1]))
    elif tr[1] == 1:
        t = ("rej",)
    else:
        t = ("nm", tr[2])
    if ce[0] == 0:
        c = ("ok", ce[1], C.wstr(ce[2]), ce[3])
    else:
        c = ({1: "stuck", 2: "undef", 0: "none"}[ce[1]],)
    return {"tr": t, "guard": bool(g), "py": W.dec_res(py), "c": c, "small": bool(small)}


def vrel_model(pyv, cv):
    """vrel of coq/Lang/ToC.v on decoded wire values (what C01_expr_preserve_partial promises inside the guard)"""
    tag, payload = cv[0], cv[1]
    if tag == 0:
        return (isinstance(pyv, bool) and payload == int(pyv)) or (isinstance(pyv, int) and not isinstance(pyv, bool) and payload == pyv)
    if tag == 1:
        return isinstance(pyv, bool) and bool(payload) == pyv
    if tag == 2:
        return isinstance(pyv, Fraction) and Fraction(payload[0], payload[1]) == pyv
    if tag in (3, 4):
        return isinstance(pyv, str) and C.wstr(payload) == pyv
    return False


def my_findings(ctx):
    """the listed findings of this unit: entries of known_findings.json with this unit's ids, plus the unit's own
    known_findings.d/C01_expr.json (the source the merged file is assembled from), by id"""
    own = []
    p = C.VERIF / "known_findings.d" / "C01_expr.json"
    if p.exists():
        own = json.loads(p.read_text())
    ids = set(MY_FINDINGS) | {f.get("id") for f in own}
    fs = {f.get("id"): f for f in own}
    for f in ctx.findings:
        if f.get("id") in ids and "witness" in f and "exprs" in f["witness"]:
            fs[f["id"]] = f
    return [f for f in fs.values() if f.get("kind") != "fixed"]


def fw_run_scripts(scripts):
    """[(script, input)] -> [(transpile result, firmware cases dict | None, cpython cases dict | None)]"""
    tr = fw.transpile_many([s for s, _ in scripts])
    jobs, idx = [], []
    for i, (r, (s, inp)) in enumerate(zip(tr, scripts)):
        if r.get("ok"):
            jobs.append({"cpp": r["cpp"], "input": inp, "loops": 0})
            idx.append(i)
    runs = fw.run_sketches(jobs)
    pys = fw.pyrun_many([{"src": s, "input": inp, "loops": 0} for s, inp in scripts])
    out = [[r, None, None, None] for r in tr]
    for i, run in zip(idx, runs):
        out[i][1] = run
    for i, p in enumerate(pys):
        out[i][2] = p
    return out


# ------------------------------------------------------------------ the check
def run_unit(ctx: C.Ctx):
    # a stream of its own, derived from the run's seed: the units of C01 share ctx.rng, and the cases of one unit
    # must not depend on how many numbers the other one drew
    rng = random.Random(f"{UNIT}:{ctx.seed}")
    thorough = ctx.tier == "thorough"
    exe = ctx.exes.get(UNIT)
    cov = {"unit": UNIT}
    dist = {}

    # ---------------- generated expressions
    n_text = 6000 if thorough else 1500
    n_sketch = 300 if thorough else 30
    per_group, groups_per_sketch = 10, 4
    gen = Gen(rng)
    typed = [gen.expr(rng.choice([1, 2, 2, 3, 3, 4])) for _ in range(n_sketch * per_group * groups_per_sketch * 2)]
    loose = [W.gen_expr(rng, rng.choice([1, 2, 3, 4]), names=list(TYPES)) for _ in range(n_text)]
    special = SPECIAL_TEXT

    # ---------------- (a) text tie
    text_srcs = loose + [s for _, s in typed[: n_text // 2]] + special
    impl = C.run_impl("c01_expr_impl.py", {"cases": [{"src": s, "types": TYPES, "consts": {"k": "xyz", "ks": [1, 2]}} for s in text_srcs]})
    tstat = {"ok": 0, "rejected": 0, "not_modelled": {}, "impl_ok": 0, "impl_valueerror": 0, "impl_other": 0}
    for src_i, r in zip(text_srcs, impl):
        tstat["impl_ok" if r[0] == "ok" else "impl_valueerror" if r[0] == "ValueError" else "impl_other"] += 1
        if r[0] == "Other":
            ctx.fail(f"_to_c_expr raised {r[1]} (neither a C expression nor ValueError)", src_i, "text or ValueError", r, key="emit-exc")
    if exe:
        tcases = [[0, [[k, TYCODE[v]] for k, v in TYPES.items()], [["k", 3], ["ks", 2]], W.enc_src(s)] for s in text_srcs]
        mo = ctx.model(tcases, unit=UNIT)
        for s, m, r in zip(text_srcs, mo, impl):
            if m[0] == 0:
                tstat["ok"] += 1
                if r[0] != "ok" or r[1] != C.wstr(m[1]):
                    ctx.disagree("to_c/print_c text vs real _to_c_expr", s, C.wstr(m[1]), r[:2])
            elif m[1] == 1:
                tstat["rejected"] += 1
                if r[0] != "ValueError":
                    ctx.disagree("model rejects, real _to_c_expr does not raise ValueError", s, "Rejected", r[:2])
            else:
                tstat["not_modelled"][str(m[2])] = tstat["not_modelled"].get(str(m[2]), 0) + 1
    dist["text_tie"] = tstat

    # ---------------- model evaluation of the typed expressions in sampled environments
    items = []          # (src, ty, (a, b), decoded model output)
    corpus_envs = DIV_ENVS if thorough else DIV_ENVS[:8]
    corpus = [(ty, s2, ab) for ab in corpus_envs for ty, s2 in DIV_CORPUS]
    n_corpus = len(corpus)
    if exe:
        envs = [ab for _, _, ab in corpus] + [(rng.choice(A_VALUES), rng.choice(B_VALUES)) for _ in typed]
        allx = [(ty, s2) for ty, s2, _ in corpus] + typed
        mo = ctx.model([case1(env_of(a, b), s) for (ty, s), (a, b) in zip(allx, envs)], unit=UNIT)
        for (ty, s), ab, m in zip(allx, envs, mo):
            items.append((s, ty, ab, dec_case1(m)))
    mstat = {"generated": len(items), "translated": 0, "peval_ok": 0, "ceval_ok": 0, "ceval_stuck": 0, "ceval_undef": 0,
             "in_guard": 0, "in_guard_small": 0, "guard_but_no_value": 0, "div_corpus": n_corpus, "div_corpus_in_guard": 0}
    runnable = []
    corpus_run = []
    for pos, it in enumerate(items):
        d = it[3]
        if pos < n_corpus:
            # the corpus lies inside the repaired region: every case must translate, have a value on both sides and be inside
            # expr_guard (a case that is not is a broken model / guard, reported - never silently skipped)
            if d["tr"][0] == "ok" and d["py"][0] == "ok" and d["c"][0] == "ok" and d["guard"]:
                mstat["div_corpus_in_guard"] += 1
                corpus_run.append(it)
            else:
                ctx.disagree("model: a // / % corpus case is not inside expr_guard with a value on both sides", it[:3], "translated, guard, values", [d["tr"], d["guard"], d["py"], d["c"]])
        mstat["translated"] += d["tr"][0] == "ok"
        mstat["peval_ok"] += d["py"][0] == "ok"
        mstat["ceval_ok"] += d["c"][0] == "ok"
        mstat["ceval_stuck"] += d["c"][0] == "stuck"
        mstat["ceval_undef"] += d["c"][0] == "undef"
        if d["guard"] and d["py"][0] == "ok":
            mstat["in_guard"] += 1
            mstat["in_guard_small"] += d["small"]
            if d["c"][0] != "ok":
                mstat["guard_but_no_value"] += 1
                ctx.disagree("model: inside expr_guard with a Python value but ceval has none (contradicts C01_expr_preserve_partial)", it[:3], d["c"], None)
            elif not vrel_model(d["py"][1], d["c"][1]):
                mstat["guard_but_unrelated"] = mstat.get("guard_but_unrelated", 0) + 1
                ctx.disagree("model: inside expr_guard but the C value is not vrel-related to the Python value (contradicts C01_expr_preserve_partial)", it[:3], d["py"], d["c"])
        if pos >= n_corpus and d["tr"][0] == "ok" and d["py"][0] == "ok" and d["c"][0] == "ok":
            runnable.append(it)
    dist["model_eval"] = mstat

    # ---------------- (b)+(c): sketches
    by_env = {}
    for it in runnable:
        by_env.setdefault(it[2], []).append(it)
    groups = []
    for ab, lst in sorted(by_env.items()):
        for i in range(0, len(lst), per_group):
            groups.append((ab, lst[i:i + per_group]))
    rng.shuffle(groups)
    groups = groups[: n_sketch * groups_per_sketch]
    # the // / % corpus always runs, in sketches of its own, before the sampled groups
    cgroups = []
    cby = {}
    for it in corpus_run:
        cby.setdefault(it[2], []).append(it)
    for ab, lst in cby.items():
        for i in range(0, len(lst), per_group):
            cgroups.append((ab, lst[i:i + per_group]))
    while len(cgroups) % groups_per_sketch:
        cgroups.append(cgroups[-1][:1] + ([],))
    groups = cgroups + groups
    scripts, meta = [], []
    nz = progen.Noise(random.Random(f"{UNIT}:layout-noise:{ctx.seed}"), p_line=0.2, p_trail=0.3)
    cid = 0
    for i in range(0, len(groups), groups_per_sketch):
        gs = []
        mm = {}
        for ab, lst in groups[i:i + groups_per_sketch]:
            cs = []
            for it in lst:
                cs.append((cid, it[0]))
                mm[str(cid)] = it
                cid += 1
            gs.append((ab, cs))
        if len(scripts) % 2 == 1:          # every other sketch under layout noise
            scripts.append(build_script(gs, noise=nz))
        else:
            scripts.append(build_script(gs))
        meta.append(mm)
    res = fw_run_scripts(scripts)
    bstat = {"sketches": len(scripts), "cases_run": 0, "behaviour_agree": 0, "oracle_checked": 0, "oracle_skipped_not_small": 0,
             "outside_guard_run": 0, "sketch_failed": 0}
    pysem_cases = []
    for (script, inp), mm, (tr, run, py, _) in zip(scripts, meta, res):
        if not tr.get("ok"):
            bstat["sketch_failed"] += 1
            ctx.disagree("real parse+emit rejects a script whose expressions the model translates", script[-600:], "accepted", tr)
            continue
        if not run["compiled"] or run["rc"] != 0:
            bstat["sketch_failed"] += 1
            ctx.disagree("firmware of expressions the model evaluates does not compile/run", script[-600:], "compiles and runs", (run["compile_log"] or run["stderr"])[-800:])
            continue
        fcases = fw.split_cases(run["events"])
        pcases = fw.split_cases([e.split("\t")[0] if e.startswith("S ##case") else e for e in py["events"]]) if py and not py.get("exc") else {}
        if py and py.get("exc"):
            ctx.disagree("CPython raised on a script whose expressions the reference semantics evaluates", script[-600:], "no exception", py["exc"])
        for k, it in mm.items():
            src, ty, ab, d = it
            fl = [e for e in fcases.get(k, []) if e.startswith("S ")]
            pl = [e for e in pcases.get(k, []) if e.startswith("S ")]
            bstat["cases_run"] += 1
            case = {"expr": src, "a": ab[0], "b": ab[1], "script_env": ENV_LINES}
            if len(fl) != 1:
                ctx.disagree("firmware printed no single line for the case", case, d["c"][2], fl)
                continue
            # (b) model of the emitted C++ vs the real firmware
            if serial_same(d["c"][2], fl[0][2:]):
                bstat["behaviour_agree"] += 1
            else:
                ctx.disagree("ceval (to_c e) vs the real firmware's printed value", case, d["c"][2], fl[0][2:])
            # (c) the property itself, inside the guard
            if d["guard"]:
                if not d["small"]:
                    bstat["oracle_skipped_not_small"] += 1
                elif len(pl) == 1:
                    bstat["oracle_checked"] += 1
                    if not value_same(pl[0], fl[0]):
                        ctx.fail("firmware value differs from CPython's value for an expression inside expr_guard", case,
                                 pl[0], fl[0], key="expr-value:" + re.sub(r"[^a-z/%*<>=&|^+\-]", "", src)[:12])
            else:
                bstat["outside_guard_run"] += 1
            pysem_cases.append((src, py_env(env_of(*ab))))
    dist["firmware"] = bstat
    dist["layout_noise"] = dict(nz.stats)

    # ---------------- expressions the model says do not compile: g++ must agree (a few, one sketch each)
    stuck = [it for it in items if it[3]["tr"][0] == "ok" and it[3]["c"][0] == "stuck" and it[3]["py"][0] == "ok"]
    stuck = stuck[: (24 if thorough else 6)]
    if stuck:
        ss = [build_script([(it[2], [(0, it[0])])]) for it in stuck]
        trs = fw.transpile_many([s for s, _ in ss])
        jobs = [{"cpp": r["cpp"], "compile_only": True} for r in trs if r.get("ok")]
        comp = fw.run_sketches(jobs) if jobs else []
        j = 0
        n_agree = 0
        for it, r in zip(stuck, trs):
            if not r.get("ok"):
                continue
            if comp[j]["compiled"]:
                ctx.disagree("model: emitted expression is ill-typed (CStuck), g++ compiles it", it[:3], "does not compile", "compiles")
            else:
                n_agree += 1
            j += 1
        dist["stuck_expressions"] = {"checked": len(stuck), "gxx_rejects": n_agree}

    # ---------------- spec side: PySem vs CPython on the same expressions
    try:
        with C.BuildLock():
            okb, _ = C.coq_make(["Wire/PySemW.vo"])
            pexe = C.build_model("PySem", wire_module="PySemW") if okb else None
        if pexe:
            extra = [(s, py_env(env_of(rng.choice(A_VALUES), rng.choice(B_VALUES)))) for s in loose[: (2000 if thorough else 400)]]
            stats, bad = PS.validate_pysem(pexe, pysem_cases + extra)
            dist["pysem_vs_cpython"] = stats
            for b in bad[:5]:
                ctx.disagree("reference semantics PySem vs CPython eval", b["src"], b["model"], b["cpython"])
    except Exception as e:  # the spec-side validation is support; its failure is reported, not fatal
        dist["pysem_vs_cpython"] = {"error": f"{type(e).__name__}: {e}"}

    # ---------------- known findings: replay each listed witness on the real firmware vs CPython
    replay_findings(ctx, dist)

    n_eval = len(text_srcs) + bstat["cases_run"] + len(stuck)
    cov.update({
        "evaluations": n_eval,
        "distinct_nontrivial": len({s for s in text_srcs if any(c in s for c in "+-*/%<>=&|^( ")}) + len({(it[0], it[2]) for mm in meta for it in mm.values()}),
        "rule": "text tie: seeded pyast_wire.gen_expr expressions (all node kinds, mostly ill-typed mixes, depth 1-4) + typed expressions + a fixed list of special forms, non-trivial = contains an operator or call; behaviour/oracle: typed generator (ints a b, float f=a/4.0, bool t=a>0, str s=str(b), depth 1-4, ~8% constructs outside the guard; `+` of two const char* expressions (literal, f-string without fields, choice between such) alone, chained and next to String objects, int() of a choice between numeric literals; // and % with divisors of either sign, bool and float operands in both positions), a fixed // / % corpus (DIV_CORPUS x DIV_ENVS: every sign combination, exact and inexact division, int/bool/float operands; all of it must be inside expr_guard and is always run), environments a in A_VALUES x b in B_VALUES fed through analog_read, each (expression, environment) pair distinct; only expressions with a Python value and a model C value are put into sketches (40 per sketch, marker lines); the oracle (c) uses only those inside the extracted expr_guard whose float values are small dyadics",
        "samples": [text_srcs[0], text_srcs[len(loose)], typed[0][1], typed[1][1]] + [it[0] for it in runnable[:3]],
        "distribution": {**dist, "typed_kinds": dict(sorted(gen.kinds.items()))},
        "guard": "expr_guard (coq/Lang/ToC.v, extracted): // and % on any numeric operands (int, bool, float, any signs; Python defines the value, so the divisor is not 0), / with a float operand, ** never translated (rejected), shift counts 0..31, and/or on bool operands only, both branches of a conditional / both arguments of min/max of the same kind (int-like or float or str), str()/f-string of int or str only (no bool, no float), no literal-compare (literal + literal is inside the guard since the repair: the emitter wraps the left operand as String(...)), int(<str>) of a String object, a literal or a choice between literals, len() of ASCII text, every int result within 32 bit, names bound to scalars; harness adds: float values small dyadics (binary rounding unmodelled)",
        "unmodelled": ["list literals, subscripts, comprehensions, method calls (device getters, list methods), user function calls: to_c answers NotModelled (counted in distribution.text_tie.not_modelled)",
                       "16-bit int of AVR (fits is 32 bit, the width of the g++/mock build)", "binary rounding of float/double (exact rationals; generated floats are dyadic)",
                       "float constants whose str() is not a short positional decimal (exponent form, 0.1)", "String.toFloat, String + number, non-printable pin strings",
                       "order of evaluation of C++ operands other than left-to-right; the two arguments of the helper calls __redu_floordiv / __redu_mod are evaluated right to left by g++ (modelled so in CSem.ceval; observable only when both operands consume readings, which the proved fragment and the generators exclude)", "min/max with three or more arguments are translated and run (tie b) but outside the proved guard"],
        "trusted_base": C.COMMON_TRUSTED + ["harness/gen/optables.py (reads _BIN/_UN/_CMP/_BUILTIN_CALL_RETURN_TYPES from the imported parser module)",
                                            "harness/impl/c01_expr_impl.py (builds env/ctx as parse() does and calls the real _to_c_expr)",
                                            "harness/impl/transpile_impl.py, mock/ (Arduino core mock, String, macros), g++ 12", "harness/impl/pyrun_impl.py + CPython 3.12 (reference trace)", "harness/impl/pyeval_impl.py (CPython eval for PySem validation)"],
    })
    ctx.coverage.setdefault("units", {})[UNIT] = cov
    ctx.assumptions += ["C int is 32 bit (g++ mock build); results outside are excluded by the guard", "float arithmetic is exact (rationals); generated floats are dyadic with small denominators",
                        "C++ evaluates operands left to right (g++ -O0 behaviour)"]
    return cov


SPECIAL_TEXT = [
    "len(s)", 'len("abc")', "len(k)", "len(ks)", "int(s)", 'int("12")', "float(s)", 'int(f"1{a}")', 'int(s+"1")', "int(a+s)", 'f"{a}"',
    'f"x{a}y{s}"', 'f"abc"', 'f""', 'f"{a!r}"', 'f"{a:3}"', 'analog_read("A0")', "analog_read(3)", 'digital_read(" 7 ")',
    'analog_read(pin="A1")', "analog_read(a)", 'analog_read("x-y")', "analog_read(3, pin=4)", "analog_read()", "analog_read(foo=1)",
    "min(a)", "min(a,b,3)", "max(a,b)", "abs(-a)", "str(a)", "str()", "bool(a)", "foo(a)", "a.b", "a[0]", "[1,2]", "(1,2)",
    "a if t else b", "1e-05", "1e16", "100.0", "0.1", "2.5", "a @ b", "~a", "a is b", "a in b", "None", "-5", "a < b < 3 <= f", "not a",
    "a and b or t", '"q\\"x\\\\"', "len([1,2,3])", "len((1,2))", "len(a)", "int(t)", "float(a)", "int(f)", "int(1 if t else 2.5)",
    'int("a" if t else s)', "min(a, b, key=3)", "str(a, b)", "1_000", "0x10", "3000000000", "True", "False", "lambda: 1",
    "[i for i in range(3)]", "x.append(1)", "mon.read()", "int(-s)", "int(not s)", "float(s+s)", "int(s*2)", "int(str(a))",
    "int(len(s))", "int(abs(f))", "float(min(a,f))", "123456789.5", "0.0001220703125", "65536.0", "4.76837158203125e-07", "1.0e3",
    "digital_read(pin=a+1)", 'analog_read("A0", 3)', "pin_mode(3, 1)", "a if b else (s if t else 'x')", "+t", "-t", "a ** b",
    '"a" + "b"', '("a" if t else "b") + "c"', '"x" + ("a" if t else "b")', '"x" + "y" + "z"', '"x" + ("y" + "z")', 'f"lit" + "z"',
    '"a" + s', 's + "a"', '("a" if t else s) + "c"', '"a" - "b"', '"a" * 2', 'int("12" if t else "13")', 'float("1.5" if t else "2.5")',
    'int(f"12")', 'float("1.5")', 'int("1" if t else ("2" if a else "3"))', 'int("1" if t else s)', 'int(("1" if t else "2") + "0")',
    'len("a" + "b")', 'str("a" + "b")', '("a" + "b") == s', 'min("a", "b") + "c"',
    "max(a, b, f, 3)", "min(a, b)", "abs(a, b)", "bool()", "len()", "int(a, 2)", "float('1.5')", "str(s)", "f'{s}{s}'", "f'{f}'",
    "(a)", "((a))", "a+b*3", "a-(b-3)", "(a-b)-3", "a<b", "a<=b", "not (a<b)", "-(a+b)", "a%b", "a//b", "a/b", "a<<2", "a>>b", "a&b|3^t",
]


# ------------------------------------------------------------------ known findings
def witness_status(fs):
    """Replays the witness of each finding on the real firmware and on CPython.
    -> [(still_fails, why, replay)] ; replay = the script, the input and what both sides printed"""
    scripts = []
    for f in fs:
        w = f["witness"]
        body = HEADER + w.get("setup", "") + "".join(f'mon.write("##case {i}")\nmon.write({e})\n' for i, e in enumerate(w["exprs"])) + 'mon.write("##case end")\n'
        scripts.append((body, w.get("input", "")))
    out = []
    trs = fw.transpile_many([s for s, _ in scripts]) if scripts else []
    for f, (script, inp), tr in zip(fs, scripts, trs):
        w = f["witness"]
        still = False
        why = ""
        rep = {"finding": f["id"], "script": script, "input": inp, "witness": w}
        if not tr.get("ok"):
            why = "rejected by the transpiler now (" + str(tr.get("exc")) + ")"
            rep["transpiler"] = tr.get("exc")
        else:
            run = fw.run_sketches([{"cpp": tr["cpp"], "input": inp, "loops": 0}])[0]
            py = fw.pyrun_many([{"src": script, "input": inp, "loops": 0}])[0]
            if py.get("exc"):
                why = "CPython raises " + str(py["exc"])
            elif not run["compiled"]:
                still = True
                why = "accepted by the transpiler, C++ does not compile"
                rep["compile_log"] = (run.get("compile_log") or "")[-600:]
            else:
                fser = [e[2:] for e in run["events"] if e.startswith("S ") and not e.startswith("S ##")]
                pser = [e[2:] for e in py["events"] if e.startswith("S ") and not e.startswith("S ##")]
                rep["cpython"], rep["firmware"] = pser, fser
                mode = w.get("compare", "value")
                for i, (pe, fe) in enumerate(zip(pser, fser)):
                    same = (pe.rpartition("\t")[0] == fe) if mode == "text" else value_same("S " + pe, "S " + fe)
                    if not same:
                        still = True
                        why = f"CPython {pe.rpartition(chr(9))[0]!r} vs firmware {fe!r} for {w['exprs'][i]}"
                        break
                if len(pser) != len(fser):
                    still = True
                    why = why or "different number of serial lines"
        out.append((still, why, rep))
    return out


def replay_findings(ctx, dist):
    """Every listed witness is replayed on the real firmware and on CPython; KNOWN-FINDING iff they still differ."""
    fs = my_findings(ctx)
    rep = {}
    for f, (still, why, _) in zip(fs, witness_status(fs)):
        rep[f["id"]] = {"still_fails": still, "detail": why}
        if still:
            ctx.known(f"{f['id']}: {f['what']} [{why}]")
    dist["known_findings"] = rep


def fixed_findings(ctx):
    own = []
    p = C.VERIF / "known_findings.d" / "C01_expr.json"
    if p.exists():
        own = json.loads(p.read_text())
    fs = {f["id"]: f for f in own if f.get("kind") == "fixed" and "exprs" in f.get("witness", {})}
    for f in ctx.findings:
        if f.get("kind") == "fixed" and f.get("id") in MY_FINDINGS and "exprs" in f.get("witness", {}):
            fs[f["id"]] = f
    return list(fs.values())


def replay_fixed(ctx):
    """repaired defects (kind "fixed") suppress nothing: their witnesses are replayed FIRST, and one that fails again is a
    VIOLATION whose replay is the witness (script, input, what CPython and the firmware printed)"""
    fs = fixed_findings(ctx)
    for f, (still, why, rep) in zip(fs, witness_status(fs)):
        if still:
            ctx.fail(f"repaired defect {f['id']} is back: {f['what']} [{why}]", rep,
                     rep.get("cpython") or "firmware value = CPython value (or a clean rejection)",
                     rep.get("firmware") or why, key="fixed-defect-returned:" + f["id"])
    ctx.c01_expr_fixed = [f["id"] for f in fs]
    return len(fs)
