"""C01, statement layer: firmware trace (real parse+emit, g++, mock core) = CPython trace
for generated programs of the core subset, plus the Lang/Stmt model correspondence."""
from __future__ import annotations

import collections

from harness import common as C
from harness import fw, progen, tracecmp
from harness import stmt_wire as SW

META_PART = "statement layer: Coq model of declaration/assignment/control-flow translation (Lang/Stmt*.v) with a simulation theorem; tie = IR of the real parser vs model on generated programs; oracle = firmware trace vs CPython trace"

FEATURE_SETS = [(), ("float",), ("funcs",), ("tuple",), ("float", "funcs", "tuple"), ("branch_first",)]

WITNESSES = {
    "F-C01-continue-dropped": {
        "src": progen.HEADER + "for i in range(4):\n    if i == 2:\n        continue\n    mon.write(i)\n", "loops": 0},
    "F-C01-range-bound-reeval": {
        "src": progen.HEADER + "n = 3\nfor i in range(n):\n    n = n - 1\n    mon.write(i)\n", "loops": 0},
}


def gen_inputs(rng):
    return "ar 14 %s\nar 15 %s\ndr 4 %s\n" % (
        " ".join(str(rng.choice([0, 5, 300, 1023, 512])) for _ in range(6)),
        " ".join(str(rng.choice([1, 2, 700])) for _ in range(4)),
        " ".join(str(rng.choice([0, 1])) for _ in range(5)))


def run_pair(srcs, inputs, loops):
    """-> list of dict(status, diff, fw, py) for each (src, input, loops)"""
    tr = fw.transpile_many(srcs)
    py = fw.pyrun_many([{"src": s, "input": i, "loops": l} for s, i, l in zip(srcs, inputs, loops)])
    jobs, idx = [], []
    for k, (t, i, l) in enumerate(zip(tr, inputs, loops)):
        if t["ok"]:
            jobs.append({"cpp": t["cpp"], "input": i, "loops": l})
            idx.append(k)
    res = dict(zip(idx, fw.run_sketches(jobs)))
    out = []
    for k, (t, y) in enumerate(zip(tr, py)):
        if not t["ok"]:
            out.append({"status": "rejected", "exc": t["exc"], "msg": t.get("msg")})
            continue
        r = res[k]
        if y["exc"]:
            out.append({"status": "py-undefined", "exc": y["exc"]})
            continue
        if not r["compiled"]:
            out.append({"status": "nocompile", "log": r["compile_log"][-800:]})
            continue
        if r["rc"] != 0:
            out.append({"status": "fw-crash", "rc": r["rc"], "stderr": r["stderr"][-400:]})
            continue
        d = tracecmp.compare(r["events"], y["events"])
        out.append({"status": "equal" if d is None else "DIFF", "diff": d,
                    "fw": tracecmp.fw_events(r["events"])[:60], "py": tracecmp.py_events(y["events"])[:60]})
    return out


def ir_correspondence(ctx, progs):
    """Lang.Transl.transl (extracted) vs the IR of the real parse() on the same programs."""
    exe = ctx.exes.get("C01_stmt")
    if exe is None:
        return {"ir_cases": 0}
    cases = []
    for p in progs:
        if p.get("funcs"):
            continue                      # helper functions are outside the statement model
        an = SW.Annotator()
        pre = an.stmts(p["pre"])
        main = an.stmts(p["main"]) if p["main"] is not None else None
        if an.ok:
            cases.append((p, an, pre, main))
    if not cases:
        return {"ir_cases": 0}
    impl = C.run_impl("c01_stmt_impl.py", {"cases": [{"src": progen.render(p), "exprs": an.exprs} for p, an, _, _ in cases]})
    meta = impl
    wires = [[SW.wire_stmts(pre, r["consts"]), [] if main is None else [SW.wire_stmts(main, r["consts"])]]
             for (p, an, pre, main), r in zip(cases, impl["results"])]
    outs = C.run_model(exe, wires)
    st = collections.Counter()
    for (p, an, pre, main), r, o in zip(cases, impl["results"], outs):
        src = progen.render(p)[len(progen.HEADER):]
        if "reject" in r["ir"]:
            st["impl-reject"] += 1
            if o != [1]:
                ctx.disagree("transl: real parser rejects, model accepts", src, "accepted", r["ir"])
            continue
        if o == [1] or o == [2]:
            st["model-reject"] += 1
            ctx.disagree("transl: model rejects/undecodable, real parser accepts", src, o, "accepted")
            continue
        ct = r["ctexts"]
        try:
            mg = [[SW._txt(g[0]), meta["cpp"][SW.TYN[g[1]]], SW.render_cexpr(g[2], ct, meta)] for g in o[1]]
            ms = SW.canon_promoted(SW.model_shape(o[2], ct, meta, an.exprs))
            ml = SW.canon_promoted(SW.model_shape(o[3], ct, meta, an.exprs))
        except Exception as e:  # noqa
            ctx.disagree(f"transl: cannot render model IR ({type(e).__name__})", src, None, None)
            continue
        ig, is_, il = r["ir"]["globals"], SW.canon_promoted(r["ir"]["setup"]), SW.canon_promoted(r["ir"]["loop"])
        if sorted(mg) != sorted(ig) or ms != is_ or ml != il:
            st["DIFF"] += 1
            first = next(((a, b) for a, b in zip(ms + ml, is_ + il) if a != b), None)
            ctx.disagree("transl: IR of the model differs from the IR of the real parser", src,
                         {"globals": mg, "first_differing_node": first and first[0]},
                         {"globals": ig, "first_differing_node": first and first[1]})
        else:
            st["equal"] += 1
    return {"ir_cases": len(cases), "ir_status": dict(st)}


def run_unit(ctx: C.Ctx):
    rng = ctx.rng
    thorough = ctx.tier == "thorough"
    n = 900 if thorough else 120
    progs, feats = [], []
    for i in range(n):
        f = FEATURE_SETS[i % len(FEATURE_SETS)]
        g = progen.Gen(rng, f)
        p = g.program(with_main=rng.random() < 0.8)
        p["input"] = gen_inputs(rng)
        progs.append(p)
        feats.append(f)
    srcs = [progen.render(p) for p in progs]
    loops = [(rng.choice([0, 1, 2, 3]) if p["main"] is not None else 0) for p in progs]
    res = run_pair(srcs, [p["input"] for p in progs], loops)
    stats = collections.Counter()
    for s, p, f, l, r in zip(srcs, progs, feats, loops, res):
        stats[r["status"]] += 1
        body = s[len(progen.HEADER):]
        if r["status"] == "DIFF":
            ctx.fail("firmware trace differs from CPython trace", {"script": s, "input": p["input"], "loops": l, "features": list(f)},
                     r["py"], {"first_difference": r["diff"], "firmware": r["fw"]}, key="trace-diff")
        elif r["status"] == "nocompile":
            ctx.fail("accepted script does not compile", {"script": s, "features": list(f)}, "compilable C++", r["log"], key="nocompile")
        elif r["status"] == "fw-crash":
            ctx.fail("firmware crashed", {"script": s, "input": p["input"], "loops": l}, "rc 0", r, key="fw-crash")
        elif r["status"] == "rejected" and r["exc"] != "ValueError":
            ctx.fail(f"transpiler raised {r['exc']} (not ValueError)", {"script": s}, "ValueError or success", r, key="reject-kind")
    # known findings: replay witnesses
    listed = {f["id"]: f for f in ctx.findings if f.get("kind") != "fixed" and f["id"] in WITNESSES}
    if listed:
        ids = list(listed)
        wres = run_pair([WITNESSES[i]["src"] for i in ids], ["" for _ in ids], [WITNESSES[i]["loops"] for i in ids])
        for i, r in zip(ids, wres):
            if r["status"] in ("DIFF", "nocompile"):
                ctx.known(f"{i}: {listed[i]['what']}")
    ir = ir_correspondence(ctx, progs)
    return {
        "evaluations": n + ir["ir_cases"], "programs_by_status": dict(stats), "ir_correspondence": ir,
        "distinct_nontrivial": len({s for s, r in zip(srcs, res) if r["status"] == "equal" and len(r["py"]) >= 3}),
        "samples": [srcs[0][len(progen.HEADER):], srcs[-1][len(progen.HEADER):]],
        "rule": "seeded programs from harness/progen.py over 6 feature sets (core ints; +floats; +helper functions; +tuple/swap; all; first assignment inside branches), N in 0..3 loop passes, scripted analog/digital inputs; non-trivial = both sides ran and the common trace has >= 3 events",
    }
