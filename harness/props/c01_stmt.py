"""C01, statement layer: firmware trace (real parse+emit, g++, mock core) = CPython trace
for generated programs of the core subset, plus the Lang/Stmt model correspondence."""
from __future__ import annotations

import ast
import collections
import random
import re
from fractions import Fraction

from harness import common as C
from harness import fw, progen, tracecmp
from harness import c01_helpers as H
from harness import pyast_wire as PW
from harness import stmt_wire as SW

META_PART = "statement layer: Coq model of declaration/assignment/control-flow translation (Lang/Stmt*.v) with a simulation theorem; tie = IR of the real parser vs model on generated programs; oracle = firmware trace vs CPython trace"

FEATURE_SETS = [(), ("float",), ("funcs",), ("tuple",), ("float", "funcs", "tuple"), ("branch_first",),
                # first assignments inside blocks and inside the main loop (sketch globals since the repair of
                # F-C01-loop-local-reinit / F-C01-hoisted-decl-reinit: the region their guards used to exclude)
                ("branch_first", "continue"), ("branch_first", "tuple"),
                # `continue` (repaired defect F-C01-continue-dropped): inside the Coq statement fragment (PContinue / NContinue /
                # NReturn): these programs go through the IR and execution correspondences and the trace oracle
                ("continue",), ("continue", "float", "funcs", "tuple"),
                # // and % on signed operands and the augmented forms //= and %= (repaired defects F-C01-floordiv, F-C01-mod-sign:
                # the region their guard used to exclude); expressions are opaque in the Coq statement model (shared Python
                # semantics on both sides), so these programs are judged by the firmware-vs-CPython trace oracle and by the
                # model-C-trace = firmware-trace correspondence
                ("div",), ("div", "float", "funcs", "tuple"),
                # `pass`: do-nothing arms of if / elif / else chains that have a later arm (an arm that disappears, or whose
                # condition is no longer tested, changes which arm runs) and `pass` between the statements of a block
                ("pass",), ("pass", "continue", "tuple", "float")]

WITNESSES = {
    "F-C01-continue-dropped": {
        "src": progen.HEADER + "for i in range(4):\n    if i == 2:\n        continue\n    mon.write(i)\n", "loops": 0},
    "F-C01-range-bound-reeval": {
        "src": progen.HEADER + "n = 3\nfor i in range(n):\n    n = n - 1\n    mon.write(i)\n", "loops": 0},
    "F-C01-loop-var-assigned": {
        "src": progen.HEADER + "for i in range(4):\n    mon.write(i)\n    i = i + 2\n    mon.write(i)\n", "loops": 0},
    "F-C01-retype-truncates": {
        "src": progen.HEADER + "x = 1\nx = 2.5\nmon.write(x)\n", "loops": 0},
    "F-C01-hoisted-decl-reinit": {
        "src": progen.HEADER + "w = 0\nwhile w < 2:\n    for k in range(1 - w):\n        z = 5\n    w = w + 1\nmon.write(z)\n", "loops": 0},
    "F-C01-loop-local-reinit": {
        "src": progen.HEADER + "w = 0\nwhile True:\n    if w == 0:\n        z = 5\n    w = w + 1\n    mon.write(z)\n", "loops": 2},
}


WITNESSES.update(H.WITNESSES)

BOUND_FEATURE_SETS = [("bound_var",), ("bound_var", "funcs"), ("bound_var", "continue", "tuple"), ("bound_var", "branch_first"),
                      ("bound_var", "float", "funcs", "div"), ("bound_var", "pass")]
HELPER_FEATURES = [("tuple",), ("tuple", "float"), ("tuple", "div"), ("tuple", "continue"), ("tuple", "pass")]
LABELS = ("int", "float", "bool", "String")


def has_main(src):
    """the script has a column-0 `while True:` header (a comment that merely mentions one does not count)"""
    return re.search(r"^while\s+True\s*:", src, re.M) is not None


def merge_correspondence(ctx):
    """Lang.FnRet.merge_ret (extracted) vs the real _merge_return_types on EVERY label list of length <= 5 over the
    four scalar labels, with and without the has_void flag (2730 cases)."""
    exe = ctx.exes.get("C01_stmt")
    if exe is None:
        return {"merge_cases": 0}
    import itertools
    cases = [(list(ls), hv) for n in range(6) for ls in itertools.product(LABELS, repeat=n) for hv in (False, True)]
    impl = C.run_impl("c01_fn_impl.py", {"merge": [[ls, hv] for ls, hv in cases]})
    outs = C.run_model(exe, [[2, [SW.TY["str" if l == "String" else l] for l in ls], hv] for ls, hv in cases])
    st = collections.Counter()
    for (ls, hv), r, o in zip(cases, impl["merge"], outs):
        m = {"ty": SW.TYN[o[1]]} if (isinstance(o, list) and o and o[0] == 0) else {"void": True} if o == [1] else {"reject": "ValueError"} if o == [2] else {"undecodable": o}
        st["void" if "void" in r else "reject" if "reject" in r else r.get("ty")] += 1
        if m != r:
            ctx.disagree("fn-ret: _merge_return_types differs from Lang.FnRet.merge_ret", {"labels": ls, "has_void": hv}, m, r)
    return {"merge_cases": len(cases), "merge_results": dict(st)}


def model_merge(ctx, labels, has_void):
    exe = ctx.exes.get("C01_stmt")
    o = C.run_model(exe, [[2, [SW.TY["str" if l == "String" else l] for l in labels], bool(has_void)]])[0]
    return SW.TYN[o[1]] if (isinstance(o, list) and o and o[0] == 0) else "void" if o == [1] else None


def helper_unit(ctx, thorough):
    """helper functions: (1) return-type merge model vs real function, exhaustively; (2) generated + hand-written helper
    programs: firmware trace vs CPython trace (oracle); (3) for every helper the parser builds: number of labels handed to
    _merge_return_types = number of `return e` statements of the generated body, emitted return type = cpp(merge_ret labels)."""
    rng = ctx.rng
    out = merge_correspondence(ctx)
    progs, srcs = [], []
    nrng = random.Random(rng.getrandbits(64))          # layout noise has its own stream (derived from the seed)
    nstats = collections.Counter()
    for b in H.CORPUS:
        progs.append(None)
        srcs.append(progen.HEADER + b)
    for b in H.CORPUS:                                  # every hand-written helper script again with layout noise
        nz = progen.Noise(nrng)
        t = progen.noisy_text(b, nz)
        if t != b:
            progs.append(None)
            srcs.append(progen.HEADER + t)
            nstats.update(nz.stats)
            nstats["noisy-programs"] += 1
    n_corpus = len(srcs)
    n = 420 if thorough else 44
    gstats = collections.Counter()
    sites = collections.Counter()
    for i in range(n):
        g = H.HGen(rng, HELPER_FEATURES[i % len(HELPER_FEATURES)])
        p = g.program(with_main=rng.random() < 0.8)
        p["input"] = gen_inputs(rng)
        progs.append(p)
        if (i // len(HELPER_FEATURES)) % 2 == 1:
            nz = progen.Noise(nrng, wide=nstats["noisy-programs"] % 2 == 1)
            srcs.append(progen.render(p, noise=nz))
            nstats.update(nz.stats)
            nstats["noisy-programs"] += 1
        else:
            srcs.append(progen.render(p))
        for k in ("kinds", "fx", "shapes"):
            for a, b in p["stats"][k].items():
                gstats[f"{k}:{a}"] += b
        gstats["helpers"] += p["stats"]["helpers"]
        gstats["return-statements"] += p["stats"]["returns"]
        sites.update(p["stats"]["sites"])
    inputs = [p["input"] if p else "ar 14 300\nar 15 2\ndr 4 1\n" for p in progs]
    loops = [(rng.choice([1, 2, 3]) if (p["main"] is not None if p else has_main(s)) else 0) for s, p in zip(srcs, progs)]
    res = run_pair(srcs, inputs, loops)
    stats = collections.Counter()
    for s, p, i, l, r in zip(srcs, progs, inputs, loops, res):
        if r["status"] in ("DIFF", "equal") and leaves_int32(s, i, l):
            r["status"] = "outside-guard:int32/float32-range"
        stats[r["status"]] += 1
        case = {"script": s, "input": i, "loops": l, "features": ["helpers"] + ([] if p else ["corpus"]),
                "helpers": p["helpers"] if p else None}
        if r["status"] == "DIFF":
            ctx.fail("firmware trace differs from CPython trace (helper functions)", case, r["py"],
                     {"first_difference": r["diff"], "firmware": r["fw"]}, key="helper-trace-diff")
        elif r["status"] == "nocompile":
            ctx.fail("accepted script with helper functions does not compile", case, "compilable C++", r["log"], key="helper-nocompile")
        elif r["status"] == "fw-crash":
            ctx.fail("firmware crashed (helper functions)", case, "rc 0", r, key="helper-fw-crash")
        elif r["status"] == "rejected" and r["exc"] != "ValueError":      # a ValueError is the "reject" half of reject-or-preserve
            ctx.fail(f"transpiler raised {r['exc']} (not ValueError)", case, "ValueError or success", r, key="helper-reject-kind")
    # (3) return types of the helpers the parser built
    fst = collections.Counter()
    if ctx.exes.get("C01_stmt") is not None:
        gen = [(s, p) for s, p in zip(srcs, progs) if p is not None]
        impl = C.run_impl("c01_fn_impl.py", {"scripts": [s for s, _ in gen]})
        want = []
        for (s, p), r in zip(gen, impl["scripts"]):
            if not r["ok"]:
                fst["rejected"] += 1
                continue
            nret = {f[0]: H.count_value_returns(f[2]) for f in p["funcs"]}
            for ps in r["parses"]:
                m = ps["merge"]
                case = {"script": s, "helper": ps["name"]}
                if m is None or ps["merges"] != 1:
                    ctx.disagree("fn-ret: _parse_function did not call _merge_return_types exactly once", case, 1, ps["merges"])
                    continue
                if len(m["labels"]) != nret.get(ps["name"], -1):
                    ctx.disagree("fn-ret: labels handed to _merge_return_types != `return e` statements of the helper", case, nret.get(ps["name"]), m["labels"])
                    continue
                want.append((case, m, ps))
        outs = C.run_model(ctx.exes["C01_stmt"], [[2, [SW.TY["str" if l == "String" else l] for l in m["labels"]], bool(m["has_void"])] for _, m, _ in want])
        for (case, m, ps), o in zip(want, outs):
            mt = SW.TYN[o[1]] if (isinstance(o, list) and o and o[0] == 0) else "void" if o == [1] else None
            fst[f"{'+'.join(sorted(set(m['labels']))) or 'none'}->{ps['return_type']}"] += 1
            if mt is None or impl["cpp"].get(mt) != ps["return_type"]:
                ctx.disagree("fn-ret: emitted return type of a helper differs from Lang.FnRet.ret_type of its return statements", case,
                             {"labels": m["labels"], "model": mt}, ps["return_type"])
    out.update({"helper_programs": len(srcs), "helper_programs_by_status": dict(stats), "generated": dict(gstats), "call_sites": dict(sites),
                "helper_return_types": dict(fst), "loop_passes": dict(collections.Counter(loops)),
                "nontrivial": len({s for s, r in zip(srcs, res) if r["status"] == "equal" and len(r["py"]) >= 3}),
                "layout_noise": dict(nstats),
                "samples": [srcs[n_corpus][len(progen.HEADER):]] if len(srcs) > n_corpus else []})
    return out


# hand-written boundary programs (run first, every tier): the break guard of the main loop,
# break inside nested loops, an empty range, elif chains, a loop variable shadowing a later global
CORPUS = [
    {"pre": [("assign", "n0", "2"), ("assign", "i0", "0")],
     "main": [("assign", "i0", "(i0 + 1)"), ("if", [("(i0 > 2)", [("break",)])], []), ("write", "i0")]},
    {"pre": [("assign", "i0", "0")], "main": [("break",), ("write", "i0")]},
    {"pre": [("assign", "i0", "0"), ("break",), ("write", "i0")], "main": None},
    {"pre": [("assign", "i0", "0"), ("if", [("(i0 == 0)", [("break",)])], [])], "main": [("write", "i0")]},
    {"pre": [("assign", "i0", "0")],
     "main": [("for", "k0", "4", [("if", [("(k0 == 2)", [("break",)])], []), ("write", "(k0 + i0)")]),
              ("assign", "i0", "(i0 + 10)")]},
    {"pre": [("assign", "i0", "5"), ("assign", "w0", "0"),
             ("while", "(w0 < 3)", [("for", "k0", "w0", [("write", "(k0 * 10 + w0)")]),
                                    ("if", [("(w0 == 1)", [("aug", "i0", "-", "3")]), ("(w0 == 2)", [("aug", "i0", "*", "i0")])], [("write", '"else"')]),
                                    ("assign", "w0", "(w0 + 1)")]),
             ("write", "i0")], "main": None},
    {"pre": [("assign", "i0", "1"), ("for", "k0", "0", [("write", "k0")]), ("for", "k0", "3", [("aug", "i0", "-", "k0")]),
             ("assign", "k0", "7"), ("write", "(k0 + i0)")], "main": [("aug", "k0", "-", "2"), ("write", "k0"), ("sleep", "k0")]},
    {"pre": [("assign", "i0", "3"), ("assign", "i1", "(i0 + 1)"), ("assign", "i0", "(i1 * 2)")],
     "main": [("if", [("(i0 > 10)", [("assign", "i0", "(i0 - 7)")]), ("(i0 > 5)", [("assign", "i0", "(i0 - 1)")]), ("(i0 > 2)", [("write", '"mid"')])],
               [("assign", "i0", "20")]), ("write", "i0")]},
    # tuple declarations of all-new globals whose right-hand sides read re-assigned / accumulated variables
    {"pre": [("assign", "i0", "40"), ("assign", "i0", "(i0 + 15)"), ("tuple", ["i1", "i2"], ["(i0 - 5)", "(i0 + 5)"]),
             ("write", "i1"), ("write", "i2"), ("assign", "i3", "0"), ("for", "k0", "5", [("assign", "i3", "(i3 + k0)")]),
             ("tuple", ["i4", "i5"], ["(i3 - 5)", "(i3 * 2)"]), ("write", "(i4 + i5)")],
     "main": [("assign", "i0", "(i0 + 1)"), ("if", [("(i1 < i0 < i2)", [("write", "i2")])], [("write", "i4")])]},
    # `continue` (repaired; inside the model): the former witness; for-range (the C loop still advances its variable); while (the
    # condition is re-tested); under nested ifs; in an else arm; in the inner of two loops; in the body of the main loop,
    # directly under an if, under nested ifs and inside a for loop of the main loop (there it continues the for loop only)
    {"pre": [("for", "k0", "4", [("if", [("(k0 == 2)", [("continue",)])], []), ("write", "k0")])], "main": None},
    {"pre": [("assign", "i0", "0"), ("for", "k0", "5", [("if", [("(k0 % 2 == 0)", [("continue",)])], []), ("assign", "i0", "(i0 + k0)"), ("write", "i0")]),
             ("write", "i0")], "main": None},
    {"pre": [("assign", "w0", "0"), ("assign", "i0", "0"),
             ("while", "(w0 < 6)", [("assign", "w0", "(w0 + 1)"), ("if", [("(w0 == 2)", [("write", '"skip"'), ("continue",)])], []),
                                    ("if", [("(w0 > 3)", [("if", [("(w0 != 5)", [("continue",)])], [("write", '"five"')])])], []),
                                    ("assign", "i0", "(i0 + w0)"), ("write", "i0")]),
             ("write", "(i0 * 100 + w0)")], "main": None},
    {"pre": [("assign", "i0", "0"),
             ("for", "k0", "3", [("for", "k1", "3", [("if", [("(k1 == k0)", [("write", "k0")])], [("continue",)]), ("write", "(k0 * 10 + k1)")]),
                                 ("if", [("(k0 == 1)", [("continue",)])], []), ("assign", "i0", "(i0 + 1)"), ("write", "(i0 + 1000)")])], "main": None},
    {"pre": [("assign", "i0", "0")],
     "main": [("assign", "i0", "(i0 + 1)"), ("if", [("(i0 % 2 == 0)", [("write", '"even"'), ("continue",)])], []), ("write", "i0"), ("sleep", "10")]},
    {"pre": [("assign", "i0", "0"), ("assign", "i1", "0")],
     "main": [("assign", "i0", "(i0 + 1)"),
              ("for", "k0", "3", [("if", [("(k0 == 1)", [("continue",)])], []), ("write", "(i0 * 10 + k0)")]),
              ("if", [("(i0 > 1)", [("if", [("(i0 < 4)", [("continue",)])], [("write", '"late"')])])], [("write", '"first"')]),
              ("assign", "i1", "(i1 + 1)"), ("write", "(i1 + 500)")]},
    {"pre": [("assign", "i0", "0")], "main": [("assign", "i0", "(i0 + 1)"), ("write", "i0"), ("continue",), ("write", '"never"')]},
    # misplaced `continue`: rejected (ValueError), like a misplaced break
    {"pre": [("assign", "i0", "0"), ("if", [("(i0 == 0)", [("continue",)])], [])], "main": [("write", "i0")]},
    {"pre": [("assign", "i0", "0"), ("continue",), ("write", "i0")], "main": None},
    # tuple assignment to declared names through temporaries: float swap, rotation of three, Fibonacci step in a for
    # body, swaps in the main loop at body level and inside both arms of an if
    {"pre": [("assign", "f0", "1.5"), ("assign", "f1", "2.25"), ("swap", "f0", "f1"), ("write", "f0"), ("write", "f1"),
             ("assign", "i0", "1"), ("assign", "i1", "2"), ("assign", "i2", "3"), ("tuple", ["i0", "i1", "i2"], ["i1", "i2", "i0"]),
             ("write", "(i0 * 100 + i1 * 10 + i2)"),
             ("for", "k0", "3", [("tuple", ["i0", "i1"], ["i1", "(i0 + i1)"]), ("write", "i0")])],
     "main": [("swap", "f0", "f1"), ("write", "f0"),
              ("if", [("(i0 > i1)", [("swap", "i0", "i1")])], [("tuple", ["i1", "i2"], ["i2", "i1"])]),
              ("write", "(i0 * 100 + i1 * 10 + i2)")]},
    # first assignment inside a loop / a branch, read afterwards (promotion)
    {"pre": [("assign", "i0", "2"), ("for", "k0", "3", [("assign", "i5", "(k0 + i0)")]), ("write", "i5"),
             ("assign", "w0", "0"), ("while", "(w0 < 2)", [("assign", "i6", "(w0 * 5)"), ("assign", "w0", "(w0 + 1)")]), ("write", "i6")],
     "main": [("if", [("(i0 > 1)", [("assign", "i7", "5")])], [("assign", "i7", "7")]), ("write", "(i7 + i5)"), ("assign", "i0", "(i0 - 1)")]},
    # names FIRST assigned inside `while True:` persist between passes (repaired: F-C01-loop-local-reinit): bound under an
    # `if` in the first pass only and accumulated afterwards; bound at body level and read at the head of the NEXT pass;
    # bound behind two header lines (if > for, for > if, while > if); bound by a tuple assignment at body level
    {"pre": [("assign", "i0", "0")],
     "main": [("if", [("(i0 == 0)", [("assign", "i5", "5")])], []), ("assign", "i5", "(i5 + 2)"), ("assign", "i0", "(i0 + 1)"), ("write", "i5")]},
    {"pre": [("assign", "i0", "0")],
     "main": [("if", [("(i0 > 0)", [("write", "(i6 + 100)")])], []), ("assign", "i6", "(i0 * 3)"), ("assign", "i0", "(i0 + 1)")]},
    {"pre": [("assign", "i0", "0"), ("assign", "w0", "0")],
     "main": [("if", [("(i0 == 0)", [("for", "k0", "2", [("assign", "i5", "(k0 + 7)")])])], []),
              ("for", "k1", "2", [("if", [("(i0 == 0)", [("assign", "i6", "(k1 + 1)")])], [])]),
              ("assign", "w0", "0"),
              ("while", "(w0 < 1)", [("if", [("(i0 == 0)", [("assign", "i7", "9")])], []), ("assign", "w0", "(w0 + 1)")]),
              ("assign", "i0", "(i0 + 1)"), ("write", "(i5 * 100 + i6 * 10 + i7)"), ("assign", "i7", "(i7 - 1)")]},
    {"pre": [("assign", "i0", "0")],
     "main": [("if", [("(i0 > 0)", [("write", "(i5 * 10 + i6)")])], []), ("tuple", ["i5", "i6"], ["(i0 + 1)", "(i0 * 2)"]), ("assign", "i0", "(i0 + 1)")]},
    # a name hoisted out of a loop nested in another loop of the prologue keeps its value (repaired: F-C01-hoisted-decl-reinit),
    # also through if > for and with the outer construct running again
    {"pre": [("assign", "w0", "0"), ("while", "(w0 < 2)", [("for", "k0", "(1 - w0)", [("assign", "i5", "5")]), ("assign", "w0", "(w0 + 1)"), ("write", "i5")]),
             ("for", "k1", "2", [("if", [("(k1 < 2)", [("for", "k2", "(1 - k1)", [("assign", "i6", "(k2 + 8)")])])], []), ("write", "i6")])],
     "main": [("assign", "i5", "(i5 + i6)"), ("write", "i5")]},
]


# programs that are only run under layout noise: blocks of every kind whose condition is FALSE / whose loop count is not 1 in
# some pass, each with several statements (a statement that leaves its block - because a comment-only or blank line was taken
# for the end of the block - runs unconditionally / a different number of times and changes the trace), else / elif arms
# behind such blocks (a chain cut short loses its else), nesting three deep, and the same inside the main loop
LAYOUT_CORPUS = [
    {"pre": [("assign", "i0", "2"), ("if", [("(i0 > 5)", [("write", '"then"'), ("assign", "i0", "5"), ("write", "i0")])], []), ("write", "i0"),
             ("if", [("(i0 > 5)", [("write", '"a"'), ("write", '"b"')]), ("(i0 > 3)", [("write", '"c"'), ("write", '"d"')])],
              [("write", '"e"'), ("assign", "i0", "(i0 + 1)"), ("write", "i0")]),
             ("for", "k0", "0", [("write", '"never"'), ("write", "k0"), ("assign", "i0", "99")]),
             ("for", "k1", "3", [("write", "k1"), ("assign", "i0", "(i0 + k1)"), ("write", "i0")]),
             ("assign", "w0", "5"), ("while", "(w0 < 3)", [("write", '"w"'), ("assign", "w0", "(w0 + 1)"), ("write", "w0")]), ("write", "(i0 + w0)")],
     "main": None},
    {"pre": [("assign", "i0", "0"), ("assign", "i1", "0")],
     "main": [("assign", "i0", "(i0 + 1)"),
              ("if", [("(i0 % 3 == 0)", [("write", '"fizz"'), ("sleep", "20"), ("assign", "i1", "10"), ("write", "i1")])],
               [("write", "i0"), ("assign", "i1", "(i1 + 1)"), ("write", "i1")]),
              ("for", "k0", "(i0 % 2)", [("write", "(k0 + 100)"), ("if", [("(i1 > 10)", [("write", '"big"'), ("assign", "i1", "0"), ("write", "i1")])], []), ("write", '"k"')]),
              ("write", "(i0 * 100 + i1)")]},
    {"pre": [("assign", "i0", "1"), ("assign", "w0", "0"),
             ("while", "(w0 < 2)", [("assign", "w0", "(w0 + 1)"),
                                    ("if", [("(w0 == 5)", [("for", "k0", "2", [("write", "k0"), ("write", '"x"')]), ("write", '"five"'), ("assign", "i0", "50")])],
                                     [("for", "k1", "w0", [("if", [("(k1 == 7)", [("write", '"seven"'), ("assign", "i0", "70"), ("write", "i0")])], []),
                                                           ("write", "(k1 + i0)"), ("assign", "i0", "(i0 * 2)")]), ("write", "i0")]),
                                    ("write", "w0")]),
             ("write", "(i0 + w0)")],
     "main": [("if", [("(i0 > 1000)", [("write", '"huge"'), ("assign", "i0", "0"), ("sleep", "5")])], []), ("assign", "i0", "(i0 + 1)"), ("write", "i0")]},
]


# for-range loops whose bound is a BARE variable with a value known when the line is parsed and another one when the loop
# runs (CPython reads the variable each time the for statement is executed): re-assigned between passes of the main loop
# (plain and augmented), inside an enclosing while loop of the setup part, in an if branch before the loop, from a sensor read,
# shrinking, through a copy, as a parameter of a helper (also spelled like a module-level constant); the same variable bare
# as a sleep argument and in a condition.  Run first of the 'bound_var' group, every tier, plain and under layout noise.
BOUND_CORPUS = [
    {"pre": [("assign", "m0", "1")],
     "main": [("for", "k0", "m0", [("write", "k0")]), ("write", '"--"'), ("sleep", "(10 * m0)"), ("assign", "m0", "(m0 + 1)")], "loops": 4},
    {"pre": [("assign", "m0", "2"), ("assign", "w0", "0"),
             ("while", "(w0 < 3)", [("assign", "i0", "0"), ("for", "k0", "m0", [("aug", "i0", "+", "(k0 + 1)")]),
                                    ("write", 'f"{w0}:{m0}:{i0}"'), ("assign", "m0", "(m0 + 2)"), ("aug", "w0", "+", "1")])], "main": None},
    {"pre": [("assign", "i0", "7"), ("assign", "m0", "2"), ("if", [("(i0 > 5)", [("assign", "m0", "4")])], []),
             ("for", "k0", "m0", [("write", "(k0 * i0)")]), ("write", '"done"')], "main": None},
    {"pre": [("assign", "m0", "3"), ("read", "m0", "digital", "4"), ("for", "k0", "m0", [("write", "(k0 + 50)")]),
             ("assign", "m1", "2"), ("read", "m1", "analog", '"A1"'), ("assign", "m1", "(m1 % 4)")],
     "main": [("for", "k0", "m1", [("write", "(k0 * 10 + m1)")]), ("read", "m1", "analog", '"A1"'), ("assign", "m1", "(m1 % 3)"),
              ("if", [("(m1 >= 0)", [("sleep", "m1")])], [])],
     "input": "ar 14 300\nar 15 7 2 5 1 700\ndr 4 1 0\n", "loops": 3},
    {"pre": [("assign", "m0", "4"), ("assign", "m1", "1")],
     "main": [("for", "k0", "m0", [("write", "(m0 - k0)"), ("for", "k1", "m1", [("write", "(k0 * 10 + k1)")])]),
              ("aug", "m0", "-", "1"), ("aug", "m1", "+", "1"), ("if", [("(m0 < 2)", [("assign", "m0", "3")])], []),
              ("if", [("(m0 >= 0)", [("aw", "5", "m0")])], [])], "loops": 4},
    {"pre": [("assign", "m0", "2"), ("assign", "m1", "0"), ("for", "k0", "m1", [("write", '"never"')]), ("assign", "m1", "m0"),
             ("assign", "m0", "(m0 - 3)"), ("for", "k0", "m1", [("write", "(k0 + m0)")]), ("for", "k1", "m0", [("write", '"negative"')]), ("write", "m0")],
     "main": [("for", "k0", "3", [("assign", "m1", "((m1 + 1) % 4)"), ("for", "k1", "m1", [("write", "(k0 * 100 + k1)")])])], "loops": 2},
    {"funcs": [("fn0", ["m0", "p1"], [("for", "k0", "m0", [("write", "(k0 * 10 + p1)")]), ("assign", "m0", "(m0 + 1)"), ("for", "k1", "m0", [("write", '"x"')])], "(m0 + p1)"),
               ("fn1", ["p0"], [("assign", "i9", "0"), ("for", "k0", "p0", [("aug", "i9", "+", "k0")])], "i9")],
     "head": [("assign", "m0", "2")],
     "pre": [("assign", "i0", "0"), ("write", "fn0(3, 5)"), ("write", "fn0(0, 6)"), ("write", "fn1(m0)"), ("write", "fn1(4)")],
     "main": [("assign", "i0", "(i0 + 1)"), ("write", "fn0(i0, 7)"), ("write", "fn1(i0 + m0)"), ("write", "m0")], "loops": 3},
    # the limit of a while loop and both sides of a swap are such variables
    {"pre": [("assign", "m0", "1"), ("assign", "m1", "3"), ("assign", "w0", "0")],
     "main": [("assign", "w0", "0"), ("while", "(w0 < m0)", [("write", "(w0 * 10 + m0)"), ("assign", "w0", "(w0 + 1)")]),
              ("swap", "m0", "m1"), ("assign", "m1", "(m1 + 1)"), ("for", "k0", "m1", [("write", '"y"')])], "loops": 3},
    # range() with two / three arguments, the variable among them: rejected (ValueError), never translated into something else
    {"pre": [("assign", "m0", "3"), ("for", "k0", "1, m0", [("write", "k0")])], "main": None},
    {"pre": [("assign", "m0", "3")], "main": [("for", "k0", "0, m0, 2", [("write", "k0")]), ("assign", "m0", "(m0 + 1)")], "loops": 2},
]


LIST_CORPUS = [
    "plain = [5, 1, 8, 3]\nplain.remove(8)\nmon.write(f\"{plain[0]} {plain[1]} {plain[2]}\")\nq = [4, 7, 4, 9, 7]\nq.remove(7)\n"
    "mon.write(f\"{q[0]} {q[1]} {q[2]} {q[3]}\")\nq.append(4)\nq.remove(4)\nmon.write(f\"{q[0]} {q[1]} {q[2]} {q[3]}\")\n"
    "t = [0, 1, 0]\nn = 0\nwhile True:\n    n += 1\n    t.append(n % 2)\n    t.remove(t[0])\n    mon.write(f\"{n}: {t[0]}{t[1]}{t[2]}\")\n    sleep(15)\n",
]


def gen_list_program(rng):
    """int lists with duplicate values; append / remove(first occurrence) / index reads, every element observed
    after every operation (lists are outside the statement model: firmware-vs-CPython oracle only; len() is not
    used because the transpiler folds it, which is C03's business)"""
    cur = [rng.choice([0, 1, 2, 4, 7]) for _ in range(rng.choice([3, 4, 5]))]
    lines = [f"q = [{', '.join(map(str, cur))}]", "n = 0"]

    def dump(pad=""):
        return pad + 'mon.write(f"' + " ".join("{q[%d]}" % i for i in range(len(cur))) + '")'
    for _ in range(rng.choice([2, 3, 4])):
        if rng.random() < 0.5 and len(cur) > 2:
            k = rng.randrange(len(cur))
            lines.append(f"q.remove(q[{k}])" if rng.random() < 0.5 else f"q.remove({cur[k]})")
            cur.remove(cur[k])
        elif len(cur) < 7:
            src, v = rng.choice([("1", 1), ("4", 4), ("7", 7), ("q[0]", cur[0]), ("q[%d]" % (len(cur) - 1), cur[-1]), ("(n + 2)", 2)])
            lines.append(f"q.append({src})")
            cur.append(v)
        lines.append(dump())
    if rng.random() < 0.8:
        lines.append("while True:")
        lines.append("    n += 1")
        lines.append(f"    q.append({rng.choice(['(n % 2)', 'q[0]', 'q[1]', '(n % 3)'])})")
        lines.append(f"    q.remove(q[{rng.randrange(len(cur))}])")
        lines.append(dump("    "))
    return "\n".join(lines) + "\n"


PINS = {'"A0"': 14, '"A1"': 15, "4": 4}


def gen_inputs(rng, force_const=False):
    if rng.random() < 0.5 or force_const:      # constant reading per pin: the program is a pure function, the models can run it
        return "ar 14 %d\nar 15 %d\ndr 4 %d\n" % (rng.choice([0, 5, 300, 1023, 512]), rng.choice([1, 2, 700]), rng.choice([0, 1]))
    return "ar 14 %s\nar 15 %s\ndr 4 %s\n" % (
        " ".join(str(rng.choice([0, 5, 300, 1023, 512])) for _ in range(6)),
        " ".join(str(rng.choice([1, 2, 700])) for _ in range(4)),
        " ".join(str(rng.choice([0, 1])) for _ in range(5)))


def run_pair(srcs, inputs, loops):
    """-> list of dict(status, diff, fw, py) for each (src, input, loops)"""
    tr = fw.transpile_many(srcs)
    py = fw.pyrun_many([{"src": s, "input": i, "loops": l} for s, i, l in zip(srcs, inputs, loops)])
    jobs, idx = [], []
    for k, (t, i, l) in enumerate(zip(tr, inputs, loops)):
        if t["ok"]:
            jobs.append({"cpp": t["cpp"], "input": i, "loops": l})
            idx.append(k)
    res = dict(zip(idx, fw.run_sketches(jobs)))
    out = []
    for k, (t, y) in enumerate(zip(tr, py)):
        if not t["ok"]:
            out.append({"status": "rejected", "exc": t["exc"], "msg": t.get("msg")})
            continue
        r = res[k]
        if y["exc"]:
            out.append({"status": "py-undefined", "exc": y["exc"], "py_all": y["events"]})
            continue
        if not r["compiled"]:
            out.append({"status": "nocompile", "log": r["compile_log"][-800:]})
            continue
        if r["rc"] != 0:
            out.append({"status": "fw-crash", "rc": r["rc"], "stderr": r["stderr"][-400:]})
            continue
        d = tracecmp.compare(r["events"], y["events"])
        out.append({"status": "equal" if d is None else "DIFF", "diff": d,
                    "fw": tracecmp.fw_events(r["events"])[:60], "py": tracecmp.py_events(y["events"])[:60],
                    "fw_all": r["events"], "py_all": y["events"]})
    return out


INT_MAX = 2 ** 31 - 1


class _Wrap(ast.NodeTransformer):
    """wrap every loaded expression in __chk(...) (records integers outside the 32-bit range)"""

    def visit(self, node):
        node = self.generic_visit(node)
        if isinstance(node, ast.expr) and not isinstance(node, (ast.JoinedStr, ast.FormattedValue, ast.Starred)) \
                and isinstance(getattr(node, "ctx", ast.Load()), ast.Load):
            if isinstance(node, ast.Name) and node.id in ("range", "mon", "sleep", "abs", "min", "max", "int", "float", "bool", "str", "len",
                                                          "digital_write", "analog_write", "digital_read", "analog_read", "__chk"):
                return node
            if isinstance(node, ast.Attribute):
                return node
            return ast.copy_location(ast.Call(func=ast.Name(id="__chk", ctx=ast.Load()), args=[node], keywords=[]), node)
        return node


def leaves_int32(script, inp, loops):
    """True iff the CPython execution of the generated script (setup + `loops` passes) computes an int outside
    the 32-bit range of the g++ mock (C int is modelled as Z with an explicit no-overflow guard, DESIGN section 1)
    or a float of magnitude >= 2^17 (the device float is binary32; Serial prints 2 decimals);
    None if the script cannot be analysed (it is then kept inside the guard)."""
    body = script[len(progen.HEADER):] if script.startswith(progen.HEADER) else script
    try:
        tree = ast.parse(body)
    except SyntaxError:
        return None
    for i, st in enumerate(tree.body):
        if isinstance(st, ast.While) and isinstance(st.test, ast.Constant) and st.test.value is True:
            tree.body[i] = ast.copy_location(
                ast.For(target=ast.Name(id="__pass", ctx=ast.Store()),
                        iter=ast.Call(func=ast.Name(id="range", ctx=ast.Load()), args=[ast.Constant(loops)], keywords=[]),
                        body=st.body, orelse=[]), st)
    tree = ast.fix_missing_locations(_Wrap().visit(tree))
    seen = [False]
    feeds = {}
    for line in inp.splitlines():
        w = line.split()
        if len(w) >= 3 and w[0] in ("ar", "dr"):
            feeds[(w[0], int(w[1]))] = [int(x) for x in w[2:]]

    def chk(v):
        if isinstance(v, int) and not isinstance(v, bool) and abs(v) > INT_MAX:
            seen[0] = True
        elif isinstance(v, float) and not abs(v) < 131072.0:
            seen[0] = True      # the device float is binary32: beyond 2^17 it no longer carries the 2 printed decimals
        return v

    def read(kind):
        def f(pin):
            k = (kind, {"A0": 14, "A1": 15}.get(pin, pin))
            q = feeds.get(k) or [0]
            return q.pop(0) if len(q) > 1 else q[0]
        return f

    class Mon:
        def write(self, v):
            return None
    steps = [0]

    def tracer(frame, event, arg):
        steps[0] += 1
        if steps[0] > 200000:
            raise TimeoutError()
        return tracer
    env = {"__chk": chk, "mon": Mon(), "sleep": lambda ms: None, "digital_write": lambda p, v: None, "analog_write": lambda p, v: None,
           "analog_read": read("ar"), "digital_read": read("dr")}
    import sys
    old = sys.gettrace()
    try:
        sys.settrace(tracer)
        exec(compile(tree, "<generated>", "exec"), env)
    except Exception as e:  # noqa  (NameError etc.: the reference run decides; nothing to add here)
        if C.os.environ.get('C01_DEBUG'):
            print('leaves_int32:', type(e).__name__, e)
    finally:
        sys.settrace(old)
    return seen[0]


EFFECTS = ("S ", "D ", "DW ", "AW ")


def const_inputs(inp):
    """input script -> {pin: value} for the pins whose scripted reading is constant"""
    out = {}
    for line in inp.splitlines():
        w = line.split()
        if len(w) >= 3 and w[0] in ("ar", "dr") and len(set(w[2:])) == 1:
            out[(w[0], int(w[1]))] = int(w[2])
    return out


class _Reads(ast.NodeTransformer):
    """analog_read("A0") / digital_read(4) -> the constant scripted reading"""

    def __init__(self, consts):
        self.consts, self.ok = consts, True

    def visit_Call(self, n):
        self.generic_visit(n)
        if isinstance(n.func, ast.Name) and n.func.id in ("analog_read", "digital_read") and len(n.args) == 1:
            key = ast.unparse(n.args[0])
            k = ("ar" if n.func.id == "analog_read" else "dr", PINS.get(key))
            if k in self.consts:
                return ast.copy_location(ast.Constant(self.consts[k]), n)
            self.ok = False
        return n


def exec_exprs(exprs, consts):
    """expression sources -> (wire expressions for Lang.StmtExec, {id: (kind, pin)} for effect calls) or None"""
    wires, effects = [], {}
    for i, src in enumerate(exprs):
        node = ast.parse(src, mode="eval").body
        if isinstance(node, ast.Call) and isinstance(node.func, ast.Name) and node.func.id in ("digital_write", "analog_write"):
            if len(node.args) != 2 or not isinstance(node.args[0], ast.Constant):
                return None
            effects[i] = ("DW" if node.func.id == "digital_write" else "AW", node.args[0].value)
            node = node.args[1]
        t = _Reads(consts)
        node = t.visit(node)
        if not t.ok:
            return None
        wires.append(PW.enc_expr(node))
    return wires, effects


def _pyval(w):
    v = PW.dec_val(w)
    return float(v) if isinstance(v, Fraction) else v


def model_lines(trace, effects):
    """model trace (wire) -> event lines in the vocabulary of the CPython reference runner"""
    out = []
    for e in trace:
        if e[0] == 0:
            v = _pyval(e[1])
            ty = "bool" if isinstance(v, bool) else "int" if isinstance(v, int) else "float" if isinstance(v, float) else "str"
            out.append(f"S {v}\t{ty}")
        elif e[0] == 1:
            out.append(f"D {_pyval(e[1])}")
        else:
            kind, pin = effects[e[1]]
            v = _pyval(e[2])
            out.append(f"DW {pin} {1 if v else 0}" if kind == "DW" else f"AW {pin} {v}")
    return out


def same_lines(a, b):
    """model lines vs CPython lines: exact, numbers compared as numbers"""
    if len(a) != len(b):
        return False
    for x, y in zip(a, b):
        if x == y:
            continue
        xs, ys = x.split(" "), y.split(" ")
        if xs[0] == ys[0] and xs[0] in ("D", "DW", "AW") and len(xs) == len(ys):
            try:
                if all(float(p) == float(q) for p, q in zip(xs[1:], ys[1:])):
                    continue
            except ValueError:
                pass
        if x.startswith("S ") and y.startswith("S ") and x.endswith("\tfloat") and y.endswith("\tfloat"):
            try:
                p, q = float(x[2:-6]), float(y[2:-6])
                if abs(p - q) <= 1e-9 * max(1.0, abs(q)):
                    continue
            except ValueError:
                pass
        return False
    return True


def src_of(p):
    """the source text of a generated program AS IT WAS RUN (a noisy layout is drawn once and kept in p["_src"])"""
    return p.get("_src") or progen.render(p)


def model_predicts_deviation(ctx, p, l):
    """For a script whose firmware trace differs from CPython's: does the faithful model (Lang.Transl + StmtSem,
    run by Lang.StmtExec) itself compute a C trace different from its Python trace?  Then the script is outside
    the guard of C01_stmt_preserve_partial and the deviation is of a class already modelled (the listed
    findings: re-evaluated range bound, re-typed variable, re-initialised hoisted declaration).  None = the
    models cannot run this script (helper functions, varying inputs): no excuse is made for it."""
    exe = ctx.exes.get("C01_stmt")
    if exe is None or p.get("funcs"):
        return None
    an = SW.Annotator()
    pre = an.stmts(p["pre"])
    main = an.stmts(p["main"]) if p["main"] is not None else None
    if not an.ok:
        return None
    ee = exec_exprs(an.exprs, const_inputs(p["input"]))
    if ee is None:
        return None
    impl = C.run_impl("c01_stmt_impl.py", {"cases": [{"src": src_of(p), "exprs": an.exprs}]})
    r = impl["results"][0]
    w = [1, SW.wire_stmts(pre, r["consts"]), [] if main is None else [SW.wire_stmts(main, r["consts"])], ee[0], l, 600]
    o = C.run_model(exe, [w])[0]
    if not isinstance(o, list) or len(o) != 4 or o[0] != 0 or o[2][0] != 1 or o[3][0] == 2:
        return None
    if bool(o[1]):
        return False                                   # inside the proved guard: never excused
    if o[3][0] != 1:
        return True
    return not same_lines(model_lines(o[3][1], ee[1]), model_lines(o[2][1], ee[1]))


def _kinds(body, acc):
    for st in body or []:
        acc.add(st[0])
        if st[0] == "if":
            for _, b in st[1]:
                _kinds(b, acc)
            _kinds(st[2], acc)
        elif st[0] in ("while", "for"):
            _kinds(st[-1], acc)
    return acc


def _has_tuple_assignment(p):
    """a ("tuple", names, exprs) statement whose names were all assigned before it (not the declaration form)"""
    seen = set()

    def walk(body):
        hit = False
        for st in body or []:
            if st[0] in ("assign", "read", "callassign"):
                seen.add(st[1])
            elif st[0] == "tuple":
                if st[1] and all(n in seen for n in st[1]):
                    hit = True
                seen.update(st[1])
            elif st[0] == "if":
                for _, b in st[1]:
                    hit = walk(b) or hit
                hit = walk(st[2]) or hit
            elif st[0] in ("while", "for"):
                hit = walk(st[-1]) or hit
        return hit
    h1 = walk(p["pre"])
    return walk(p["main"]) or h1


def exec_correspondence(ctx, exe, items):
    """items: (src_body, program, annotator, pre, main, impl_result, loops, pair_result).
    Runs both sides of the statement model (Lang.StmtExec: Python expression semantics shared by
    both sides) and compares  model Python trace = CPython trace,  model C trace = firmware trace."""
    st = collections.Counter()
    jobs = []
    for it in items:
        src, p, an, pre, main, r, l, pr = it
        if pr is None or pr["status"] not in ("equal", "DIFF", "py-undefined", "outside-guard:model-predicted-deviation"):
            st["skipped:" + (pr["status"] if pr else "none")] += 1
            continue
        if pr["status"] == "py-undefined" and leaves_int32(src, p["input"], l):
            # CPython stopped on an int far outside the 32-bit range (e.g. repeated squaring over several passes: "Exceeds the
            # limit for integer string conversion"): outside the guard, and the exact-Z model would compute the same giants
            st["skipped:py-undefined-beyond-int32"] += 1
            continue
        ee = exec_exprs(an.exprs, const_inputs(p["input"]))
        if ee is None:
            st["skipped:varying-input"] += 1
            continue
        wires, effects = ee
        w = [1, SW.wire_stmts(pre, r["consts"]), [] if main is None else [SW.wire_stmts(main, r["consts"])], wires, l, 600]
        jobs.append((it, effects, w))
    outs = C.run_model(exe, [j[2] for j in jobs])
    inside = 0
    for (it, effects, _), o in zip(jobs, outs):
        src, p, an, pre, main, r, l, pr = it
        case = {"script": src, "input": p["input"], "loops": l}
        if not isinstance(o, list) or len(o) != 4 or o[0] != 0:
            ctx.disagree("stmt-exec: model could not decode the program", case, o, None)
            continue
        guard, mpy, mc = bool(o[1]), o[2], o[3]
        inside += guard
        if pr["status"] == "py-undefined":
            st["py-undefined"] += 1
            if mpy[0] == 1:
                ctx.disagree("stmt-exec: CPython raises, the model's Python semantics completes", case, model_lines(mpy[1], effects)[:40], pr["exc"])
            continue
        py = [e for e in pr["py_all"] if e.startswith(EFFECTS)]
        fwv = [e for e in pr["fw_all"] if e.startswith(EFFECTS)]
        if mpy[0] != 1:
            st["model-py-undefined"] += 1
            ctx.disagree("stmt-exec: the model's Python semantics is undefined on a script CPython runs", case, None, py[:40])
            continue
        ml = model_lines(mpy[1], effects)
        if not same_lines(ml, py):
            st["py-DIFF"] += 1
            ctx.disagree("stmt-exec: Python-side trace of the model differs from CPython", case, ml[:60], py[:60])
            continue
        st["py-equal"] += 1
        if mc[0] == 2:
            ctx.disagree("stmt-exec: model rejects a script the real parser accepts", case, "rejected", "accepted")
            continue
        if mc[0] != 1:
            st["model-c-undefined"] += 1
            ctx.disagree("stmt-exec: the model's C semantics is stuck on a program the firmware runs", case, None, fwv[:40])
            continue
        cl = model_lines(mc[1], effects)
        d = tracecmp.compare(fwv, cl)
        if d is not None:
            st["c-DIFF"] += 1
            ctx.disagree("stmt-exec: C-side trace of the model (transl + cexec) differs from the firmware trace", case, cl[:60], {"first_difference": d, "firmware": fwv[:60]})
            continue
        st["c-equal"] += 1
        if guard:
            st["guard:theorem-instance" if same_lines(cl, ml) else "guard:prediction-mismatch"] += 1
            ks = _kinds(p["pre"], _kinds(p["main"], set()))
            if "continue" in ks:
                st["guard:with-continue"] += 1          # inside the proved guard since `continue` has a constructor
            if "swap" in ks or _has_tuple_assignment(p):
                st["guard:with-tuple-assignment-through-temporaries"] += 1
    return {"exec_cases": len(jobs), "exec_status": dict(st), "inside_proved_guard": inside}



def ir_correspondence(ctx, progs, loops=None, res=None):
    """Lang.Transl.transl (extracted) vs the IR of the real parse() on the same programs."""
    exe = ctx.exes.get("C01_stmt")
    if exe is None:
        return {"ir_cases": 0}
    cases, extra = [], []
    for k, p in enumerate(progs):
        if p.get("funcs"):
            continue                      # helper functions are outside the statement model
        an = SW.Annotator()
        pre = an.stmts(p["pre"])
        main = an.stmts(p["main"]) if p["main"] is not None else None
        if an.ok:
            cases.append((p, an, pre, main))
            extra.append((loops[k] if loops else 0, res[k] if res else None))
    if not cases:
        return {"ir_cases": 0}
    impl = C.run_impl("c01_stmt_impl.py", {"cases": [{"src": src_of(p), "exprs": an.exprs} for p, an, _, _ in cases]})
    meta = impl
    wires = [[SW.wire_stmts(pre, r["consts"]), [] if main is None else [SW.wire_stmts(main, r["consts"])]]
             for (p, an, pre, main), r in zip(cases, impl["results"])]
    outs = C.run_model(exe, wires)
    st = collections.Counter()
    for (p, an, pre, main), r, o in zip(cases, impl["results"], outs):
        src = src_of(p)[len(progen.HEADER):]
        if "reject" in r["ir"]:
            st["impl-reject"] += 1
            if o != [1]:
                ctx.disagree("transl: real parser rejects, model accepts", src, "accepted", r["ir"])
            continue
        if o == [1] or o == [2]:
            st["model-reject"] += 1
            ctx.disagree("transl: model rejects/undecodable, real parser accepts", src, o, "accepted")
            continue
        ct = r["ctexts"]
        try:
            mg = [[SW._txt(g[0]), meta["cpp"][SW.TYN[g[1]]], SW.render_cexpr(g[2], ct, meta)] for g in o[1]]
            ms = SW.canon_promoted(SW.model_shape(o[2], ct, meta, an.exprs))
            ml = SW.canon_promoted(SW.model_shape(o[3], ct, meta, an.exprs))
        except Exception as e:  # noqa
            ctx.disagree(f"transl: cannot render model IR ({type(e).__name__})", src, None, None)
            continue
        ig, is_, il = r["ir"]["globals"], SW.canon_promoted(r["ir"]["setup"]), SW.canon_promoted(r["ir"]["loop"])
        if sorted(mg) != sorted(ig) or ms != is_ or ml != il:
            st["DIFF"] += 1
            first = next(((a, b) for a, b in zip(ms + ml, is_ + il) if a != b), None)
            ctx.disagree("transl: IR of the model differs from the IR of the real parser", src,
                         {"globals": mg, "first_differing_node": first and first[0]},
                         {"globals": ig, "first_differing_node": first and first[1]})
        else:
            st["equal"] += 1
    out = {"ir_cases": len(cases), "ir_status": dict(st)}
    if res is not None:
        items = [(src_of(p)[len(progen.HEADER):], p, an, pre, main, r, l, pr)
                 for (p, an, pre, main), r, (l, pr) in zip(cases, impl["results"], extra)]
        out.update(exec_correspondence(ctx, exe, items))
    return out


def replay_fixed(ctx):
    """repaired defects (kind "fixed") suppress nothing: their witnesses are replayed FIRST, and one that fails again is a
    VIOLATION whose replay is the witness"""
    fixed = [f for f in ctx.findings if f.get("kind") == "fixed" and f["id"] in WITNESSES]
    if not fixed:
        return 0
    wres = run_pair([WITNESSES[f["id"]]["src"] for f in fixed], ["" for _ in fixed], [WITNESSES[f["id"]]["loops"] for f in fixed])
    for f, r in zip(fixed, wres):
        w = WITNESSES[f["id"]]
        if r["status"] != "equal":
            ctx.fail(f"repaired defect {f['id']} is back: {f['what']}",
                     {"finding": f["id"], "script": w["src"], "input": "", "loops": w["loops"], "witness": f.get("witness")},
                     r.get("py") or "firmware trace = CPython trace",
                     {"status": r["status"], "first_difference": r.get("diff"), "firmware": r.get("fw"), "exc": r.get("exc"), "log": r.get("log")},
                     key="fixed-defect-returned:" + f["id"])
    return len(fixed)


def count_continue(body, loop, acc):
    """`continue` statements of a statement tree by innermost enclosing loop (for / while / main)"""
    for st in body or []:
        if st[0] == "continue":
            acc[loop or "outside-any-loop"] += 1
        elif st[0] == "if":
            for _, b in st[1]:
                count_continue(b, loop, acc)
            count_continue(st[2], loop, acc)
        elif st[0] in ("while", "for"):
            count_continue(st[-1], st[0], acc)


def run_unit(ctx: C.Ctx):
    rng = ctx.rng
    thorough = ctx.tier == "thorough"
    n_fixed = getattr(ctx, "c01_fixed_replayed", None)
    if n_fixed is None:
        n_fixed = replay_fixed(ctx)
    n = 1200 if thorough else 160
    progs, feats = [], []
    nrng = random.Random(rng.getrandbits(64))          # layout noise has its own stream (derived from the seed)
    nstats = collections.Counter()
    noisy = []                                          # per program: rendered with layout noise?
    for cp in CORPUS:
        progs.append({"funcs": [], "pre": list(cp["pre"]), "main": cp["main"], "input": "ar 14 300\nar 15 2\ndr 4 1\n"})
        feats.append(("corpus",))
        noisy.append(False)
    for cp in CORPUS + LAYOUT_CORPUS:                   # every boundary program again under layout noise (LAYOUT_CORPUS: only so)
        progs.append({"funcs": [], "pre": list(cp["pre"]), "main": cp["main"], "input": "ar 14 300\nar 15 2\ndr 4 1\n"})
        feats.append(("corpus", "layout-noise"))
        noisy.append(True)
    for i in range(n):
        f = FEATURE_SETS[i % len(FEATURE_SETS)]
        g = progen.Gen(rng, f)
        p = g.program(with_main=rng.random() < 0.8)
        for _ in range(6):          # a program of a `continue` feature set contains at least one `continue`
            if "continue" not in f or sum(p["n_continue"].values()) > 0:
                break
            g = progen.Gen(rng, f)
            p = g.program(with_main=True)
        p["input"] = gen_inputs(rng, force_const="branch_first" in f)     # these are always run through the models too
        progs.append(p)
        feats.append(f)
        noisy.append((i // len(FEATURE_SETS)) % 2 == 1)          # every other round of the feature sets
    # 'bound_var' group (appended; its own stream derived from the seed, so the programs above are what they were):
    # the boundary programs, then seeded programs over BOUND_FEATURE_SETS
    brng = random.Random(f"C01-bound-var:{ctx.seed}")
    n_old = len(progs)
    bstats = collections.Counter()
    for noise_on in (False, True):
        for cp in BOUND_CORPUS:
            progs.append({"funcs": list(cp.get("funcs", [])), "head": list(cp.get("head", [])), "pre": list(cp["pre"]), "main": cp["main"],
                          "input": cp.get("input", "ar 14 300\nar 15 2\ndr 4 1\n"), "_loops": cp.get("loops", 0)})
            feats.append(("corpus", "bound_var") + (("layout-noise",) if noise_on else ()))
            noisy.append(noise_on)
    for i in range(180 if thorough else 36):
        f = BOUND_FEATURE_SETS[i % len(BOUND_FEATURE_SETS)]
        for _ in range(6):          # at least one for-range loop with a bare variable bound
            g = progen.Gen(brng, f)
            p = g.program(with_main=brng.random() < 0.85)
            if any(k_.startswith("for-b") for k_ in p["n_bound"]):
                break
        bstats.update(p["n_bound"])
        p["input"] = gen_inputs(brng)
        p["_loops"] = brng.choice([1, 2, 3, 3, 4]) if p["main"] is not None else 0
        progs.append(p)
        feats.append(f)
        noisy.append(i % 3 == 2)
    srcs = []
    for p, nz_on, f_ in zip(progs, noisy, feats):
        if nz_on:
            # comment-only lines at every column (0 .. indentation and deeper), blank lines, trailing comments on statements
            # and headers: CPython ignores them all, so the oracle is unchanged; the text is kept for the IR correspondence
            # every other noisy program additionally with the `wide` classes: per-block indentation widths (or tabs only),
            # optional blanks between tokens, CRLF, no final newline, non-ASCII comment text
            nz = progen.Noise(brng if "bound_var" in f_ else nrng, p_line=0.45 if "corpus" in f_ else 0.3, wide=nstats["noisy-programs"] % 2 == 1,
                              p_space=0.5 if "corpus" in f_ else 0.25)
            p["_src"] = progen.render(p, noise=nz)
            if not progen.same_python(p["_src"], progen.render(p)):
                raise RuntimeError("harness bug: layout noise changed the program CPython reads:\n" + p["_src"])
            nstats.update(nz.stats)
            nstats["noisy-programs"] += 1
            nstats["noisy-programs-with-dedented-comment-inside-block"] += 1 if nz.stats.get("dedented-comment-inside-block") else 0
        srcs.append(src_of(p))
    loops = [(rng.choice([0, 1, 2, 3]) if p["main"] is not None else 0) for p in progs[:n_old]] + [p["_loops"] for p in progs[n_old:]]
    res = run_pair(srcs, [p["input"] for p in progs], loops)
    stats = collections.Counter()
    outside = []
    for s, p, f, l, r in zip(srcs, progs, feats, loops, res):
        if r["status"] in ("DIFF", "equal") and leaves_int32(s, p["input"], l):
            r["status"] = "outside-guard:int32/float32-range"        # C int is 32 bits on the mock; never blamed (DESIGN section 1)
        if r["status"] == "DIFF" and model_predicts_deviation(ctx, p, l):
            r["status"] = "outside-guard:model-predicted-deviation"
            outside.append(s[len(progen.HEADER):])
        stats[r["status"]] += 1
        body = s[len(progen.HEADER):]
        if r["status"] == "DIFF":
            ctx.fail("firmware trace differs from CPython trace", {"script": s, "input": p["input"], "loops": l, "features": list(f) + (["layout-noise"] if "_src" in p and "layout-noise" not in f else [])},
                     r["py"], {"first_difference": r["diff"], "firmware": r["fw"]}, key="trace-diff")
        elif r["status"] == "nocompile":
            ctx.fail("accepted script does not compile", {"script": s, "features": list(f)}, "compilable C++", r["log"], key="nocompile")
        elif r["status"] == "fw-crash":
            ctx.fail("firmware crashed", {"script": s, "input": p["input"], "loops": l}, "rc 0", r, key="fw-crash")
        elif r["status"] == "rejected" and r["exc"] != "ValueError":
            ctx.fail(f"transpiler raised {r['exc']} (not ValueError)", {"script": s}, "ValueError or success", r, key="reject-kind")
    # lists (outside the statement model): firmware trace vs CPython trace only
    lsrcs = [progen.HEADER + b for b in LIST_CORPUS] + [progen.HEADER + gen_list_program(rng) for _ in range(60 if thorough else 12)]
    lnstats = collections.Counter()
    for k in range(len(lsrcs)):                         # every other list program under layout noise
        if k % 2 == 1:
            nz = progen.Noise(nrng)
            t = progen.HEADER + progen.noisy_text(lsrcs[k][len(progen.HEADER):], nz)
            if t != lsrcs[k]:
                lsrcs[k] = t
                lnstats.update(nz.stats)
                lnstats["noisy-programs"] += 1
    lloops = [(rng.choice([0, 2, 3, 6]) if has_main(s_) else 0) for s_ in lsrcs]
    lstats = collections.Counter()
    for s, l, r in zip(lsrcs, lloops, run_pair(lsrcs, ["" for _ in lsrcs], lloops)):
        lstats[r["status"]] += 1
        if r["status"] == "DIFF":
            ctx.fail("firmware trace differs from CPython trace (list operations)", {"script": s, "input": "", "loops": l, "features": ["lists"]},
                     r["py"], {"first_difference": r["diff"], "firmware": r["fw"]}, key="list-trace-diff")
        elif r["status"] in ("nocompile", "fw-crash"):
            ctx.fail("list script: " + r["status"], {"script": s, "loops": l}, "compilable, running C++", r.get("log") or r, key="list-" + r["status"])
    # known findings: replay witnesses
    listed = {f["id"]: f for f in ctx.findings if f.get("kind") != "fixed" and f["id"] in WITNESSES}
    if listed:
        ids = list(listed)
        wres = run_pair([WITNESSES[i]["src"] for i in ids], ["" for _ in ids], [WITNESSES[i]["loops"] for i in ids])
        for i, r in zip(ids, wres):
            if r["status"] in ("DIFF", "nocompile"):
                ctx.known(f"{i}: {listed[i]['what']}")
    ir = ir_correspondence(ctx, progs, loops, res)
    hu = helper_unit(ctx, thorough)
    kinds = collections.Counter()

    def count(body):
        for st in body or []:
            kinds[st[0]] += 1
            if st[0] == "if":
                for _, b in st[1]:
                    count(b)
                count(st[2])
            elif st[0] in ("while", "for"):
                count(st[-1])
    conts = collections.Counter()
    cont_progs = collections.Counter()
    for p, r in zip(progs, res):
        count(p["pre"])
        count(p["main"])
        acc = collections.Counter()
        count_continue(p["pre"], None, acc)
        count_continue(p["main"], "main", acc)
        for fn in p.get("funcs") or []:
            count_continue(fn[2], None, acc)
        conts.update(acc)
        if acc:
            cont_progs[r["status"]] += 1
    distribution = {"statement_kinds": dict(kinds), "feature_sets": dict(collections.Counter("+".join(f) or "core" for f in feats)),
                    "loop_passes": dict(collections.Counter(loops)), "with_main_loop": sum(1 for p in progs if p["main"] is not None),
                    "constant_inputs": sum(1 for p in progs if len(const_inputs(p["input"])) == 3),
                    "continue_by_innermost_loop": dict(conts), "programs_with_continue_by_status": dict(cont_progs),
                    "bare_variable_bounds": dict(bstats), "bound_var_programs_by_status": dict(collections.Counter(r_["status"] for r_ in res[n_old:])),
                    "layout_noise": dict(nstats), "list_layout_noise": dict(lnstats),
                    "fixed_witnesses_replayed_first": n_fixed, "helper_functions": hu}
    ctx.coverage.setdefault("distribution", {})["C01_stmt"] = distribution
    ctx.assumptions += [
        "C01_stmt_preserve_partial is proved modulo a shared opaque expression semantics and assumes SemFacts.sem_facts: the type label the parser infers for an expression is the type of its value (expression layer / C02); it is about the IR semantics Lang.StmtSem.cexec, which is tied to the emitted C++ only by the executable correspondence (extracted transl+cexec vs firmware trace)",
        "C int = Z and device float = Q in the models: runs that leave the 32-bit / binary32 range are detected on the CPython side and excluded, not blamed"]
    return {
        "distribution": distribution, "outside_guard_samples": outside[:3],
        "theorems": "layout (Lang/StmtLayout.v + the block-skeleton parser Lang/Lex.v): C01_stmt_layout_noise_invisible (EVERY layout inside the round-trip guard - junk lines at any column, trailing comments, any indentation unit - is read as the statements of its skeleton: no statement leaves or enters a block, no else arm is lost), C01_stmt_ir_relayout_invariant (same IR of the statement model for any two layouts of a script), C01_noisy_lines_keep_every_statement (lines -> IR keeps every statement in its block and phase), witnesses C01_layout_noise_witness (column-0 comment inside an if block in front of its second statement; the script with the statement moved out is a different statement list), C01_layout_chain_witness; C01_no_silent_drop, C01_break_guard, C01_continue_guard, C01_continue_translation (all programs); C01_stmt_preserve_partial (simulation inside StmtGuard.guard_ok, modulo the shared expression semantics + SemFacts.sem_facts); C01_for_variable_bound_follows_the_variable (its instance on `n = v0 / while True: for i in range(n): write(i) / write(n) / n = n + 1` for EVERY initial value v0 and every number of passes: loop() starts with the for node over the bare name n and both traces are equal - the bound is read when the loop is reached, not when the line is parsed), C01_stmt_{range_bound,loop_var_assigned,retype}_refuted (witnesses = listed findings); repaired and positive: C01_nothing_is_reinitialised (EVERY accepted program: no node of setup() / loop() at any depth declares or assigns a default value - the universally quantified statement both repaired findings contradicted), C01_hoisted_declaration_dropped, C01_first_assignment_becomes_assignment, C01_main_loop_first_assignment_is_global (all inputs), C01_stmt_promotion_no_reinit, C01_stmt_loop_variable_persists (the witnesses of F-C01-hoisted-decl-reinit / F-C01-loop-local-reinit: both traces equal); helper functions (Lang/FnRet.v): C01_return_type_covers, C01_bool_helper_only_truth_values, C01_number_or_truth_helper_is_int (all label lists), C01_helper_call_value_preserved (every body with any number of return statements: same state, events and number on both sides), C01_helper_call_serial_preserved_partial (guard FnRet.uniform_kind), C01_helper_mixed_return_refuted (finding F-C01-helper-mixed-return); tuple assignment (Lang/TupleOrder.v): C01_tuple_rhs_evaluated_in_source_order, C01_tuple_declaration_evaluated_in_source_order (the emitted statements evaluate e0..en once each, in source order, before the first target is written)",
        "guard": "StmtGuard.guard_ok: every variable first assigned at top level of the setup part (global) or at top level of the `while True:` body before any read in the text of that body (a global as well since the repair of F-C01-loop-local-reinit: default initialiser, assigned in place, value kept between passes); later assignments keep the type label; tuple assignment either as the declaration of distinct new names at top level of the setup part, or (n >= 1) to names that are all declared already with unchanged types (swap / rotation / parallel assignment through block-local temporaries `__tmp_assign_k`, at any nesting level and in the main loop; mixed new/declared tuples and tuple declarations inside the main loop stay outside); declared names are not spelled like a temporary; range() bound int-labelled, independent of the loop variable and of names the body assigns; loop variables fresh, unassigned, read only inside their loop; consistent expression ids.  Oracle guard (dynamic): no computed int leaves 32 bits (CPython run with every expression instrumented); a script whose deviation the extracted model itself predicts (outside guard_ok) is not blamed.  `continue` is inside the guard (any placement the parser accepts: in for / while loops, under nested ifs, in the body of the main loop where it is `return;` from loop()).  Layout: one statement per physical line; indentation by blanks only or by tabs only (never mixed: F-C07-tab-width); a blank after if / elif / while, none between a callee / `range` and its parenthesis nor around the dot of a method call (F-C07-keyword-paren, F-C07-call-paren-space); no '#' inside triple-quoted literals; everything else CPython ignores (comment-only lines at any column, blank lines, trailing comments, optional blanks between tokens, CRLF) is generated",
        "unmodelled": ["helper functions: the return type and the returned value are modelled (Lang/FnRet.v, tied to _merge_return_types exhaustively and to the emitted return type of every generated helper); parameters / per-signature variants, locals of a helper and the call sites inside expressions are covered by the firmware-vs-CPython oracle only (generated helpers: several return statements, effects, calls in every expression position)", "side effects of expressions: the simulation theorem's expression semantics is pure; the ORDER of effectful right-hand sides of a tuple assignment is proved at the level of the emitted node list (C01_tuple_rhs_evaluated_in_source_order) and observed on the firmware by the oracle; C++ operand / argument evaluation order inside one expression is outside every model (finding F-C01-eval-order)", "lists, try/except, device objects (firmware-vs-CPython oracle only)", "hoisting (promotion: a name first assigned inside an if/while/for block) is in Lang.Transl and in the executable correspondence (IR and both traces), but outside the simulation theorem's guard; the refuted witness retype marks where the unchanged code stops preserving behaviour; hoisted-decl-reinit and loop-local-reinit are repaired (witness theorems C01_stmt_promotion_no_reinit / C01_stmt_loop_variable_persists, rewriter theorems for all inputs) ; for every accepted program C01_nothing_is_reinitialised excludes the defect class itself (no default re-initialisation anywhere) - a universally quantified SIMULATION theorem for hoisting is not proved", "tuples mixing new and declared names, tuple first-assignments inside the main loop (globals assigned from the temporaries: in Lang.Transl.tr_tuple_main and both correspondences, outside the simulation theorem's guard)", "expression translation (unit C01_expr): the simulation is modulo a shared opaque expression semantics", "16-bit int of a real AVR", "identifiers reserved in C++ (keywords, setup / loop, Arduino core names, A<n>): rejected by the parser since the repair of F-C06-cpp-keyword-identifier; Lang.Transl does not transcribe that check (its model is coq/Lang/Reserved.v of C06, tied to parser._check_identifier there) and the generated programs take their names from pools without such names"],
        "evaluations": len(progs) + len(lsrcs) + ir["ir_cases"] + ir.get("exec_cases", 0) + hu.get("merge_cases", 0) + hu["helper_programs"], "list_programs_by_status": dict(lstats), "programs_by_status": dict(stats), "ir_correspondence": ir,
        "distinct_nontrivial": len({s for s, r in zip(srcs, res) if r["status"] == "equal" and len(r["py"]) >= 3}) + hu["nontrivial"],
        "samples": [srcs[0][len(progen.HEADER):], srcs[-1][len(progen.HEADER):]],
        "rule": "BARE-VARIABLE BOUNDS (group 'bound_var', own stream derived from the seed; harness/progen.py feature bound_var): 10 boundary programs (a for-range bound that is a bare variable, constant-initialised and then grown by a plain re-assignment at the end of every pass of the main loop / grown inside an enclosing while loop of the setup part / chosen in an if branch / read from a sensor / shrunk by an augmented assignment and reset under an if / copied, negative, zero / the first parameter of a helper spelled like a module-level constant declared above the def and re-assigned inside the helper; the same variable as the limit of a while loop, as both sides of a swap, bare as sleep / analog_write argument; range() with two and three arguments = rejected), each plain and under layout noise, + 36 (thorough 180) seeded programs over 6 feature sets in which variables m0 / m1 (declared with an int literal, sometimes from a digital read; with helpers mostly above the defs) are re-assigned by plain and augmented +-1 steps, modular steps, literals (also under an if), digital reads, analog reads reduced mod 3..5, copies and swaps - in the setup part, inside for / while loops, in branches and in the main loop - and are used BARE as range() bounds (never assigned in the body of that loop: F-C01-range-bound-reeval), while limits, sleep / analog_write arguments, call arguments of helpers whose first parameter bounds a for loop (half of those parameters are spelled m0), and inside conditions and arithmetic; 1-4 passes of the main loop; judged by the firmware-vs-CPython trace oracle, the programs without helpers also by the IR and execution correspondences; counts in distribution.bare_variable_bounds | the witnesses of repaired defects first (F-C01-continue-dropped), then 20 hand-written boundary programs (break guard, nested break, empty range, elif chain, shadowing loop variable, tuple declarations reading re-assigned variables, tuple assignments to declared names - float swap, rotation, Fibonacci step, swaps in the main loop -, promotion out of for/while/if; `continue` in for-range, in while, under nested ifs, in an else arm, in the inner of two loops, in the main loop body directly / under nested ifs / inside a for loop of the main loop, unconditional with dead code after it, misplaced = rejected) + seeded programs from harness/progen.py over 8 feature sets (core ints; +floats; +helper functions; +tuple/swap; all; first assignment inside branches; `continue`; `continue` + all), N in 0..3 loop passes, scripted analog/digital inputs (half of them constant per pin); every program: firmware trace vs CPython trace (oracle); programs without helper functions: IR of Lang.Transl.transl vs IR of the real parser; those with constant inputs additionally: extracted pexec vs CPython trace and extracted transl+cexec vs firmware trace (Lang.StmtExec), and the number of them inside the guard of C01_stmt_preserve_partial is recorded; non-trivial = both sides ran and the common trace has >= 3 events; HELPER FUNCTIONS (harness/c01_helpers.py): 12 hand-written helper scripts (False-or-number and number-or-comparison helpers, tuple assignment from reporting / global-updating / sleeping / pin-driving helpers at module level, in the main loop and to function locals, early return out of loops, recursion, bare return, two call signatures, calls in while/if/elif conditions, and/or operands, conditional-expression arms, f-string fields) + seeded programs with 2-5 helpers each (kinds int / bool / bool+int mixed / float / void; shapes guard chain, early return in for and while loops, nested ifs, single return; effects serial / delay / pin / global counter) called from every expression position; oracle = firmware trace vs CPython trace; ties = Lang.FnRet.merge_ret vs _merge_return_types on all 2730 label lists of length <= 5 x has_void, and per parsed helper: labels handed to _merge_return_types = `return e` statements of the generated body, emitted return type = cpp(merge_ret labels); LAYOUT NOISE (harness/progen.py Noise; CPython ignores all of it, so every oracle and correspondence is unchanged - the IR correspondence parses the noisy text and compares with the model's IR of the tree): every boundary program a second time, three layout boundary programs (blocks of every kind with several statements whose condition is false / whose count is not 1, else arms behind them, three levels, the same inside the main loop) and every other round of the generated programs / helper programs / list programs carry comment-only lines at every column (0, the enclosing header's column, between, the current indentation, deeper) before any statement - the first of a block, elif / else included - and after the last one of a block, blank and blanks-only lines, trailing comments and trailing blanks on statements and headers (if / elif / else / while / for / def / the main loop), comment texts that look like code (`# else:`, `# while True:`, `# i0 = 99`, unbalanced quotes, two hashes); half of those additionally: each block with its own indentation width (1-8 blanks) or the whole script tab-indented, optional blanks around = / augmented operators / commas / inside call parentheses / before the colon / between header words, CRLF line ends, no newline at the end of the file, non-ASCII comment text; counts in distribution.layout_noise (dedented-comment-inside-block = a comment-only line no deeper than the enclosing header followed by a statement of the same block)",
    }
