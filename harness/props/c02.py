"""C02 - type inference is sound: no value is narrowed or re-typed on the device."""
from __future__ import annotations

import ast
import itertools
import json
import re
from fractions import Fraction

from harness import common as C
from harness import fw
from harness import pyast_wire as W

META = {
    "id": "C02",
    "technique": "Coq proof (soundness of a line-by-line model of _infer_expr_type w.r.t. the reference Python expression semantics, by induction over expressions; join / declaration / hoisting lemmas; refutation witnesses by vm_compute) + extracted-model correspondence with the real _infer_expr_type/_cpp_type/_merge_* and with the declaration lines of the emitted C++ + firmware-vs-CPython value oracle",
    "level_text": "Theorems C02_* (coq/Props/C02.v) are proved for all expressions / assignment sequences about Gallina models (coq/Lang/Infer.v, Decl.v) of the type-label layer of transpile/parser.py; _partial theorems carry an executable guard, each guard clause has a _refuted witness. The models are run against the real functions (direct calls, exact label and mutated var_types) and against the declared C types in the emitted sketch; the property itself is tested on compiled firmware (mock core) against CPython for programs inside the guard.",
    "level_note": "Trusted: Coq kernel, extraction (ExtrOcamlBasic), OCaml driver, translator plug-in harness/gen/c02_infer.py (builtin call table), harness codecs, g++ and the mock Arduino core as 'device', CPython 3.12 as 'Python', PySem.v as the reference expression semantics (validated against CPython's eval). The theorems are about the models; the correspondence bounds their distance from parser.py.",
    "design_ref": "DESIGN.md section 4 C02, Appendix B.1-B.4",
}

# --------------------------------------------------------------------------- label codec
SCALARS = {"int": 0, "float": 1, "bool": 2, "String": 3, "void": 5}
SCALAR_BY_CODE = {v: k for k, v in SCALARS.items()}


def enc_label(s: str):
    if s in SCALARS:
        return [SCALARS[s]]
    if isinstance(s, str) and s.startswith("list[") and s.endswith("]"):
        return [4, enc_label(s[5:-1])]
    return [6, s]


def dec_label(w) -> str:
    if w[0] in SCALAR_BY_CODE:
        return SCALAR_BY_CODE[w[0]]
    if w[0] == 4:
        return "list[" + dec_label(w[1]) + "]"
    return w[1] if isinstance(w[1], str) else C.wstr(w[1])


def enc_ctype(s: str):
    m = {"int": [0], "float": [1], "bool": [2], "String": [3], "void": [5]}
    if s in m:
        return m[s]
    if s.startswith("__redu_list<") and s.endswith(">"):
        return [4, enc_ctype(s[len("__redu_list<"):-1])]
    raise ValueError(s)


def dec_ctype(w) -> str:
    m = {0: "int", 1: "float", 2: "bool", 3: "String", 5: "void"}
    if w[0] in m:
        return m[w[0]]
    return "__redu_list<" + dec_ctype(w[1]) + ">"


def enc_tenv(d: dict):
    return [[k, enc_label(v)] for k, v in d.items()]


def dec_tenv(w) -> dict:
    return {C.wstr(k): dec_label(v) for k, v in w}


def enc_functions(fs: dict):
    out = []
    for name, ent in fs.items():
        if isinstance(ent, str):
            out.append([name, [0, enc_label(ent)]])
        else:
            out.append([name, [1, [[[enc_label(x) for x in sig], enc_label(lab)] for sig, lab in ent]]])
    return out


def enc_aliases(al: dict):
    return [[name, [[[enc_label(x) for x in a], [enc_label(x) for x in b]] for a, b in prs]] for name, prs in al.items()]


CTX_KEYS = ["led_names", "servo_names", "serial_monitors", "ultrasonic_names"]


def enc_ictx(cx):
    if cx is None:
        return []
    return [list(cx[k]) for k in CTX_KEYS]


LABEL_POOL = ["int", "float", "bool", "String", "void", "list[int]", "list[float]", "list[String]",
              "list[list[int]]", "list[bool]", "foo", ""]

# --------------------------------------------------------------------------- expression generator (typing-relevant shapes)
NAMES = ["a", "b", "c", "d", "e", "s", "t", "xs", "ys", "led", "sv", "mon", "us", "q"]


def gen_typed_expr(rng, depth, names=NAMES):
    def atom():
        r = rng.random()
        if r < 0.42:
            return rng.choice(names)
        if r < 0.55:
            return _lit_int(rng)
        if r < 0.67:
            return repr(rng.choice([0.5, 2.5, 1.0, 0.0, 7.75]))
        if r < 0.77:
            return rng.choice(["True", "False"])
        if r < 0.92:
            return repr(rng.choice(W.STR_LITS))
        return rng.choice(["None", "...", "b'x'"])

    def go(d):
        if d <= 0 or rng.random() < 0.18:
            return atom()
        r = rng.random()
        if r < 0.30:
            op = rng.choice(["+", "+", "+", "-", "*", "*", "/", "//", "%", "**", "&", "|", "^", "<<", ">>", "@"])
            return f"({go(d - 1)} {op} {go(d - 1)})"
        if r < 0.38:
            return f"({rng.choice(['-', '+', 'not ', '~'])}{go(d - 1)})"
        if r < 0.44:
            return "(" + f" {rng.choice(['and', 'or'])} ".join(go(d - 1) for _ in range(rng.choice([2, 3]))) + ")"
        if r < 0.50:
            ops = ["==", "!=", "<", "<=", ">", ">=", "is", "in", "not in"]
            if rng.random() < 0.25:
                return f"({go(d - 1)} {rng.choice(ops)} {go(d - 1)} {rng.choice(ops)} {go(d - 1)})"
            return f"({go(d - 1)} {rng.choice(ops)} {go(d - 1)})"
        if r < 0.60:
            return f"({go(d - 1)} if {go(d - 1)} else {go(d - 1)})"
        if r < 0.72:
            f = rng.choice(["abs", "min", "max", "int", "float", "bool", "len", "str", "digital_read", "analog_read"])
            n = rng.choice([0, 1, 1, 1, 2, 2, 3])
            args = [go(d - 1) for _ in range(n)]
            if rng.random() < 0.12:
                args.append("key=" + go(d - 1))
            return f"{f}(" + ", ".join(args) + ")"
        if r < 0.80:
            f = rng.choice(["f", "g", "h", "k"])
            n = rng.choice([0, 1, 1, 2, 2, 3])
            return f"{f}(" + ", ".join(go(d - 1) for _ in range(n)) + ")"
        if r < 0.87:
            owner = rng.choice(["led", "sv", "mon", "us", "q", "a", "(a + b)", "xs"])
            attr = rng.choice(["get_state", "get_brightness", "read", "read_us", "measure_distance", "foo", "append"])
            args = ", ".join(go(d - 1) for _ in range(rng.choice([0, 0, 0, 1])))
            return f"{owner}.{attr}({args})"
        if r < 0.93:
            n = rng.choice([0, 1, 2, 2, 3])
            return "[" + ", ".join(go(d - 1) for _ in range(n)) + "]"
        if r < 0.97:
            return f"{go(d - 1)}[{go(d - 1)}]"
        if r < 0.985:
            return "f\"v={" + go(d - 1).replace('"', "'") + "}\""
        return rng.choice([f"({go(d - 1)}, {go(d - 1)})", "a.b", "(lambda: 1)", "{1: 2}"])

    return go(depth)


def _lit_int(rng):
    v = rng.choice(W.INT_LITS)
    return f"({v})" if v < 0 else str(v)


def gen_env(rng):
    env = {}
    for n in NAMES:
        r = rng.random()
        if r < 0.2:
            continue
        if n in ("xs", "ys") and r < 0.8:
            env[n] = rng.choice(["list[int]", "list[float]", "list[String]", "list[list[int]]", "list[bool]"])
        elif n in ("s", "t") and r < 0.75:
            env[n] = "String"
        else:
            env[n] = rng.choice(["int", "int", "float", "float", "bool", "String"] + LABEL_POOL)
    return env


def gen_functions(rng):
    fs = {}
    sc = ["int", "float", "bool", "String"]
    if rng.random() < 0.8:
        ent = []
        for _ in range(rng.randint(0, 4)):
            sig = [rng.choice(sc) for _ in range(rng.choice([0, 1, 1, 2, 2, 3]))]
            if all(sig != s for s, _ in ent):
                ent.append([sig, rng.choice(sc + ["void", "list[int]"])])
        fs["f"] = ent
    if rng.random() < 0.5:
        fs["g"] = rng.choice(sc + ["void"])
    if rng.random() < 0.5:
        fs["h"] = [[[rng.choice(sc)], rng.choice(sc)], [[rng.choice(sc), rng.choice(sc)], rng.choice(sc)]]
        if fs["h"][0][0] == fs["h"][1][0]:
            fs["h"].pop()
    al = {}
    if "f" in fs and fs["f"] and rng.random() < 0.6:
        al["f"] = [[[rng.choice(sc) for _ in range(len(fs["f"][0][0]))], fs["f"][0][0]]]
    return fs, al


def gen_ctx(rng):
    if rng.random() < 0.35:
        return None
    pool = ["led", "sv", "mon", "us", "q"]
    return {k: [n for n in pool if rng.random() < 0.45] for k in CTX_KEYS}


# --------------------------------------------------------------------------- part (a): direct calls
def part_a(ctx, stats):
    rng = ctx.rng
    thorough = ctx.tier == "thorough"
    n_random = 6000 if thorough else 1500
    cases = []
    # boundary shapes first (every clause of the model at least once, with and without ctx)
    fixed_srcs = [
        "1", "True", "2.5", "'s'", "None", "a", "zz", "a + b", "s + a", "a + s", "s + t", "a * s", "'x' + a", "a + 'x'", "a - s",
        "(a + 1) + s", "s + (a + 1)", "a / b", "a // b", "a % b", "a ** b", "a @ b", "2.5 + a", "a + 2.5", "True + True",
        "-a", "+a", "~a", "not a", "-True", "not s", "a and b", "a or s", "a < b", "a < b < c", "a is b", "a in xs",
        "a if c else b", "s if c else a", "2.5 if c else a", "True if c else 1", "xs if c else a", "(s + a) if c else a",
        "f'{a}'", "f'x'", "abs(a)", "abs(-2.5)", "max(a, 2.5)", "min(a, b)", "int(s)", "float(a)", "bool(a)", "str(a)", "len(xs)",
        "digital_read(3)", "analog_read('A0')", "abs(s + a)", "int(a, key=s + b)", "f()", "f(a)", "f(a, 2.5)", "f(s + a)", "g(1)", "h(a)", "h(a, b)", "k(a)",
        "led.get_state()", "q.get_state()", "led.get_brightness()", "sv.read()", "mon.read()", "q.read()", "sv.read_us()", "us.measure_distance()",
        "q.measure_distance()", "(a + b).read()", "xs.append(s + a)", "led.foo()", "[]", "[1]", "[1, 2.5]", "[1, True]", "['a', 1]", "[True, False]",
        "[[1], [2]]", "[[1], [2.5]]", "[[1], 2]", "[xs, xs]", "[xs, ys]", "[s + a, a]", "[a, s + a]", "xs[0]", "s[0]", "a[0]", "[1, 2][a]", "xs[s + a]",
        "(xs + xs)[0]", "[[1.5]][0][0]", "(1, 2)", "a.b", "(lambda: 1)", "{1: 2}", "[g(1), 2]", "-s", "-(s + a)", "not (s + a)", "(s + a) < 1",
    ]
    for src in fixed_srcs:
        for _ in range(3 if thorough else 2):
            fs, al = gen_functions(rng)
            cases.append({"src": src, "var_types": gen_env(rng), "functions": fs, "aliases": al, "ctx": gen_ctx(rng)})
    for i in range(n_random):
        depth = rng.choice([1, 2, 2, 3, 3, 4])
        fs, al = gen_functions(rng)
        cases.append({"src": gen_typed_expr(rng, depth), "var_types": gen_env(rng), "functions": fs, "aliases": al, "ctx": gen_ctx(rng)})
    # also the shared Lang generator (numeric / string programs)
    for i in range(n_random // 3):
        src = W.gen_expr(rng, rng.choice([2, 3, 4]), names=["a", "b", "c", "s"])
        cases.append({"src": src, "var_types": gen_env(rng), "functions": {}, "aliases": {}, "ctx": None})
    for c in cases:
        if c["ctx"] is None:
            c["aliases"] = {}
    impl = C.run_impl("c02_impl.py", {"cases": [["infer", c] for c in cases]})
    wire = [[0, enc_ictx(c["ctx"]), enc_functions(c["functions"]), enc_aliases(c["aliases"]), enc_tenv(c["var_types"]), W.enc_src(c["src"])]
            for c in cases]
    model = ctx.model(wire) if ctx.exe else [None] * len(cases)
    kinds, labels, mutated, nontrivial = {}, {}, 0, set()
    for c, r, m in zip(cases, impl, model):
        node = ast.parse(c["src"], mode="eval").body
        kinds[type(node).__name__] = kinds.get(type(node).__name__, 0) + 1
        if "exc" in r:
            labels["raises " + r["exc"]] = labels.get("raises " + r["exc"], 0) + 1
            if r["exc"] != "ValueError":
                ctx.fail("_infer_expr_type raised something other than ValueError", c, "label or ValueError", r, key="infer-exc")
        else:
            labels[r["label"]] = labels.get(r["label"], 0) + 1
            if r["var_types"] != c["var_types"]:
                mutated += 1
            if not isinstance(node, (ast.Constant, ast.Name)):
                nontrivial.add(c["src"] + "|" + json.dumps(c["var_types"], sort_keys=True))
        if m is None:
            continue
        if m == [2]:
            ctx.disagree("infer: model cannot decode the case (harness codec)", c, m, r)
        elif "exc" in r:
            if not (m[0] == 1 and r["exc"] == "ValueError"):
                ctx.disagree("infer: implementation raises, model does not agree", c, m, r)
        elif m[0] != 0:
            ctx.disagree("infer: model raises ValueError, implementation returns", c, m, r)
        else:
            ml, menv = dec_label(m[1]), dec_tenv(m[2])
            if ml != r["label"]:
                ctx.disagree("infer: returned label differs", c, ml, r["label"])
            elif menv != r["var_types"]:
                ctx.disagree("infer: mutated var_types differ", c, menv, r["var_types"])
    stats["infer_cases"] = len(cases)
    stats["infer_root_kinds"] = kinds
    stats["infer_labels"] = labels
    stats["infer_cases_mutating_var_types"] = mutated
    stats["infer_distinct_nontrivial"] = len(nontrivial)

    # ---- enumerated helper functions
    pool = ["int", "float", "bool", "String", "void", "list[int]", "list[float]", "foo", ""]
    small = ["int", "float", "bool", "String", "list[int]", "void"]
    lab_cases = LABEL_POOL + ["list[list[list[float]]]", "list[void]", "list[foo]", "list[]", "Int", "string", "list[", "list"]
    impl = C.run_impl("c02_impl.py", {"cases": [["cpp", l] for l in lab_cases]})
    if ctx.exe:
        for l, r, m in zip(lab_cases, impl, ctx.model([[1, enc_label(l)] for l in lab_cases])):
            got = [C.wstr(m[1]), C.wstr(m[2])]
            if got != r or dec_ctype(m[0]) != r[0]:
                ctx.disagree("_cpp_type / _default_value_for_type", l, got, r)
            if C.wstr(m[3]) != l:
                ctx.disagree("label codec: label_text of the decoded label is not the label", l, C.wstr(m[3]), l)
    ctypes = ["int", "float", "bool", "String", "void", "__redu_list<int>", "__redu_list<float>", "__redu_list<String>",
              "__redu_list<__redu_list<bool>>"]
    impl = C.run_impl("c02_impl.py", {"cases": [["default", t] for t in ctypes]})
    if ctx.exe:
        for t, r, m in zip(ctypes, impl, ctx.model([[4, enc_ctype(t)] for t in ctypes])):
            if C.wstr(m) != r:
                ctx.disagree("_default_value_for_type", t, C.wstr(m), r)
    mr = [[list(t), hv] for n in range(0, 4) for t in itertools.product(pool, repeat=n) for hv in (False, True)]
    for _ in range(600 if thorough else 150):
        mr.append([[rng.choice(pool) for _ in range(rng.randint(4, 7))], rng.random() < 0.2])
    impl = C.run_impl("c02_impl.py", {"cases": [["merge_ret", t, hv] for t, hv in mr]})
    n_raise = 0
    if ctx.exe:
        for (t, hv), r, m in zip(mr, impl, ctx.model([[2, [enc_label(x) for x in t], hv] for t, hv in mr])):
            n_raise += r[0] == "ValueError"
            got = ["ok", dec_label(m[1])] if m[0] == 0 else ["ValueError"]
            if got != r:
                ctx.disagree("_merge_return_types", [t, hv], got, r)
    me = [list(t) for n in range(0, 4) for t in itertools.product(pool + ["list[list[int]]"], repeat=n)]
    for _ in range(600 if thorough else 150):
        me.append([rng.choice(pool) for _ in range(rng.randint(4, 7))])
    impl = C.run_impl("c02_impl.py", {"cases": [["merge_elem", t] for t in me]})
    if ctx.exe:
        for t, r, m in zip(me, impl, ctx.model([[3, [enc_label(x) for x in t]] for t in me])):
            got = ["ok", dec_label(m[1])] if m[0] == 0 else ["ValueError"]
            if got != r:
                ctx.disagree("_merge_element_types", t, got, r)
    an = [None, "int", "float", "bool", "str", "String", "None", "void", "list", "object"]
    impl = C.run_impl("c02_impl.py", {"cases": [["annot", a] for a in an]})
    if ctx.exe:
        for a, r, m in zip(an, impl, ctx.model([[8, [] if a is None else [a]] for a in an])):
            if dec_label(m) != r:
                ctx.disagree("_annotation_to_type_label", a, dec_label(m), r)
    # the harness codec's notion of a list label is the implementation's
    impl = C.run_impl("c02_impl.py", {"cases": [["listlabel", l] for l in lab_cases]})
    for l, r in zip(lab_cases, impl):
        e = enc_label(l)
        if (e[0] == 4) != r[0] or (e[0] == 4 and dec_label(e[1]) != r[1]) or dec_label([4, e]) != r[2]:
            ctx.disagree("label codec vs _is_list_type/_list_element_type/_make_list_type_label", l, e, r)
    stats["helper_cases"] = {"cpp_type": len(lab_cases), "default_value": len(ctypes), "merge_return_types": len(mr),
                             "merge_return_types_raising": n_raise, "merge_element_types": len(me), "annotation": len(an)}
    return len(cases) + len(lab_cases) * 2 + len(ctypes) + len(mr) + len(me) + len(an)


def run(ctx: C.Ctx):
    stats = {}
    n = part_a(ctx, stats)
    ctx.coverage.update({"evaluations": n, "distribution": stats})
